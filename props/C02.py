"""C02 - JSON round trip: parse(dump(g)) is g (jsondumper.py + jsonparser.py + parser.py + dumper.py)."""
import z3

from hv.vc import smt
from hv.vc.kit import Task
from hv.vc.world import World
from hv.vc.symex import Obligation
from hv.vc.values import SObj, SVal, Builtin, PyExc, OutOfSubset, LazyDict
from hv.vc.shapes import Shape, Lit, Field, Misaligned, SplitAmbiguous, Lang
from hv.lang import automata as A
from hv.frontend import extract
from props import jsonread as JR, C06
from contracts import hvalues as HV, kinds as KD

HAS_CONCRETE = True
CONCRETE_TIMEOUT = {'quick': 300, 'thorough': 1800}
TRUSTED_BASE = ['A-py', 'A-fl (%f / float() pair: |float("%f" % x) - x| <= 5e-7, exact for the other decimal languages)',
                'A-tz (isoformat spells the components of a date/time; iso8601.parse_date / astimezone / timezone_name / timezone by contract, C17)',
                'A-bi-json (json.dumps / json.loads are inverse on JSON-able trees, key order kept)', 'A-bi-base64', 'A-bi-copy (deepcopy)',
                'E2 (regex acceptance and group alignment on the writer shapes; greedy-longest rule with coverage)']
ASSUMPTIONS = ['nested lists/dicts/grids by structural induction over the proved element-wise encoders/decoders (R-ind-struct)',
               'a Quantity with a unit has a finite value (INF with a unit has no Haystack spelling)']
EXPLANATION = ('For every value kind the real writer is symbolically executed on a shape-typed value and the real reader on the resulting shape, in one path; '
               'the decoded value is proved to be the original (same kind, same payload fields; numbers through the %f / float() lemma). '
               'Grid assembly (parse_grid, parser.parse shaping, dumper.dump framing) is executed on symbolic documents.')


def task_names(tier):
    names = []
    for k in HV.WRITER_KINDS:
        names.append('roundtrip:3.0:' + k)
        if not (k == 'na' or k.startswith('xstr')):
            names.append('roundtrip:2.0:' + k)
    return names + ['grid', 'framing', 'writer_document']


def run_task(name, tier):
    if name == 'writer_document':
        # every value of the document - grid metadata, column metadata, cells - is encoded under the grid's version (so a 2.0 grid spells
        # Remove the 2.0 way wherever it stands): the document task of the JSON writer (C06)
        from props import C06
        r = C06.run_task('document', tier)
        r['task'] = name
        return r
    T = Task(name)
    parts = name.split(':')
    globals()['t_' + parts[0]](T, tier, *parts[1:])
    return T.result()


def refine_for_reader(it, shape):
    """A-tz: date.isoformat() is YYYY-MM-DD spelling the date's components; time.isoformat() is HH:MM:SS[.ffffff]"""
    out = []
    exp = {}
    for p in shape.parts:
        if isinstance(p, Field) and p.kind == 'iso_date':
            y, m, d = JR.F('year', r'\d{4}', 'digits', den=(p.den, 'year')), JR.F('month', r'\d{2}', 'digits', den=(p.den, 'month')), JR.F('day', r'\d{2}', 'digits', den=(p.den, 'day'))
            out += [y, Lit('-'), m, Lit('-'), d]
            exp['date'] = (y, m, d)
        elif isinstance(p, Field) and p.kind == 'iso_time':
            h, m, s = JR.F('hour', r'\d{2}', 'digits', den=(p.den, 'hour')), JR.F('minute', r'\d{2}', 'digits', den=(p.den, 'minute')), JR.F('second', r'\d{2}', 'digits', den=(p.den, 'second'))
            out += [h, Lit(':'), m, Lit(':'), s]
            us = None
            if it.ctx.branch(it.ctx.fresh('time_has_microseconds', z3.BoolSort())):
                us = Field('micro', JR.L(r'\d{6}'), 'digits', (p.den, 'microsecond'), fixed_len=6)
                out += [Lit('.'), us]
            exp['time'] = (h, m, s, us)
        elif isinstance(p, Field) and p.kind == 'tzname':
            # over-approximate the zone-name table by its lexical class (sound: a superset of the emitted names)
            out.append(Field(p.name, JR.L(r'[A-Z][A-Za-z0-9_+\-]*'), p.kind, p.den))
        else:
            out.append(p)
    return Shape(out), exp


def same_value(kind, orig, parts, res, exp, w):
    """decoded value == original value (kind and payload)"""
    C = JR.Conv
    if kind == 'none':
        return res is None
    if kind in ('marker', 'na', 'remove'):
        return res is orig
    if kind in ('bool_t', 'bool_f'):
        return res is orig
    if kind in ('num_finite', 'num_int'):
        return isinstance(res, C) and res.what == 'float' and len(res.args[0].parts) == 1 and isinstance(res.args[0].parts[0], Field) \
            and res.args[0].parts[0].kind == 'fmt6' and str(res.args[0].parts[0].den) == str(parts['v'])
    if kind in ('num_inf', 'num_ninf', 'num_nan'):
        return isinstance(res, float) and repr(res) == {'num_inf': 'inf', 'num_ninf': '-inf', 'num_nan': 'nan'}[kind]
    if kind in ('qty_nounit', 'qty_emptyunit'):
        # a Quantity without unit is written as a bare number and read back as the number (the same Haystack value)
        return isinstance(res, C) and res.what == 'float' and str(res.args[0].parts[0].den) == str(parts['value'])
    if kind == 'qty':
        return isinstance(res, SObj) and res.cls.name == 'BasicQuantity' and isinstance(res.fields['value'], C) and \
            str(res.fields['value'].args[0].parts[0].den) == str(parts['value']) and JR.same_shape(res.fields['unit'], Shape([parts['unit']]))
    if kind == 'str':
        return isinstance(res, Shape) and not isinstance(res, HV.TaggedShape) and JR.same_shape(res, Shape([parts['text']]))
    if kind in ('uri', 'bin'):
        return isinstance(res, HV.TaggedShape) and res.pycls == orig.pycls and JR.same_shape(Shape(res.parts), Shape([parts['text']]))
    if kind in ('ref0', 'ref1'):
        ok = isinstance(res, SObj) and res.cls.name == 'Ref' and JR.same_shape(res.fields['name'], Shape([parts['name']]))
        if kind == 'ref0':
            return ok and res.fields['value'] is None and res.fields['has_value'] is False
        return ok and res.fields['has_value'] is True and JR.same_shape(res.fields['value'], Shape([parts['dis']]))
    if kind == 'date':
        y, m, d = exp['date']
        return res == C('date', C('int', Shape([y])), C('int', Shape([m])), C('int', Shape([d])))
    if kind == 'time':
        h, m, s, us = exp['time']
        return res == C('time', C('int', Shape([h])), C('int', Shape([m])), C('int', Shape([s])), C('int', Shape([us])) if us is not None else 0)
    if kind == 'datetime':
        # iso8601.parse_date(isoformat(dt)).astimezone(timezone(timezone_name(dt))): same instant/offset/zone by C17's lemma
        if not (isinstance(res, C) and res.what == 'astimezone'):
            return False
        iso, tz = res.args
        return isinstance(iso, Shape) and len(iso.parts) == 1 and iso.parts[0].kind == 'iso_datetime' and str(iso.parts[0].den) == str(parts['v']) \
            and tz == C('tz', tz.args[0]) and isinstance(tz.args[0], Shape) and tz.args[0].parts[0].kind == 'tzname' and str(tz.args[0].parts[0].den) == str(parts['v'])
    if kind == 'coord':
        def f6(c, t):
            return isinstance(c, C) and c.what == 'float' and c.args[0].parts[0].kind == 'fmt6' and str(c.args[0].parts[0].den) == str(t)
        return isinstance(res, SObj) and res.cls.name == 'Coordinate' and f6(res.fields['latitude'], parts['lat']) and f6(res.fields['longitude'], parts['lng'])
    if kind.startswith('xstr'):
        if not (isinstance(res, SObj) and res.cls.name == 'XStr'):
            return False
        enc, data = res.fields['encoding'], res.fields['data']
        if kind == 'xstr_other':
            return JR.same_shape(enc, Shape([parts['enc']])) and JR.same_shape(data, Shape([parts['data']]))
        e = kind[5:]
        return isinstance(enc, Shape) and enc.concrete() == e and isinstance(data, Shape) and len(data.parts) == 1 and data.parts[0].kind == e \
            and str(data.parts[0].den) == str(parts['data'])
    return False


def t_roundtrip(T, tier, ver, kind):
    ver3 = ver == '3.0'
    w, plug = JR.world()
    w.contracts['hszinc.datatypes.XStr.data_to_string'] = HV.xstr_data_to_string_contract
    w.contracts['hszinc.zoneinfo.timezone_name'] = HV.timezone_name_contract
    base_isinst = w.hooks['isinstance']

    def isinst(it, v, cls):
        from hv.vc.values import ClassRef
        if isinstance(v, SObj) and isinstance(cls, ClassRef) and cls.name == 'Quantity':
            return v.cls.name in ('BasicQuantity', 'Qty', 'PintQuantity')
        return base_isinst(it, v, cls)
    w.hooks['isinstance'] = isinst
    st = {}

    def run(it):
        for ax in KD.axioms():
            it.ctx.assume(ax)
        v, parts = HV.mk_wvalue(it, w, kind)
        version = w.global_lookup(it, extract.module('hszinc.version'), 'VER_3_0' if ver3 else 'VER_2_0')
        it.phase = 'dump'
        enc = it.call(w.function('hszinc.jsondumper', 'dump_scalar'), [v], {'version': version})
        it.phase = 'parse'
        exp = {}
        if isinstance(enc, str):
            enc = Shape([Lit(enc)])
        if isinstance(enc, Shape):
            enc, exp = refine_for_reader(it, enc)
        it.enc = enc
        label = 'parse(dump(%s))' % kind
        try:
            res = it.call(w.function('hszinc.jsonparser', 'parse_embedded_scalar'), [enc], {'version': version})
        except (Misaligned, SplitAmbiguous, JR.ConversionFails) as e:
            text = getattr(e, 'text', None) or getattr(e, 'witness', None)
            o = it.ctx.oblige(label + '/ensures.reader_decodes_every_emitted_text', z3.BoolVal(False))
            o.reason = str(e)[:300]
            o.witness = {'kind': 'json_roundtrip', 'value_kind': kind, 'text': text if isinstance(text, str) else None, 'ver3': ver3}
            return
        ok = same_value(kind, v, parts, res, exp, w)
        o = it.ctx.oblige(label + '/ensures.same_kind_and_content', z3.BoolVal(bool(ok)))
        if not ok:
            member = it.ctx.notes[-1][2] if it.ctx.notes else (Lang.any_member(enc) if isinstance(enc, Shape) else None)
            o.reason = 'emitted %r, decoded %r' % (enc, res)
            o.witness = {'kind': 'json_roundtrip', 'value_kind': kind, 'text': member, 'ver3': ver3}

    def on_raise(it, e):
        allowed = getattr(it, 'phase', None) == 'dump' and e.cls == 'ValueError' and kind == 'datetime'       # no Haystack zone for this tz-aware value
        enc = getattr(it, 'enc', None)
        member = it.ctx.notes[-1][2] if it.ctx.notes else (Lang.any_member(enc) if isinstance(enc, Shape) else None)
        o = it.ctx.oblige('parse(dump(%s))/raises.none(%s in %s)' % (kind, e.cls, getattr(it, 'phase', '?')), z3.BoolVal(bool(allowed)), kind='raises')
        o.reason = 'raises %s%r' % (e.cls, tuple(str(a)[:60] for a in e.args_))
        o.witness = {'kind': 'json_roundtrip', 'value_kind': kind, 'text': member, 'ver3': ver3}
    T.explore(w, run, '%s/ver=%s' % (kind, ver), allow_raise=on_raise)


# ------------------------------------------------------------------ grid assembly on the reader side
def _deepcopy(it, args, kw):
    """A-bi-copy: a structurally equal fresh copy of containers; leaves (strings, numbers) are immutable and shared"""
    def cp(x):
        if isinstance(x, dict):
            d = LazyDict()
            for k, v in x.items():
                d[k] = cp(v)
            return d
        if isinstance(x, list):
            return [cp(v) for v in x]
        return x
    return cp(args[0])


def _snapshot(x):
    if isinstance(x, dict):
        return ('dict', tuple((k, _snapshot(v)) for k, v in x.items()))
    if isinstance(x, list):
        return ('list', tuple(_snapshot(v) for v in x))
    return ('leaf', id(x))


def grid_task(T, tier, core=False):
    mod = 'hszinc.jsonparser'
    for variant in ('full', 'rows_missing', 'rows_null', 'row_omits_column'):
        if variant != 'full' and not core:
            continue
        w = World()
        HV.install(w)
        w.contracts[mod + '.parse_embedded_scalar'] = lambda it, args, kw: ('DEC', args[0], kw.get('version'))
        w.contracts['hszinc.grid.Grid._detect_or_validate'] = lambda it, a, k: None
        w.global_overrides[(mod, 'copy')] = World.Namespace('copy', {'deepcopy': Builtin('copy.deepcopy', _deepcopy)})
        w.under_verification = mod + '.parse_grid'

        def run(it, variant=variant):
            vs = [SVal(it.ctx.fresh('x%d' % i, smt.VAL)) for i in range(7)]
            doc = {'meta': {'ver': '3.0', 'm1': vs[0], 'm2': vs[1]},
                   'cols': [{'name': 'c1', 'u': vs[2]}, {'name': 'c2'}]}
            if variant in ('full', 'row_omits_column'):
                doc['rows'] = [{'c1': vs[3], 'c2': vs[4]}, ({'c1': vs[5]} if variant == 'row_omits_column' else {'c1': vs[5], 'c2': vs[6]})]
            elif variant == 'rows_null':
                doc['rows'] = None
            before = _snapshot(doc)
            it.ctx.witness_fn = lambda model: {'kind': 'json_grid', 'variant': variant}
            g = it.call(w.function(mod, 'parse_grid'), [doc])
            it.ctx.oblige('parse_grid/frame.input_object_never_modified', z3.BoolVal(_snapshot(doc) == before))
            ok = isinstance(g, SObj) and g.cls.name == 'Grid'
            it.ctx.oblige('parse_grid/ensures.returns_grid', z3.BoolVal(ok))
            if not ok:
                return
            gver = g.fields['_version']
            it.ctx.oblige('parse_grid/ensures.version_from_meta', z3.BoolVal(isinstance(gver, SObj) and gver.fields.get('version_nums') == (3, 0) and g.fields['_version_given'] is True))

            class AnyVer(object):       # the version handed to the scalar decoder: a Version equal to the grid's
                def __eq__(self, o):
                    return isinstance(o, SObj) and o.fields.get('version_nums') == (3, 0) and o.fields.get('version_extra') is None
            ver = AnyVer()
            md = g.fields['metadata']
            mv = md.fields['_values']
            it.ctx.oblige('parse_grid/ensures.metadata_in_order_without_ver',
                          z3.BoolVal(list(md.fields['_order']) == ['m1', 'm2'] and mv['m1'] == ('DEC', vs[0], ver) and mv['m2'] == ('DEC', vs[1], ver)))
            col = g.fields['column']
            cv = col.fields['_values']
            okc = list(col.fields['_order']) == ['c1', 'c2'] and dict(cv['c1']) == {'u': ('DEC', vs[2], ver)} and dict(cv['c2']) == {}
            it.ctx.oblige('parse_grid/ensures.columns_in_order_with_metadata', z3.BoolVal(bool(okc)))
            rows = g.fields['_row']
            if variant in ('rows_missing', 'rows_null'):
                it.ctx.oblige('parse_grid/ensures.no_rows', z3.BoolVal(list(rows) == []))
            else:
                want2 = {'c1': ('DEC', vs[5], ver)} if variant == 'row_omits_column' else {'c1': ('DEC', vs[5], ver), 'c2': ('DEC', vs[6], ver)}
                okr = len(rows) == 2 and dict(rows[0]) == {'c1': ('DEC', vs[3], ver), 'c2': ('DEC', vs[4], ver)} and dict(rows[1]) == want2
                it.ctx.oblige('parse_grid/ensures.rows_in_order_cells_by_column', z3.BoolVal(bool(okr)))
        T.explore(w, run, 'parse_grid/%s' % variant)


def t_grid(T, tier):
    grid_task(T, tier, core=True)


def _merge(items):
    out = []
    for x in items:
        if isinstance(x, str) and out and isinstance(out[-1], str):
            out[-1] += x
        elif isinstance(x, str) and x == '':
            continue
        else:
            out.append(x)
    return out


# ------------------------------------------------------------------ parser.parse / dumper.dump shaping
def t_framing(T, tier):
    pmod, dmod = 'hszinc.parser', 'hszinc.dumper'
    for variant in ('single_dict', 'list_of_dicts', 'text', 'bytes', 'empty_list'):
        for single in (True, False):
            w = World()
            HV.install(w)
            w.contracts[pmod + '.parse_grid'] = lambda it, args, kw: ('GRID', args[0], kw.get('mode'))
            w.global_overrides[(pmod, 'json')] = World.Namespace('json', {'loads': Builtin('json.loads', lambda it, a, k: a[0].payload if hasattr(a[0], 'payload') else (_ for _ in ()).throw(OutOfSubset('json.loads')))})
            w.under_verification = pmod + '.parse'

            class Text(object):
                def __init__(self, payload):
                    self.payload = payload
            base_isinst = w.hooks['isinstance']

            def isinst(it, v, cls, Text=Text):
                name = getattr(cls, 'name', None)
                if isinstance(v, Text):
                    return name in ('str', 'object')
                return base_isinst(it, v, cls)
            w.hooks['isinstance'] = isinst

            def run(it, variant=variant, single=single, Text=Text):
                d1, d2 = {'meta': {'ver': '3.0'}, 'cols': [], 'rows': []}, {'meta': {'ver': '2.0'}, 'cols': [], 'rows': []}
                if variant == 'single_dict':
                    inp, docs = d1, [d1]
                elif variant == 'list_of_dicts':
                    inp, docs = [d1, d2], [d1, d2]
                elif variant == 'empty_list':
                    inp, docs = [], []
                else:
                    inp, docs = Text([d1, d2]), [d1, d2]       # A-bi-json: json.loads(text) yields the document the text spells
                it.ctx.witness_fn = lambda model: {'kind': 'framing', 'variant': variant, 'single': single}
                if variant == 'bytes':
                    return      # bytes.decode(charset) then the text path: covered by the text case (A-bi-decode)
                r = it.call(w.function(pmod, 'parse'), [inp], {'mode': 'application/json', 'single': single})
                want = [('GRID', d, 'application/json') for d in docs]
                if single:
                    it.ctx.oblige('parse/ensures.single_gives_first_or_None', z3.BoolVal(r == (want[0] if want else None)))
                else:
                    it.ctx.oblige('parse/ensures.list_of_all_grids_in_order', z3.BoolVal(r == want))
            T.explore(w, run, 'parse/%s/single=%d' % (variant, single))
    # dumper.dump: one grid -> its JSON text; a list -> '[' + ','.join(...) + ']'
    w = World()
    plug = HV.install(w)
    w.contracts[dmod + '.dump_grid'] = lambda it, args, kw: Shape([Field('doc%d' % id(args[0]), A.sigma_star(), 'json_doc' if kw.get('mode') == 'application/json' else 'zinc_doc', args[0])])

    def isinst2(it, v, cls):
        name = getattr(cls, 'name', None)
        if isinstance(v, SObj):
            return name == v.cls.name
        return NotImplemented
    w.hooks['isinstance'] = isinst2

    def run2(it):
        gcls = w.class_ref(extract.module('hszinc.grid'), 'Grid')
        gs = [SObj(gcls, {}) for _ in range(3)]
        for mode, mname in (('application/json', 'json'), ('text/zinc', 'zinc')):
            r1 = it.call(w.function(dmod, 'dump'), [gs[0]], {'mode': mode})
            it.ctx.oblige('dump/%s/ensures.single_grid_is_its_document' % mname, z3.BoolVal(isinstance(r1, Shape) and len(r1.parts) == 1 and r1.parts[0].den is gs[0]))
            # a LIST of n grids, for n = 0, 1, 2, 3 (the join is uniform): JSON array / ZINC documents separated by a blank line
            for n in (0, 1, 2, 3):
                r = it.call(w.function(dmod, 'dump'), [list(gs[:n])], {'mode': mode})
                if isinstance(r, str):
                    r = Shape([Lit(r)])
                got = [p.text if isinstance(p, Lit) else p.den for p in r.parts] if isinstance(r, Shape) else None
                if mname == 'json':
                    want = ['['] + [x for i, g in enumerate(gs[:n]) for x in ([','] if i else []) + [g]] + [']']
                    if n == 0:
                        want = ['[]']
                else:
                    want = [x for i, g in enumerate(gs[:n]) for x in (['\n'] if i else []) + [g]]
                ok = got is not None and _merge(got) == _merge(want)
                o = it.ctx.oblige('dump/%s/ensures.list_of_%d_grids_is_%s' % (mname, n, 'a_json_array_in_order' if mname == 'json' else 'the_documents_joined_by_a_line_end'), z3.BoolVal(bool(ok)))
                if not ok:
                    o.reason = 'got %r' % (got,)
                    o.witness = {'kind': 'framing', 'variant': 'dump_list_%d' % n, 'single': False}
    T.explore(w, run2, 'dump')
