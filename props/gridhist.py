"""Lock-step histories of the real Grid against a plain list + scan-based lookup model (C14, C15 bounded stand-in / replay)."""
import copy
import itertools
import random


def mk_ids():
    from hszinc.datatypes import Ref
    return {'s1': 'a', 's2': 'b', 'n1': 7, 'r1': Ref('a'), 'r2': Ref('z', 'dis')}


def mk_row(spec, tag):
    ids = mk_ids()
    r = {'t': tag}
    if spec is not None:
        r['id'] = ids[spec]
    return r


class Model(object):
    def __init__(self):
        self.rows = []

    def lookup(self, key):
        hits = [r for r in self.rows if 'id' in r and str(r['id']) == str(key)]
        return hits


def snapshot(g):
    return ([id(r) for r in g._row], str(g.version), list(g.metadata.items()), list(g.column.keys()))


def check_lookup(g, m, keys):
    for key in keys:
        hits = m.lookup(key)
        try:
            got = g[key]
            if not any(got is h for h in hits):
                return 'grid[%r] returned %r but the current rows with that id are %r' % (key, got, hits)
        except KeyError:
            if hits:
                return 'grid[%r] raised KeyError but a current row has that id: %r' % (key, hits)
        except Exception as e:
            return 'grid[%r] raised internal error %r' % (key, e)
        try:
            got = g.get(key, 'DEFAULT')
        except Exception as e:
            return 'grid.get(%r) raised internal error %r' % (key, e)
        if hits:
            if not any(got is h for h in hits):
                return 'grid.get(%r) returned %r, current rows with that id: %r' % (key, got, hits)
        elif got != 'DEFAULT':
            return 'grid.get(%r) returned %r but no current row has that id' % (key, got)
    return None


def check_list(g, m):
    if len(g) != len(m.rows):
        return 'len %d vs model %d' % (len(g), len(m.rows))
    if [id(r) for r in g] != [id(r) for r in m.rows]:
        return 'iteration order differs from the list model'
    for i in range(-len(m.rows) - 1, len(m.rows) + 1):
        try:
            a = ('ok', id(g[i]))
        except IndexError:
            a = ('exc',)
        try:
            b = ('ok', id(m.rows[i]))
        except IndexError:
            b = ('exc',)
        if a != b:
            return 'g[%d] -> %r, list -> %r' % (i, a, b)
    for (lo, hi) in ((0, 2), (1, None), (-2, None), (None, -1), (2, 1)):
        s = g[lo:hi]
        if type(s) is not type(g):
            return 'slice is not a Grid'
        if [id(r) for r in s] != [id(r) for r in m.rows[lo:hi]]:
            return 'g[%r:%r] differs from the list slice' % (lo, hi)
        if str(s.version) != str(g.version) or list(s.metadata.items()) != list(g.metadata.items()) or list(s.column.keys()) != list(g.column.keys()):
            return 'slice does not carry version/metadata/columns'
    for r in m.rows[:3]:
        if r not in g:
            return 'membership: a current row is reported absent'
    if {'t': 'nope'} in g:
        return 'membership: an absent row is reported present'
    return None


def apply_op(g, m, op, counter):
    """returns failure text or None. op: dict(op=..., ...)"""
    k = op['op']
    before = snapshot(g)
    rows_before = list(m.rows)

    def newrow(spec):
        counter[0] += 1
        return mk_row(spec, counter[0])
    got = want = None
    try:
        if k == 'append':
            r = newrow(op.get('id'))
            want = ('ok', m.rows.append(r))
            g.append(r)
        elif k == 'insert':
            r = newrow(op.get('id'))
            m.rows.insert(op['index'], r)
            want = ('ok', None)
            g.insert(op['index'], r)
        elif k == 'extend' or k == 'iadd':
            rs = [newrow(s) for s in op['ids']]
            m.rows.extend(rs)
            want = ('ok', None)
            if k == 'extend':
                g.extend(rs)
            else:
                g += rs
        elif k == 'setitem_equal_copy':
            # a row that compares equal to the one in place but is another object (holding True where the old one may hold 1): a list stores it
            try:
                old = m.rows[op['index']]
                r = dict((kk, (True if (vv == 1 and not isinstance(vv, bool)) else vv)) for kk, vv in old.items())
                m.rows[op['index']] = r
                want = ('ok', None)
            except IndexError:
                r = {'n': 1}
                want = ('exc', 'IndexError')
            g[op['index']] = r
        elif k == 'setitem':
            r = newrow(op.get('id'))
            try:
                m.rows[op['index']] = r
                want = ('ok', None)
            except IndexError:
                want = ('exc', 'IndexError')
            g[op['index']] = r
        elif k == 'delitem':
            try:
                del m.rows[op['index']]
                want = ('ok', None)
            except IndexError:
                want = ('exc', 'IndexError')
            del g[op['index']]
        elif k == 'delslice':
            del m.rows[op['lo']:op['hi']]
            want = ('ok', None)
            del g[op['lo']:op['hi']]
        elif k == 'pop':
            try:
                want = ('ok', id(m.rows.pop(op.get('index', -1))))
            except IndexError:
                want = ('exc', 'IndexError')
            got = ('ok', id(g.pop(op.get('index', -1))))
        elif k == 'remove':
            tgt = m.rows[op['which']] if -len(m.rows) <= op['which'] < len(m.rows) else {'t': 'absent'}
            try:
                m.rows.remove(tgt)
                want = ('ok', None)
            except ValueError:
                want = ('exc', 'ValueError')
            g.remove(tgt)
        elif k == 'reverse':
            m.rows.reverse()
            want = ('ok', None)
            g.reverse()
        elif k == 'clear':
            m.rows.clear()
            want = ('ok', None)
            g.clear()
        elif k in ('append_na', 'insert_na', 'setitem_na'):
            from hszinc.datatypes import NA
            counter[0] += 1
            r = {'t': counter[0], 'v': NA, 'w': [1, 2]}
            refused = (g._version_given and str(g.version) == '2.0')
            idx = op.get('index', 0)
            if refused:
                want = ('exc', 'ValueError')
                if k == 'setitem_na' and not (-len(m.rows) <= idx < len(m.rows)):
                    want = ('exc', 'IndexError')
            elif k == 'append_na':
                m.rows.append(r)
                want = ('ok', None)
            elif k == 'insert_na':
                m.rows.insert(idx, r)
                want = ('ok', None)
            else:
                try:
                    m.rows[idx] = r
                    want = ('ok', None)
                except IndexError:
                    want = ('exc', 'IndexError')
            if k == 'append_na':
                g.append(r)
            elif k == 'insert_na':
                g.insert(idx, r)
            else:
                g[idx] = r
        elif k == 'bad_append':
            want = ('exc', 'TypeError')
            g.append(['not', 'a', 'dict'])
        elif k == 'bad_setitem':
            want = ('exc', 'TypeError')
            g[0] = 'x'
        elif k == 'bad_insert':
            want = ('exc', 'TypeError')
            g.insert(0, 42)
        elif k == 'lookup':
            return None
        else:
            return None
        if got is None:
            got = ('ok', None)
        if want[0] == 'ok' and want[1] is None:
            got = ('ok', None)
    except (IndexError, ValueError, TypeError) as e:
        got = ('exc', type(e).__name__)
    except Exception as e:
        return 'op %r raised internal error %r' % (op, e)
    if want is not None and got[0] != want[0]:
        m.rows = rows_before if want[0] == 'exc' else m.rows
        return 'op %r: grid %r, list model %r' % (op, got, want)
    if want is not None and got[0] == 'exc':
        if got[1] != want[1]:
            return 'op %r raised %s, list model raises %s' % (op, got[1], want[1])
        m.rows = rows_before
        if snapshot(g) != before:
            return 'refused op %r changed the grid: %r -> %r' % (op, before, snapshot(g))
    elif want is not None and want[1] is not None and got[1] != want[1]:
        return 'op %r returned a different row than the list model' % (op,)
    return None


def run_history(init_ids, ops, build_index, check='both', version=None):
    from hszinc import Grid
    g = Grid(version=version)
    g.column['id'] = {}
    g.column['t'] = {}
    m = Model()
    counter = [0]
    for s in init_ids:
        counter[0] += 1
        r = mk_row(s, counter[0])
        g._row.append(r)        # initial rows placed without going through the code under test
        m.rows.append(r)
    if build_index:
        g.reindex()
    from hszinc.datatypes import Ref
    ids = mk_ids()
    keys = [k for k in ids.values() if not isinstance(k, (int, float))] + ['zzz', '@a', '7', '@z', "@z 'dis'", Ref('z'), Ref('z', 'other name')]      # non-numeric keys only; string forms of the ids incl. a reference's display name
    for i, op in enumerate(ops):
        f = apply_op(g, m, op, counter)
        if f:
            return i, f
        if check in ('both', 'list'):
            f = check_list(g, m)
            if f:
                return i, 'after %r: %s' % (op, f)
        if check in ('both', 'index'):
            f = check_lookup(g, m, keys)
            if f:
                return i, 'after %r: %s' % (op, f)
            # derived grids
            s = g[0:2]
            ms = Model()
            ms.rows = m.rows[0:2]
            f = check_lookup(s, ms, keys)
            if f:
                return i, 'sliced grid after %r: %s' % (op, f)
            # a grid and its full copy are two grids: a row put into one is not found through the other
            c = g[:]
            mc = Model()
            mc.rows = list(m.rows)
            extra = {'id': 'only-in-the-copy', 'n': -1}
            c.append(extra)
            mc.rows.append(extra)
            f = check_lookup(g, m, keys + ['only-in-the-copy']) or check_lookup(c, mc, keys + ['only-in-the-copy'])
            if f:
                return i, 'after %r, then appending a row to the full slice g[:]: %s' % (op, f)
    return None


def alphabet():
    ops = []
    for s in (None, 's1', 'n1', 'r1', 'r2'):
        ops.append({'op': 'append', 'id': s})
        for i in (0, 1, -1, 5):
            ops.append({'op': 'insert', 'index': i, 'id': s})
        for i in (0, -1, 3):
            ops.append({'op': 'setitem', 'index': i, 'id': s})
    for i in (0, -1):
        ops.append({'op': 'setitem_equal_copy', 'index': i})
    for i in (0, 1, -1, 4):
        ops.append({'op': 'delitem', 'index': i})
        ops.append({'op': 'pop', 'index': i})
    for lo, hi in ((0, 1), (1, 3), (0, 0), (-1, None), (None, None)):
        ops.append({'op': 'delslice', 'lo': lo, 'hi': hi})
    ops += [{'op': 'extend', 'ids': ['s1', None]}, {'op': 'extend', 'ids': []}, {'op': 'iadd', 'ids': ['r1']}, {'op': 'remove', 'which': 0},
            {'op': 'remove', 'which': 9}, {'op': 'append_na'}, {'op': 'insert_na', 'index': 1}, {'op': 'setitem_na', 'index': 0},
            {'op': 'setitem_na', 'index': 9}, {'op': 'reverse'}, {'op': 'clear'}, {'op': 'bad_append'}, {'op': 'bad_setitem'}, {'op': 'bad_insert'}]
    return ops


def bounded(tier, seed, check):
    alpha = alphabet()
    rnd = random.Random(seed)
    inits = [[], [None], ['s1', 's2'], ['r1', None, 'n1'], ['s1', 's1', 'r2']]
    failures, cases = [], 0
    depth = 2
    for init in inits:
        for bi in (False, True):
            for seq in itertools.product(alpha, repeat=depth):
                if tier == 'quick' and rnd.random() > 0.12:
                    continue
                cases += 1
                ver = rnd.choice([None, '2.0', '3.0'])
                r = run_history(init, [dict(o) for o in seq], bi, check, ver)
                if r and len(failures) < 8:
                    import hashlib
                    failures.append({'id': 'grid/history/' + hashlib.md5(repr((init, bi, seq)).encode()).hexdigest()[:10], 'what': r[1],
                                     'input': {'kind': 'history', 'init': init, 'build_index': bi, 'ops': list(seq)[:r[0] + 1], 'check': check, 'version': ver}})
    for _ in range(300 if tier == 'quick' else 6000):
        init = rnd.choice(inits)
        bi = rnd.random() < 0.5
        seq = [dict(rnd.choice(alpha)) for _ in range(rnd.randint(3, 10))]
        cases += 1
        ver = rnd.choice([None, '2.0', '3.0'])
        r = run_history(init, seq, bi, check, ver)
        if r and len(failures) < 8:
            failures.append({'id': 'grid/history/rnd%d' % cases, 'what': r[1],
                             'input': {'kind': 'history', 'init': init, 'build_index': bi, 'ops': seq[:r[0] + 1], 'check': check, 'version': ver}})
    return {'cases': cases, 'failures': failures,
            'bound': 'operation sequences of depth 2 (sampled in quick tier) over %d operations x rows with ids of kinds none/str/int/Ref from 5 initial grids, index built or not; random sequences of length 3..10' % len(alpha)}


def replay(inp, check):
    if inp['kind'] == 'history':
        r = run_history(inp['init'], inp['ops'], inp['build_index'], inp.get('check', check), inp.get('version'))
        return {'reproduced': bool(r), 'detail': r[1] if r else ''}
    if inp['kind'] == 'grid_index':
        # witness of a refuted obligation: rows with id names, one operation
        names = {}

        def spec(idn):
            if idn is None:
                return None
            if idn not in names:
                names[idn] = ['s1', 's2', 'n1', 'r2', 'r1'][len(names) % 5]
            return names[idn]
        init = [spec(r['id']) for r in inp['rows']]
        op = dict(inp['op'])
        k = op.get('op')
        conv = None
        if k in ('insert', 'setitem', 'append'):
            conv = {'op': k, 'index': op.get('index', 0), 'id': spec((op.get('value') or {}).get('id'))}
        elif k in ('delitem', 'pop'):
            conv = {'op': k, 'index': op.get('index', 0)}
        elif k == 'delslice':
            conv = {'op': k, 'lo': op.get('lo'), 'hi': op.get('hi')}
        elif k in ('extend', 'iadd'):
            conv = {'op': k, 'ids': [spec(v.get('id')) for kk, v in sorted(op.items()) if kk.startswith('value')]}
        elif k in ('__getitem__', 'get', 'reindex'):
            conv = {'op': 'lookup'}
        if conv is None:
            return {'reproduced': None, 'detail': 'cannot concretise operation %r' % (op,)}
        r = run_history(init, [conv], inp.get('index_built', False), check)
        return {'reproduced': bool(r), 'detail': r[1] if r else ''}
    return {'reproduced': None, 'detail': 'unknown replay kind'}
