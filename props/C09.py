"""C09 - malformed ZINC raises ZincParseException: never mis-parsed, never a crash (hszinc/zincparser.py)."""
import ast

import z3

from hv.vc import smt
from hv.vc.kit import Task
from hv.vc.world import World
from hv.vc.values import SObj, SVal, SInt, SKey, Closure, Builtin, AbstractCallable, PyExc, OutOfSubset, Sym, exc_isinstance
from hv.vc.shapes import Shape, Lit, Field
from hv.lang import automata as A, sre2nfa
from hv.lang.charset import CS
from hv.peg import marked as M, grammar as G
from hv.frontend import extract
from contracts import hvalues as HV, kinds as KD
from props import zincread as ZR, zincact as ZA, jsonread as JR, C01, C03
from spec import zinc_surface as ZS

HAS_CONCRETE = True
CONCRETE_TIMEOUT = {'quick': 900, 'thorough': 3000}
ZP = 'hszinc.zincparser'
TRUSTED_BASE = C01.TRUSTED_BASE + ['A-pp-exc (pyparsing raises ParseException with 0 <= loc <= len(text) when an element fails; IndexError inside an element or '
                                   'action becomes ParseException; any other exception of a parse action propagates unchanged)',
                                   'A-exc (strptime raises only ValueError; iso8601.parse_date only iso8601.ParseError, a ValueError; float()/int() only '
                                   'ValueError; bytearray.fromhex ValueError; base64.b64decode binascii.Error, a ValueError; astimezone OverflowError)']
ASSUMPTIONS = ['the two structural actions over a variable number of tokens (list -> asList, dict -> to_dict) are executed for 0..3 elements only (bounded)',
               'nesting depth at most 2 (quick) / 3 (thorough): deeper nesting exhausts the Python stack (RecursionError) - outside the property\'s quantifier',
               'the structural actions of nested grids (_assign_ver, _gen_grid -> Grid / Version / SortableDict) raise only ValueError: by the contracts of C10/C14/C18, not re-proved here']
EXPLANATION = ('Termination: every repetition body of the extracted grammar is proved unable to succeed on the empty string and every recursive reference is '
               'proved to be preceded by a consumed character. Classification: the compiled semantics is a total function (each input either fails = '
               'ParseException or is consumed), the wrappers parse_grid / parse_scalar are executed by E1 over every outcome of the grammar call, every '
               'text-converting parse action is executed on the whole token language its node can produce and proved to raise only ValueError-family '
               'exceptions. Rejection: everything the reader accepts (scalars, grids, both versions) is proved to lie inside the reference grammar '
               'extended by an explicit list of harmless leniencies, none of which is a missing header, an unterminated / illegally escaped literal, an '
               'unbalanced bracket, an illegal tag name or a 3.0 construct under 2.0.')


def depth_of(tier):
    return 2 if tier != 'thorough' else 3


def task_names(tier):
    return ['engine', 'termination', 'reject/2.0', 'reject/3.0', 'only30', 'wrappers', 'init', 'actions/2.0', 'actions/3.0', 'unescape/str', 'unescape/uri', 'tokens', 'framing']


def _run_task(name, tier):
    parts = name.split('/')
    if parts[0] in ('engine', 'unescape', 'framing'):
        # framing: hszinc.parse hands EVERY grid of the document - in single mode too - to the grid parser (a broken second grid is a broken document)
        r = C03.run_task(name, tier)
        return r
    T = Task(name)
    globals()['t_' + parts[0]](T, tier, *parts[1:])
    r = T.result()
    r['units'] = r['units'] + getattr(T, 'extra_units', [])
    return r


def reader(depth):
    return C03.reader(depth)


# ------------------------------------------------------------------ termination
def t_termination(T, tier):
    d = depth_of(tier)
    rd = reader(d)
    comp, alg = rd.comp, rd.alg
    seen = set()
    n = 0
    for rname, root in rd.roots.items():
        for g in G.walk(root):
            if g.kind in ('star', 'plus') and g.uid not in seen:
                seen.add(g.uid)
                n += 1
                body = g.children[0]
                saved = comp.depth
                comp.depth = 1
                comp._tag_depth = 1
                try:
                    sem = comp.compile(body)
                    nul = alg.nullable(sem)
                    why = ''
                except G.OutOfGrammarSubset as e:
                    nul, why = True, str(e)
                finally:
                    comp.depth = saved
                ZR.oblige_fact(T, 'termination/repetition#%d(%s)/body_cannot_succeed_without_consuming' % (g.uid, body.name or body.kind), not nul, reason=why,
                               witness={'kind': 'raises'} if nul else None)
    ZR.oblige_fact(T, 'termination/cover.repetitions_found', n >= 8, kind='vacuity')
    # token patterns: a backtracking matcher answers in time polynomial in the text only if no loop of the pattern can read the same text along two
    # different paths (no exponential degree of ambiguity); otherwise an unterminated literal of n characters costs 2^n steps - "parsing terminates"
    pats = {}
    for rname, root in rd.roots.items():
        for g in G.walk(root):
            if g.kind == 'regex' and g.pattern not in pats:
                pats[g.pattern] = g
    for pat in sorted(pats):
        try:
            w_ = A.exponential_ambiguity(sre2nfa.body(pat))
            why = '' if w_ is None else w_[1]
        except Exception as e:
            w_, why = ('?',), 'pattern outside the regex subset: %s' % e
        ZR.oblige_fact(T, 'termination/pattern(%s)/no_loop_reads_the_same_text_along_two_paths(polynomial_backtracking)' % pat[:40], w_ is None, reason=why)
    ZR.oblige_fact(T, 'termination/cover.token_patterns_found', len(pats) >= 10, kind='vacuity')
    # recursion: in the abstract semantics (nested value = one abstract letter) no accepted word starts with a nested reference
    for rname in ('hs_scalar_3_0', 'hs_grid_3_0', 'hs_scalar_2_0', 'hs_grid_2_0'):
        sem = comp.compile_root(rd.roots[rname])
        S = alg.strip(sem.cons)
        first_abstract = [s for s in S.delta[S.start] if isinstance(s, int) and s >= comp.nclasses]
        ZR.oblige_fact(T, 'termination/%s/a_character_is_consumed_before_every_recursive_reference' % rname, not first_abstract)
    T.extra_units = rd.units()


# ------------------------------------------------------------------ what is accepted is well-formed (up to listed leniencies)
def t_reject(T, tier, ver):
    ver3 = ver == '3.0'
    d = depth_of(tier)
    nfas = [ZS.value(ver3, d, True), ZS.grid(ver3, d, True)]
    rd = ZR.Reader(d, extra_nfas=nfas + [sre2nfa.body(C01.FOLLOW)])
    alg, comp = rd.alg, rd.comp
    ws = sre2nfa.body(ZR.WS)
    acc = alg.strip(rd.to_end(rd.scalar(ver3, depth=d)).cons)
    ref = comp.lang(A.concat(ZS.value(ver3, d, True), ws))
    ZR.oblige_included(T, 'reject/%s/every_accepted_scalar_text_is_a_reference_value_or_a_listed_leniency' % ver, rd, acc, ref, witness_kind='zinc_accepts', extra={'ver3': ver3, 'what': 'scalar'})
    accg = alg.strip(rd.to_end(rd.grid(ver3, depth=d)).cons)
    refg = comp.lang(A.concat(ZS.grid(ver3, d, True), ws))
    ZR.oblige_included(T, 'reject/%s/every_accepted_grid_text_is_a_reference_grid_or_a_listed_leniency' % ver, rd, accg, refg, witness_kind='zinc_accepts', extra={'ver3': ver3, 'what': 'grid'})
    # the categories of the property, each as a language that must be disjoint from what is accepted
    broken = {
        'unterminated_string': r'(?s:"([^"\\]|\\.)*)',
        'unterminated_uri': r'(?s:`([^`\\]|\\.)*)',
        'illegal_escape_in_string': r'(?s:"([^"\\]|\\.)*\\[^bfnrt\\"$uU].*)',
        'unclosed_list': r'(?s:\[[^\]]*)', 'unclosed_dict': r'(?s:\{[^}]*)', 'unopened_list': r'(?s:[^\["`B]*\].*)', 'unclosed_grid': r'(?s:<<([^>]|>[^>])*)',
        'upper_case_tag_in_dict': r'(?s:\{ *[A-Z0-9_][a-zA-Z0-9_]* *\})',
    }
    for nm, p in broken.items():
        B = comp.lang(sre2nfa.body(p))
        I = alg._intersect(acc, B)
        e, w = alg.is_empty(I)
        o = ZR.oblige_fact(T, 'reject/%s/no_accepted_scalar_is_%s' % (ver, nm), e, reason='' if e else 'accepts %r' % comp.text_of(w),
                           witness=None if e else {'kind': 'zinc_accepts', 'text': comp.text_of(w), 'ver3': ver3, 'what': 'scalar'})
    gb = {
        'missing_version_header': r'(?s:(?!ver:").*)' if False else None,
    }
    # header: every accepted grid text starts with ver:"..."
    head = comp.lang(sre2nfa.body(r'(?s:ver:"([^"\\\x00-\x1f]|\\.)*"[ \r\n].*)'))
    ZR.oblige_included(T, 'reject/%s/every_accepted_grid_starts_with_a_version_header' % ver, rd, accg, head, witness_kind='zinc_accepts', extra={'ver3': ver3, 'what': 'grid'})
    colbad = comp.lang(sre2nfa.body(r'(?s:ver:"[^"]*"[^\n]*\n[^a-z].*)'))
    I = alg._intersect(accg, colbad)
    e, w = alg.is_empty(I)
    ZR.oblige_fact(T, 'reject/%s/no_accepted_grid_has_a_first_column_name_not_starting_with_a_lower_case_letter' % ver, e, reason='' if e else 'accepts %r' % comp.text_of(w),
                   witness=None if e else {'kind': 'zinc_accepts', 'text': comp.text_of(w), 'ver3': ver3, 'what': 'grid'})
    T.extra_units = rd.units()


def t_only30(T, tier):
    """3.0-only constructs are rejected under ver 2.0"""
    rd = reader(depth_of(tier))
    alg, comp = rd.alg, rd.comp
    acc2 = alg.strip(rd.to_end(rd.scalar(False, depth=1)).cons)
    only30 = {'NA': r'NA', 'list': r'(?s:\[.*)', 'dict': r'(?s:\{.*)', 'nested_grid': r'(?s:<<.*)', 'xstr': r'(?s:(X|Hex|hex|b64|Note|A)[A-Za-z0-9_]*\(".*)'}
    for nm, p in only30.items():
        B = comp.lang(A.concat(sre2nfa.body(p), sre2nfa.body(ZR.WS)))
        I = alg._intersect(acc2, B)
        e, w = alg.is_empty(I)
        ZR.oblige_fact(T, 'only30/ver2_rejects_%s' % nm, e, reason='' if e else 'accepts %r' % comp.text_of(w),
                       witness=None if e else {'kind': 'zinc_accepts', 'text': comp.text_of(w), 'ver3': False, 'what': 'scalar'})
    # and inside grids: a ver 2.0 grid never accepts them in a cell
    accg = alg.strip(rd.to_end(rd.grid(False, depth=1)).cons)
    for nm, p in (('NA_cell', r'(?s:ver:"[^"]*"\n[a-z]+\nNA\n)'), ('list_cell', r'(?s:ver:"[^"]*"\n[a-z]+\n\[.*)'), ('dict_cell', r'(?s:ver:"[^"]*"\n[a-z]+\n\{.*)')):
        I = alg._intersect(accg, comp.lang(sre2nfa.body(p)))
        e, w = alg.is_empty(I)
        ZR.oblige_fact(T, 'only30/ver2_grid_rejects_%s' % nm, e, reason='' if e else 'accepts %r' % comp.text_of(w),
                       witness=None if e else {'kind': 'zinc_accepts', 'text': comp.text_of(w), 'ver3': False, 'what': 'grid'})
    T.extra_units = rd.units()


# ------------------------------------------------------------------ the two wrappers over every outcome of the grammar call
class Outcome(Sym):
    pass


def t_wrappers(T, tier):
    zm = extract.module(ZP)
    for fn in ('parse_grid', 'parse_scalar'):
        src = ast.unparse(zm.functions[fn])
        ZR.oblige_fact(T, 'wrappers/%s/the_text_is_parsed_as_given(parseWithTabs: no tab expansion)' % fn, '.parseWithTabs()' in src)
        ZR.oblige_fact(T, 'wrappers/%s/the_whole_text_must_be_consumed(parseAll)' % fn, 'parseAll=True' in src or 'parseAll=parseAll' in src)
        for outcome in ('returns', 'ParseException', 'ValueError', 'KeyError', 'RuntimeError'):
            w = World()
            w.under_verification = ZP + '.' + fn

            def run(it, fn=fn, outcome=outcome):
                n = it.ctx.fresh('len_text', z3.IntSort())
                it.ctx.assume(n >= 0)
                lineno = it.ctx.fresh('pe_lineno', z3.IntSort())
                col = it.ctx.fresh('pe_col', z3.IntSort())
                nlines = it.ctx.fresh('number_of_lines', z3.IntSort())
                # A-pp-exc: a ParseException carries a location inside the text
                it.ctx.assume(z3.And(nlines >= 1, lineno >= 1, lineno <= nlines, col >= 1, col <= n + 1))
                it.loc = (lineno, col, nlines, n)
                text = SVal(z3.Const('grid_text', smt.VAL))

                class Parser(Sym):
                    pass

                it.cause = 'before_the_grammar_call'

                def parse_string(it2, a, k):
                    it2.cause = {'returns': 'none', 'ParseException': 'grammar_mismatch'}.get(outcome, 'exception_in_parse_action')
                    if outcome == 'returns':
                        return [SVal(z3.Const('parsed_grid', smt.VAL))]
                    if outcome == 'ParseException':
                        e = PyExc('pp.ParseException', ('Expected ...',))
                        e.attrs = {'lineno': SInt(lineno), 'col': SInt(col)}
                        raise e
                    raise PyExc(outcome, ('from a parse action',))
                parser = Parser()

                def ga(it2, obj, name):
                    if isinstance(obj, Parser):
                        if name == 'parseWithTabs':
                            return Builtin('parseWithTabs', lambda it3, a, k: obj)
                        if name == 'parseString':
                            return Builtin('parseString', parse_string)
                    return base_ga(it2, obj, name) if base_ga else NotImplemented
                base_ga = w.hooks.get('val_getattr')
                w.hooks['val_getattr'] = ga

                class Table(Sym):
                    pass
                tbl = Table()
                base_gi = w.hooks.get('val_getitem')
                w.hooks['val_getitem'] = lambda it2, obj, key: parser if isinstance(obj, Table) else base_gi(it2, obj, key)
                w.global_overrides[(ZP, 'hs_grid')] = tbl
                w.global_overrides[(ZP, 'hs_scalar')] = tbl
                w.global_overrides[(ZP, 'reformat_exception')] = Builtin('reformat_exception', lambda it2, a, k: '<message>')
                noop = Builtin('noop', lambda it2, a, k: None)
                w.global_overrides[(ZP, 'LOG')] = World.Namespace('LOG', {'debug': noop, 'exception': noop, 'info': noop, 'warning': noop})

                class Match(Sym):
                    pass

                class Rx(Sym):
                    def __init__(self, kind):
                        self.kind = kind

                def ga2(it2, obj, name):
                    if isinstance(obj, Rx) and name == 'match':
                        def m(it3, a, k):
                            if it3.ctx.branch(it3.ctx.fresh('version_header_present', z3.BoolSort())):
                                return Match()
                            it3.cause = 'no_version_header'
                            return None
                        return Builtin('match', m)
                    if isinstance(obj, Rx) and name == 'split':
                        return Builtin('split', lambda it3, a, k: ['<first line>'])
                    if isinstance(obj, Match) and name == 'group':
                        return Builtin('group', lambda it3, a, k: SVal(z3.Const('version_text', smt.VAL)))
                    return ga(it2, obj, name)
                w.hooks['val_getattr'] = ga2
                w.hooks['truth'] = lambda it2, v: True
                w.global_overrides[(ZP, 'VERSION_RE')] = Rx('version')
                w.global_overrides[(ZP, 'NEWLINE_RE')] = Rx('newline')
                # Version(text): either a version or ValueError (C18)
                def version_ctor(it2, cls, a, k):
                    if it2.ctx.branch(it2.ctx.fresh('version_string_invalid', z3.BoolSort())):
                        it2.cause = 'invalid_version_string'
                        it2.raise_('ValueError', 'Not a valid version string')
                    return SVal(z3.Const('version', smt.VAL))
                w.class_ctor['Version'] = version_ctor
                f = w.function(ZP, fn)
                if fn == 'parse_grid':
                    r = it.call(f, [text])
                else:
                    r = it.call(f, [text, SVal(z3.Const('version', smt.VAL))])
                it.ctx.oblige('%s/ensures.returns_only_when_the_grammar_accepted' % fn, z3.BoolVal(outcome == 'returns'))

            def on_raise(it, e, fn=fn, outcome=outcome):
                if fn == 'parse_grid':
                    it.ctx.oblige('parse_grid/raises.only_ZincParseException(%s after %s)' % (e.cls, outcome), z3.BoolVal(e.cls == 'ZincParseException'), kind='raises')
                    if e.cls == 'ZincParseException' and len(e.args_) == 4:
                        line, col = e.args_[2], e.args_[3]
                        lineno, c0, nlines, n = it.loc
                        lt = it.as_term(line) if not isinstance(line, int) else z3.IntVal(line)
                        ct = it.as_term(col) if not isinstance(col, int) else z3.IntVal(col)
                        o = it.ctx.oblige('parse_grid/raises.line_and_column_lie_within_the_text(%s)' % getattr(it, 'cause', '?'),
                                          z3.And(lt >= 1, lt <= nlines, ct >= 1, ct <= n + 1), kind='raises')
                        o.witness = {'kind': 'line0', 'cause': getattr(it, 'cause', '?')}
                else:
                    fam = e.cls == 'ZincParseException' or exc_isinstance(e.cls, 'ValueError')
                    # parse_scalar re-raises what a parse action raised: ValueError-family is shown per action (task "actions")
                    it.ctx.oblige('parse_scalar/raises.ParseException_becomes_ZincParseException_others_pass_unchanged(%s after %s)' % (e.cls, outcome),
                                  z3.BoolVal((outcome == 'ParseException' and e.cls == 'ZincParseException') or (outcome != 'ParseException' and e.cls == outcome)), kind='raises')
            T.explore(w, run, 'wrappers/%s/%s' % (fn, outcome), allow_raise=on_raise)


def t_init(T, tier):
    """ZincParseException.__init__: the message decoration is wholly inside try/except; what is outside cannot raise"""
    zm = extract.module(ZP)
    ci = zm.classes['ZincParseException']
    node = ci.methods['__init__']
    body = [st for st in node.body if not (isinstance(st, ast.Expr) and isinstance(st.value, ast.Constant))]
    outside = [st for st in body if not isinstance(st, ast.Try)]
    tries = [st for st in body if isinstance(st, ast.Try)]
    ok_out = all((isinstance(st, ast.Assign) and all(isinstance(t, ast.Attribute) and isinstance(t.value, ast.Name) and t.value.id == 'self' for t in st.targets)
                  and isinstance(st.value, ast.Name)) or (isinstance(st, ast.Expr) and ast.unparse(st.value).startswith('super(')) for st in outside)
    ZR.oblige_fact(T, 'init/statements_outside_the_try_only_store_arguments_and_call_the_base_constructor', ok_out)
    ok_try = len(tries) == 1 and any(h.type is None or ast.unparse(h.type) in ('Exception', 'BaseException') for h in tries[0].handlers) \
        and not any(isinstance(x, ast.Raise) for h in tries[0].handlers for x in ast.walk(h))
    ZR.oblige_fact(T, 'init/message_decoration_is_guarded_by_a_catch_all_that_does_not_re-raise', ok_try)
    ZR.oblige_fact(T, 'init/ZincParseException_is_a_ValueError', 'ValueError' in ci.bases)
    w = World()
    w.note_unit(zm, 'ZincParseException.__init__', node)
    T.world = w


# ------------------------------------------------------------------ parse actions: only ValueError-family exceptions
FAMILY = 'ValueError'


def t_actions(T, tier, ver):
    """every text-converting parse action of the scalar grammar, executed on the whole language of tokens its node can produce"""
    ver3 = ver == '3.0'
    rd = reader(depth_of(tier))
    comp, alg = rd.comp, rd.alg
    root = rd.scalar_or(ver3)
    nodes = []
    seen = set()

    def visit(g):
        if g.uid in seen:
            return
        seen.add(g.uid)
        if g.kind == 'forward' and comp.target(g).uid in comp.nest:
            return
        for c in g.children:
            visit(c)
        if g.actions:
            nodes.append(g)
    visit(root)
    ZR.oblige_fact(T, 'actions/%s/cover.actions_found' % ver, len(nodes) >= 15, kind='vacuity')
    # per-character maps (''.join(f(t) for t in token)): total, proved once per action by executing f on one character per class
    per_char = {}
    w0, plug0 = action_world()

    def probe(it):
        for g in nodes:
            for act in g.actions:
                d = ZA.deleted_characters(it, w0, act)
                if d is not None:
                    per_char[act.qual] = d
    T.explore(w0, probe, 'actions/%s/per-character-maps' % ver)
    for q in sorted(per_char):
        ZR.oblige_fact(T, 'actions/%s/%s/per_character_map_is_total(never raises)' % (ver, q.split('.')[-1]), True)
    for g in nodes:
        for act in g.actions:
            w, plug = action_world()
            label = 'actions/%s/%s@node%d' % (ver, act.qual.split('.')[-1], g.uid)
            if act.qual in per_char:
                continue

            def run(it, g=g, act=act, label=label):
                for ax in KD.axioms():
                    it.ctx.assume(ax)
                ab = Abstract(rd, it, w)
                toks = ab.tokens_before_action(g, act)
                clo = Closure(act.node, None, extract.module(ZP), act.qual.split('.')[-1])
                w.note_unit(extract.module(ZP), act.qual.split(ZP + '.')[-1], act.node)
                it.call_closure(clo, [ZA.TokList(toks)], {}, inline=True)
                it.ctx.oblige(label + '/ensures.completes_or_raises_only_ValueError', z3.BoolVal(True))

            def on_raise(it, e, label=label):
                ok = exc_isinstance(e.cls, FAMILY)
                o = it.ctx.oblige(label + '/raises.only_ValueError_family(%s)' % e.cls, z3.BoolVal(bool(ok)), kind='raises')
                o.witness = {'kind': 'raises'}
            T.explore(w, run, label, allow_raise=on_raise)
    T.extra_units = rd.units()


def action_world():
    """E1 world for the parse actions with every library call allowed to fail the way the library can (A-exc)"""
    w, plug = JR.world()
    w.global_overrides[('hszinc.datatypes', 'PINT_AVAILABLE')] = False
    C = JR.Conv
    del w.class_ctor['XStr']

    def may(it, what, exc):
        if it.ctx.branch(it.ctx.fresh(what, z3.BoolSort())):
            it.raise_(exc, what)

    def strptime(it, a, k):
        may(it, 'strptime_rejects', 'ValueError')
        return C('strptime', a[0], a[1])
    w.global_overrides[(ZP, 'datetime')] = World.Namespace('datetime', {'datetime': World.Namespace('datetime.datetime', {'strptime': Builtin('strptime', strptime)})})

    def parse_date(it, a, k):
        # A-iso: parse_date(text, default_timezone=UTC): ParseError (a ValueError) or a date-time that is aware when the text
        # carries an offset or a default zone is given (the default is UTC; passing None makes offset-less stamps naive)
        may(it, 'iso8601_rejects', 'iso8601.ParseError')
        r = JR.ParsedDT(a[0])
        r.default_tz_none = ('default_timezone' in k and k['default_timezone'] is None) or (len(a) > 1 and a[1] is None)
        return r
    w.global_overrides[(ZP, 'iso8601')] = World.Namespace('iso8601', {'parse_date': Builtin('iso8601.parse_date', parse_date)})

    def tz_contract(it, a, k):
        may(it, 'unknown_zone', 'ValueError')
        return C('tz', a[0])
    w.contracts['hszinc.zoneinfo.timezone'] = tz_contract
    base_ga = w.hooks['val_getattr']

    def ga(it, obj, name):
        if isinstance(obj, C) and obj.what == 'strptime' and name in ('date', 'time'):
            return AbstractCallable(name, lambda it2, a, k: C('strptime.' + name, obj.args[0], obj.args[1]))
        if isinstance(obj, JR.ParsedDT) and name == 'tzinfo':
            if getattr(obj, 'default_tz_none', False) and it.ctx.branch(it.ctx.fresh('iso_text_without_offset', z3.BoolSort())):
                return None                   # naive: only possible when the default zone was switched off
            return C('tzinfo', obj.text)      # A-iso: aware (offset in the text, or the default zone UTC)
        if isinstance(obj, JR.ParsedDT) and name == 'astimezone':
            def astz(it2, a, k):
                may(it2, 'astimezone_overflows', 'OverflowError')
                return C('astimezone', obj.text, a[0])
            return AbstractCallable('astimezone', astz)
        if isinstance(obj, C) and obj.what == 'tz' and name in ('localise', 'localize'):
            def loc(it2, a, k):
                may(it2, 'localize_fails', 'AttributeError')
                return C('localized', a[0])
            return AbstractCallable(name, loc)
        if isinstance(obj, (ZA.CaseVariant, Shape)) and name == 'upper':
            return AbstractCallable('upper', lambda it2, a, k: C('upper', obj))
        return base_ga(it, obj, name)
    w.hooks['val_getattr'] = ga
    # float(): ValueError exactly when the text is not a float literal (decided on the language; forks)
    float_lang = sre2nfa.body(r'[+-]?(\d+(\.\d*)?|\.\d+)([eE][+-]?\d+)?')

    def conv_float(it, sh):
        ok, wit = A.included(JR._lang(sh), float_lang)
        if not ok:
            may(it, 'float_rejects', 'ValueError')
        return C('float', sh)
    plug.conversions[('float', '*')] = conv_float
    # XStr.__init__ (real code): bytearray.fromhex / base64.b64decode
    w.builtins['bytearray'] = World.Namespace('bytearray', {'fromhex': Builtin('fromhex', lambda it, a, k: (may(it, 'fromhex_rejects', 'ValueError'), SVal(z3.Const('bytes', smt.VAL)))[1])})
    w.global_overrides[('hszinc.datatypes', 'base64')] = World.Namespace('base64', {'b64decode': Builtin('b64decode', lambda it, a, k: (may(it, 'b64decode_rejects', 'binascii.Error'), SVal(z3.Const('bytes', smt.VAL)))[1])})

    def unescape_contract(it, args, kw):
        # tasks unescape/str, unescape/uri: total on (strChar)* / (uriChar)*, which is all the grammar can hand over (task "tokens")
        return Shape([Field('decoded', A.sigma_star(), 'text', 'decoded')])
    w.contracts[ZP + '._unescape'] = unescape_contract
    return w, plug


class Abstract(object):
    """abstract tokens of a node: the language of every text token is the language its node can consume (a superset is sound)"""

    def __init__(self, rd, it, w):
        self.rd, self.it, self.w = rd, it, w
        self.comp, self.alg = rd.comp, rd.alg

    def consumed_language(self, g):
        sem = self.comp.compile_depth(g, 0)
        C = self.alg.strip_keep_end(sem.cons)
        # words before END

        def succ(q):
            for s, t in C.delta[q].items():
                if s == M.END:
                    yield None, ('end',)
                elif q != ('end',):
                    yield s, t
        pre = M.build([C.start], lambda q: succ(q) if q != ('end',) else [], lambda q: q == ('end',))
        return self.comp.to_nfa(pre)

    def text(self, g, name):
        if g.kind == 'regex' and g.pattern == r'[a-z][a-zA-Z0-9_]*':
            # a tag name: a representative concrete name per occurrence, possibly repeating the first one (duplicates)
            self._ids = getattr(self, '_ids', 0) + 1
            if self._ids > 1 and self.it.ctx.branch(self.it.ctx.fresh('duplicate_tag_%d' % self._ids, z3.BoolSort())):
                return 'tag1'
            return 'tag%d' % self._ids
        n = self.consumed_language(g)
        # deletions below: delete the characters (superset of the per-leaf deletion)
        sh = Shape([Field(name, n, 'token', name)])
        dels = CS()
        for x in ZA._walk(g):
            for a in x.actions:
                if x is g:
                    continue
                d = ZA.deleted_characters(self.it, self.w, a)
                if d:
                    dels = dels | d
        if dels:
            r = ZA.delete_from_shape(sh, dels)
            sh = r if isinstance(r, Shape) else Shape([Lit(r)])
        c = sh.concrete()
        return c if c is not None else sh

    def tokens_before_action(self, g, act):
        toks = self.tokens(g, top=True)
        for a in g.actions:
            if a is act:
                break
            toks = self.apply(a, toks)
        return toks

    def apply(self, a, toks):
        if len(toks) == 1 and isinstance(toks[0], Shape):
            d = ZA.deleted_characters(self.it, self.w, a)
            if d is not None:
                r = ZA.delete_from_shape(toks[0], d)
                return [r]
        clo = Closure(a.node, None, extract.module(ZP), a.qual.split('.')[-1])
        tl = ZA.TokList(toks)
        r = self.it.call_closure(clo, [tl], {}, inline=True)
        if r is None or r is tl:
            return list(tl)
        return list(r) if isinstance(r, list) else [r]

    def tokens(self, g, top=False):
        """tokens of g after its own actions (top=True: before them)"""
        it = self.it
        k = g.kind
        if k in ('regex', 'lit', 'word1'):
            out = [self.text(g, 'tok%d' % g.uid)]
        elif k == 'caseless':
            out = [g.ret]
        elif k in ('empty', 'end'):
            out = []
        elif k == 'combine':
            out = [self.text(g, 'tok%d' % g.uid)]
        elif k == 'suppress':
            out = []
        elif k == 'and':
            out = []
            for c in g.children:
                out += self.tokens(c)
        elif k in ('or', 'first'):
            i = 0
            for i in range(len(g.children) - 1):
                if it.ctx.branch(it.ctx.fresh('alt%d_of_%d' % (i, g.uid), z3.BoolSort())):
                    break
            else:
                i = len(g.children) - 1
            out = self.tokens(g.children[i])
        elif k == 'opt':
            if it.ctx.branch(it.ctx.fresh('present_%d' % g.uid, z3.BoolSort())):
                out = self.tokens(g.children[0])
            else:
                out = []
        elif k in ('star', 'plus'):
            # structural repetitions (list elements, dict tags): 0..3 iterations - BOUNDED, see ASSUMPTIONS
            out = []
            lo = 1 if k == 'plus' else 0
            n = lo
            while n < 3 and it.ctx.branch(it.ctx.fresh('more_%d_%d' % (g.uid, n), z3.BoolSort())):
                n += 1
            for _ in range(n):
                out += self.tokens(g.children[0])
        elif k == 'group':
            out = [ZA.TokList(self.tokens(g.children[0]))]
        elif k == 'forward':
            if self.comp.target(g).uid in self.comp.nest:
                out = [SVal(it.ctx.fresh('nested_value', smt.VAL))]
            else:
                out = self.tokens(g.children[0])
        elif k == 'pass':
            out = self.tokens(g.children[0])
        else:
            raise OutOfSubset('abstract tokens of %s' % k)
        if not top:
            for a in g.actions:
                out = self.apply(a, out)
        return out


def t_tokens(T, tier):
    """what _unescape can be handed is exactly (strChar)* / (uriChar)* of the reference (so its step lemmas cover every call)"""
    rd = reader(depth_of(tier))
    comp = rd.comp
    zp = rd.zp
    for nm, pat in (('hs_strChar', ZS.STRCHAR), ('hs_uriChar', ZS.URICHAR)):
        g = rd.ex.node(getattr(zp, nm))
        ZR.oblige_fact(T, 'tokens/%s_is_a_single_regular_expression' % nm, g.kind == 'regex')
        if g.kind != 'regex':
            continue
        a, b = comp.lang(sre2nfa.body(g.pattern)), comp.lang(sre2nfa.body(pat))
        ZR.oblige_included(T, 'tokens/%s_language_within_the_reference_character_grammar' % nm, rd, a, b)
    T.extra_units = rd.units()



def run_task(name, tier):
    """a grammar construct outside the E3 subset is an undecided obligation of this task (never a crash, never a verdict)"""
    from hv.peg.grammar import OutOfGrammarSubset
    from hv.vc.symex import Obligation
    try:
        return _run_task(name, tier)
    except OutOfGrammarSubset as e:
        o = Obligation('grammar-in-subset', 'unknown', 'relang-peg', 0.0, 'oos', reason='outside the E3 grammar subset: %s' % e, kind='subset')
        return {'task': name, 'obligations': [o.to_json()], 'units': C01._guarded_units()}
