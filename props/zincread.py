"""Shared by C01 / C03 / C07 / C08 / C09: the ZINC reader (hszinc/zincparser.py) under E3.

The grammar objects are extracted from the imported real module (hv.peg.grammar), compiled into exact marked regular
languages unrolled to a nesting depth (hv.peg.sem / marked), and compared with reference languages.  An obligation
is one language inclusion, decided by product search; a refutation carries the shortest witness text, replayed on
the real parser."""
import hashlib
import time

from hv.vc.symex import Obligation
from hv.peg import grammar as G, sem as S, marked as M
from hv.lang import automata as A, sre2nfa
from hv.lang.charset import CS
from spec import zinc_surface as ZS

MOD = 'hszinc.zincparser'
ALT_NAMES = ['hs_ref', 'hs_bin', 'hs_xstr', 'hs_str', 'hs_uri', 'hs_dateTime', 'hs_date', 'hs_time', 'hs_coord', 'hs_number', 'hs_na', 'hs_null',
             'hs_marker', 'hs_remove', 'hs_bool', 'hs_quantity', 'hs_decimal']
WS = r'[ \t\n\r]*'


class Reader(object):
    def __init__(self, depth, extra_nfas=(), extra_sets=()):
        self.ex = G.Extractor(MOD)
        zp = self.ex.mod
        self.zp = zp
        self.depth = depth
        self.roots = {n: self.ex.node(getattr(zp, n)) for n in ['hs_scalar_2_0', 'hs_scalar_3_0', 'hs_grid_2_0', 'hs_grid_3_0']}
        nest = {self.roots['hs_scalar_2_0']: 0, self.roots['hs_scalar_3_0']: 0, self.roots['hs_grid_2_0']: 1, self.roots['hs_grid_3_0']: 1}
        sets = list(extra_sets)
        for n in list(extra_nfas) + [sre2nfa.body(WS)]:
            sets += n.labels()
        self.comp = S.Compiler(self.roots.values(), extra_sets=sets, nest=nest, abstract=2)
        self.alg = self.comp.alg
        self._fp = {}
        for n in ALT_NAMES:
            if hasattr(zp, n):
                self._fp['\n'.join(G.describe(self.ex.node(getattr(zp, n))))] = n
        for n, gm in (('hs_list', 'hs_list'), ('hs_dict', 'hs_dict'), ('hs_inner_grid', 'hs_inner_grid')):
            try:
                self._fp['\n'.join(G.describe(self.ex.node(getattr(zp, gm)[zp.VER_3_0])))] = n
            except Exception:
                pass

    # ---- naming the alternatives of the scalar Or
    def alt_name(self, g, i):
        n = self._fp.get('\n'.join(G.describe(g)))
        if n is None:
            pats = set()
            stack = [g]
            seen = set()
            while stack:
                x = stack.pop()
                if x.uid in seen or x.kind == 'forward':
                    continue
                seen.add(x.uid)
                if x.kind == 'regex':
                    pats.add(x.pattern)
                stack += x.children
            for p, nm in ((r'\[ *', 'hs_list'), (r'{ *', 'hs_dict'), (r'<< *', 'hs_inner_grid')):
                if p in pats:
                    n = nm
        return n or 'alt%d' % i

    def scalar_or(self, ver3):
        t = self.comp.target(self.roots['hs_scalar_3_0' if ver3 else 'hs_scalar_2_0'])
        assert t.kind == 'or', t
        return t

    def scalar_tags(self, ver3):
        o = self.scalar_or(ver3)
        tags = {o.uid: ['@' + self.alt_name(c, i) for i, c in enumerate(o.children)]}
        # sub-alternatives of hs_number
        for c in o.children:
            if self.alt_name(c, 0) == 'hs_number' and c.kind == 'or':
                tags[c.uid] = ['@' + n for n in ('quantity', 'decimal', 'special')][:len(c.children)]
        return tags

    def scalar(self, ver3, tagged=False, depth=None, marks=None):
        g = self.roots['hs_scalar_3_0' if ver3 else 'hs_scalar_2_0']
        return self.comp.compile_depth(g, self.depth if depth is None else depth, marks=marks, tags=self.scalar_tags(ver3) if tagged else None)

    def grid(self, ver3, depth=None, marks=None):
        g = self.roots['hs_grid_3_0' if ver3 else 'hs_grid_2_0']
        return self.comp.compile_depth(g, self.depth if depth is None else depth, marks=marks)

    def to_end(self, sem):
        """parseString(..., parseAll=True): the element, then (default whitespace skipped) the end of the text"""
        alg = self.alg
        return alg.seq(sem, alg.seq(alg.from_language(self.comp.lang(sre2nfa.body(WS))), alg.end_of_input()))

    def units(self):
        """evidence: the grammar objects under contract"""
        out = []
        for n, g in self.roots.items():
            out.append({'function': '%s.%s (pyparsing object graph)' % (MOD, n), 'file': 'hszinc/zincparser.py', 'lines': 'module level',
                        'ast_sha': G.fingerprint(g)})
        return out


def lang_fp(dfa):
    h = hashlib.sha256()
    for q, row in enumerate(dfa.delta):
        h.update(('%d:%s;' % (q, sorted((str(k), v) for k, v in row.items()))).encode())
    h.update(str(sorted(dfa.finals)).encode())
    return h.hexdigest()[:16]


def oblige_included(T, name, rd, X, Y, witness_kind=None, extra=None, kind='post'):
    """obligation L(X) subset of L(Y) over rd's alphabet (X, Y: marked.DFA)"""
    t0 = time.time()
    ok, w = rd.alg.included(X, Y)
    o = Obligation(name, 'proved' if ok else 'refuted', 'relang-peg', time.time() - t0, lang_fp(X) + lang_fp(Y), kind=kind)
    if not ok:
        text = rd.comp.text_of(w)
        o.reason = 'witness (marks shown as ‹m›): %s' % rd.comp.sample(w)[:300]
        o.model = {'text': text}
        if witness_kind:
            o.witness = dict({'kind': witness_kind, 'text': text}, **(extra or {}))
    T._add(o)
    return o


def oblige_fact(T, name, ok, reason='', kind='post', witness=None):
    o = Obligation(name, 'proved' if ok else 'refuted', 'relang-peg', 0.0, hashlib.sha256((name + str(ok)).encode()).hexdigest()[:16], reason=reason, kind=kind)
    o.witness = witness
    T._add(o)
    return o
