"""C01 - ZINC round trip: parse(dump(g)) is g (hszinc/zincdumper.py + hszinc/zincparser.py)."""
import ast

import z3

from hv.vc import smt
from hv.vc.kit import Task
from hv.vc.world import World
from hv.vc.symex import Obligation
from hv.vc.values import SObj, SVal, Closure, Builtin, AbstractCallable, PyExc, OutOfSubset
from hv.vc.shapes import Shape, Lit, Field, CharField, Lang, Misaligned, SplitAmbiguous
from hv.lang import automata as A, sre2nfa
from hv.lang.charset import CS
from hv.peg import marked as M
from hv.frontend import extract
from contracts import hvalues as HV, kinds as KD
from props import zincwrite as ZW, zincread as ZR, zincact as ZA, jsonread as JR
from props import C04 as W4
from spec import zinc_ref as ZREF

HAS_CONCRETE = True
CONCRETE_TIMEOUT = {'quick': 600, 'thorough': 3000}
ZP = 'hszinc.zincparser'
ZD = 'hszinc.zincdumper'
TRUSTED_BASE = ['A-py', 'A-pp (pyparsing element semantics as stated in hv/peg/sem.py; validated against the real parser on generated inputs by the '
                'bounded part)', 'A-re (CPython re: longest = priority match for deterministic / prefix-free token patterns, checked per pattern)',
                'A-fl (float(repr(x)) == x; float("%f" % x) within 5e-7; int/float total on the decimal languages)',
                'A-tz (strptime / isoformat / iso8601.parse_date are mutually inverse on the ISO languages; zone handling: C17)',
                'A-bi-base64', 'A-re-sub / A-str-replace (escaping pipeline is a per-character homomorphism: C04)',
                'R-ind-str (induction over the characters of a string for _unescape)', 'E2/E3 automata over U+0000..U+10FFFF']
ASSUMPTIONS = ['nesting depth of non-empty lists / dicts / grids at most the unrolling depth (2 quick, 3 thorough); widths and payloads unbounded',
               'a Quantity unit does not begin with "_" (the ZINC grammar itself reads "1_x" as the number 1 with digit separator: format ambiguity, not hszinc)',
               'an XStr whose type name is "Bin" is the Bin kind (ver 3.0 spells Bin as that XStr): not a distinct value',
               'grid-level assembly (_gen_grid, metadata, columns) is executed on a symbolic grid of fixed shape 2 columns x 2 rows']
EXPLANATION = ('The real writer is symbolically executed on a shape-typed value of every kind; the emitted shape is then parsed by the extracted '
               'pyparsing grammar under exact marked-language semantics: E3 proves, for every string of the shape and every legal continuation, which '
               'alternative wins and which sub-expression consumes which part; the real parse actions are executed by E1 on those tokens and the '
               'result is proved to be the original value. _unescape is proved to invert the escaping map character class by character class.')

FOLLOW = r'(?s:( +[a-z].*| *([,\n\r\]}>].*)?))'      # blanks, then a separator / line end / closer / the next tag name, or the end


def task_names(tier):
    names = ['engine', 'unescape/str', 'unescape/uri']
    for ver in ('2.0', '3.0'):
        for k in kinds_for(ver):
            names.append('roundtrip/%s/%s' % (ver, k))
    names += ['composite', 'grid/2.0', 'grid/3.0', 'zone/name', 'zone/roundtrip']
    return names


def kinds_for(ver):
    ks = [k for k in HV.WRITER_KINDS] + ['bin']
    if ver == '2.0':
        ks = [k for k in ks if k != 'na' and not k.startswith('xstr')]
    return ks


def _run_task(name, tier):
    if name.startswith('zone/'):
        # a date-time keeps its zone: the name written is the value's own zone whenever it is a mapped zone that has the value's offset at that
        # instant (repeated hours included), and the reader gives that zone back - the zone tasks of C17 are obligations of this property
        from props import C17
        r = C17.run_task(name.split('/', 1)[1], tier)
        r['task'] = name
        return r
    T = Task(name)
    parts = name.split('/')
    globals()['t_' + parts[0]](T, tier, *parts[1:])
    r = T.result()
    r['units'] = r['units'] + getattr(T, 'extra_units', [])
    return r


# ------------------------------------------------------------------ shared setup
_SETUP = {}


def setup(depth):
    if depth in _SETUP:
        return _SETUP[depth]
    E_str, E_uri = ZW.compute_E('dump_str'), ZW.compute_E('dump_uri')
    lang_s = A.star(A.union(*[A.concat(*[p.nfa() for p in ZW.strip_delims(sh.parts, '"', '"')]) if ZW.strip_delims(sh.parts, '"', '"') else A.epsilon() for _, sh, _, _ in E_str]))
    lang_u = A.star(A.union(*[A.concat(*[p.nfa() for p in ZW.strip_delims(sh.parts, '`', '`')]) if ZW.strip_delims(sh.parts, '`', '`') else A.epsilon() for _, sh, _, _ in E_uri]))
    nfas = [f() for f in HV.LANG.values()] + [HV.tzname_lang(), lang_s, lang_u, sre2nfa.body(FOLLOW)]
    rd = ZR.Reader(depth, extra_nfas=nfas)
    _SETUP[depth] = (rd, E_str, E_uri, lang_s, lang_u)
    return _SETUP[depth]


def reader_world(E_str, E_uri):
    """E1 world in which both the real writer and the real parse actions run"""
    w, plug = JR.world()
    w4 = W4.world(E_str, E_uri)
    for k in (ZD + '.dump_str', ZD + '.dump_uri', 'hszinc.datatypes.XStr.data_to_string', 'hszinc.zoneinfo.timezone_name'):
        w.contracts[k] = w4.contracts[k]
    by_contract = w.contracts[ZD + '.dump_str']

    def dump_str(it, args, kw):
        s = args[0]
        if isinstance(s, str) or (isinstance(s, Shape) and s.concrete() is not None):
            # a concrete text (the version string): the real function, executed
            f = w.function(ZD, 'dump_str')
            r = it.call_closure(f, [s if isinstance(s, str) else s.concrete()] + list(args[1:]), kw, inline=True)
            return r
        return by_contract(it, args, kw)
    w.contracts[ZD + '.dump_str'] = dump_str
    base_isinst = w.hooks['isinstance']

    def isinst(it, v, cls):
        from hv.vc.values import ClassRef
        if isinstance(v, SObj) and isinstance(cls, ClassRef) and cls.name == 'Quantity':
            return v.cls.name in ('BasicQuantity', 'Qty', 'PintQuantity')
        return base_isinst(it, v, cls)
    w.hooks['isinstance'] = isinst

    # _unescape by its contract (tasks unescape/str, unescape/uri): the text whose per-character image the token is
    def unescape_contract(it, args, kw):
        s = args[0]
        uri = kw.get('uri', args[1] if len(args) > 1 else False)
        if isinstance(s, str) or (isinstance(s, Shape) and s.concrete() is not None):
            f = w.function(ZP, '_unescape')
            return it.call_closure(f, [s if isinstance(s, str) else s.concrete()], {'uri': uri}, inline=True)
        if isinstance(s, Shape) and len(s.parts) == 1 and isinstance(s.parts[0], W4.ZEsc) and s.parts[0].kind == ('zuri' if uri else 'zstr'):
            src = s.parts[0].den
            return Shape([src]) if isinstance(src, Field) else src
        if isinstance(s, Shape) and len(s.parts) == 1 and isinstance(s.parts[0], Field) and s.parts[0].kind in ('hex', 'b64'):
            return s          # no backslash in these alphabets: every character is copied (step lemma, raw class)
        raise OutOfSubset('_unescape of %r' % (s,))
    w.contracts[ZP + '._unescape'] = unescape_contract
    C = JR.Conv

    class DT(object):
        pass

    def strptime(it, a, k):
        return C('strptime', a[0], a[1])
    dtns = World.Namespace('datetime', {'datetime': World.Namespace('datetime.datetime', {'strptime': Builtin('strptime', strptime)})})
    w.global_overrides[(ZP, 'datetime')] = dtns
    w.global_overrides[(ZP, 'iso8601')] = World.Namespace('iso8601', {'parse_date': Builtin('iso8601.parse_date', lambda it, a, k: JR.ParsedDT(a[0]))})
    base_ga = w.hooks['val_getattr']

    def ga(it, obj, name):
        if isinstance(obj, C) and obj.what == 'strptime' and name in ('date', 'time'):
            return AbstractCallable(name, lambda it2, a, k: C('strptime.' + name, obj.args[0], obj.args[1]))
        if isinstance(obj, JR.ParsedDT) and name == 'tzinfo':
            # aware iff the ISO text carries an offset: decided for the whole language
            sh = obj.text
            ok, _w = A.included(sh.base(), sre2nfa.body(r'(?s:.*([Zz]|[+-]\d\d:\d\d))'))
            if ok:
                return C('tzinfo', sh)
            raise OutOfSubset('ISO text may lack an offset')
        return base_ga(it, obj, name)
    w.hooks['val_getattr'] = ga
    return w, plug


def follow_nfa():
    return sre2nfa.body(FOLLOW)


# ------------------------------------------------------------------ engine self-checks
def t_engine(T, tier):
    rd, E_str, E_uri, ls, lu = setup(depth_of(tier))
    for ver3 in (False, True):
        for d in range(0, depth_of(tier) + 1):
            s = rd.scalar(ver3, depth=d)
            bad = M.check_function(rd.alg, s)
            ZR.oblige_fact(T, 'engine/scalar_%s/depth%d/semantics_is_a_total_function' % ('3.0' if ver3 else '2.0', d), not bad,
                           reason='; '.join('%s: %r' % (w, rd.comp.sample(x)) for w, x in bad), kind='vacuity')
    T.extra_units = rd.units()


def _decode_hooks(w, plug):
    """A-bi: int(<4 hex digits spelling n>, 16) == n; chr(n) is the character with code point n"""
    from hv.vc.values import SInt

    def conv_hex(it, f, sh):
        return f.den if isinstance(f.den, int) else SInt(f.den)
    plug.conversions[('int', 'hex4')] = conv_hex

    def b_int(it, args, kw):
        base = kw.get('base', args[1] if len(args) > 1 else 10)
        x = args[0]
        if isinstance(x, Shape) and len(x.parts) == 1 and isinstance(x.parts[0], Field) and x.parts[0].kind == 'hex4':
            if base != 16:
                raise OutOfSubset('hex digits read in base %r' % (base,))
            return conv_hex(it, x.parts[0], x)
        return plug.convert(it, 'int', args)
    w.hooks['int'] = b_int

    def b_chr(it, args, kw):
        n = args[0]
        if isinstance(n, SInt):
            return Shape([Field('chr(%s)' % n.term, A.cset(CS.full()), 'chr', n.term, fixed_len=1)])
        raise OutOfSubset('chr of %r' % (n,))
    w.hooks['builtin_chr'] = b_chr


def depth_of(tier):
    return 2 if tier != 'thorough' else 3


# ------------------------------------------------------------------ _unescape inverts the escaping map
def t_unescape(T, tier, which):
    """step lemma: for every class K of the escaping map E and every c in K, one iteration of the loop of _unescape on
    E(c) + rest appends c to `out` and leaves `rest`; exit lemma: on '' the loop ends and `out` is returned."""
    uri = which == 'uri'
    fn = 'dump_uri' if uri else 'dump_str'
    q = '`' if uri else '"'
    E = ZW.compute_E(fn)
    zm = extract.module(ZP)
    node = zm.functions['_unescape']
    loop = [st for st in node.body if isinstance(st, ast.While)]
    ZR.oblige_fact(T, '_unescape/shape.one_while_loop_then_return_out',
                   len(loop) == 1 and isinstance(node.body[-1], ast.Return) and ast.unparse(node.body[-1].value) == 'out'
                   and ast.unparse(loop[0].test) in ('len(s) > 0', 's') and not loop[0].orelse
                   and [ast.unparse(st) for st in node.body if not isinstance(st, (ast.While, ast.Return, ast.Expr))] == ["out = ''"])
    if len(loop) != 1:
        return
    body = ast.FunctionDef(name='_unescape$loop_body', args=ast.arguments(posonlyargs=[], args=[ast.arg(arg='s'), ast.arg(arg='out'), ast.arg(arg='uri')],
                                                                       kwonlyargs=[], kw_defaults=[], defaults=[]),
                           body=loop[0].body + [ast.Return(value=ast.Tuple(elts=[ast.Name(id='s', ctx=ast.Load()), ast.Name(id='out', ctx=ast.Load())], ctx=ast.Load()))],
                           decorator_list=[], lineno=loop[0].lineno, col_offset=0, end_lineno=loop[0].end_lineno)
    # `continue` inside the body = end of the iteration: turn into the same return
    class Cont(ast.NodeTransformer):
        def visit_Continue(self, n):
            return ast.copy_location(ast.Return(value=ast.Tuple(elts=[ast.Name(id='s', ctx=ast.Load()), ast.Name(id='out', ctx=ast.Load())], ctx=ast.Load())), n)
    import copy
    body = Cont().visit(copy.deepcopy(body))
    ast.fix_missing_locations(body)
    for idx, (cs, sh, den, sample) in enumerate(E):
        w = World()
        plug = HV.install(w)
        w.note_unit(zm, '_unescape', node)
        _decode_hooks(w, plug)
        img = ZW.strip_delims(sh.parts, q, q)
        label = '_unescape(%s)/class%r' % (which, cs)

        def run(it, img=img, cs=cs, den=den, label=label):
            rest = Field('rest', A.sigma_star(), 'text', 'rest')
            out0 = Field('out', A.sigma_star(), 'text', 'out')
            s = Shape(list(img) + [rest])
            clo = Closure(body, None, zm, '_unescape$loop_body')
            r = it.call_closure(clo, [s, Shape([out0]), uri], {}, inline=True)
            ok = isinstance(r, tuple) and len(r) == 2
            s1, o1 = (r if ok else (None, None))
            ok = ok and isinstance(s1, Shape) and len(s1.parts) == 1 and s1.parts[0] is rest
            it.ctx.oblige(label + '/step.rest_is_left', z3.BoolVal(bool(ok)))
            good = isinstance(o1, Shape) and len(o1.parts) == 2 and o1.parts[0] is out0
            if good:
                p = o1.parts[1]
                if isinstance(p, Lit):
                    good = cs.size() == 1 and len(p.text) == 1 and ord(p.text) == cs.iv[0][0]
                elif isinstance(p, CharField):
                    good = str(p.den) == str(den)
                elif isinstance(p, Field) and p.kind == 'chr':
                    good = str(p.den) == str(den)
                else:
                    good = False
            o = it.ctx.oblige(label + '/step.appends_the_character', z3.BoolVal(bool(good)))
            if not good:
                o.reason = 'image %r decoded to %r' % (img, o1)
                o.witness = {'kind': 'zstr', 'fn': fn, 'cp': sample}
        T.explore(w, run, 'unescape/%s/%d' % (which, idx))
    total = CS()
    for cs, _, _, _ in E:
        total = total | cs
    ZR.oblige_fact(T, '_unescape(%s)/partition.covers_every_code_point' % which, not (~total))


# ------------------------------------------------------------------ writer -> reader, per kind
def same_value(kind, orig, parts, res):
    """decoded value == original value (kind and payload); numbers through A-fl, dates/times through A-tz"""
    C = JR.Conv

    def num_ok(c, t, fk):
        return isinstance(c, C) and c.what == 'float' and isinstance(c.args[0], Shape) and len(c.args[0].parts) == 1 and isinstance(c.args[0].parts[0], Field) \
            and c.args[0].parts[0].kind in fk and str(c.args[0].parts[0].den) == str(t)
    if kind == 'none':
        return res is None
    if kind in ('marker', 'na', 'remove'):
        return res is orig
    if kind in ('bool_t', 'bool_f'):
        return res is orig
    if kind in ('num_finite', 'num_int'):
        return num_ok(res, parts['v'], ('repr_float', 'repr_int'))
    if kind in ('num_inf', 'num_ninf', 'num_nan'):
        return isinstance(res, float) and repr(res) == {'num_inf': 'inf', 'num_ninf': '-inf', 'num_nan': 'nan'}[kind]
    if kind in ('qty_nounit', 'qty_emptyunit'):
        return num_ok(res, parts['value'], ('repr_float', 'repr_int'))
    if kind == 'qty':
        return isinstance(res, SObj) and res.cls.name == 'BasicQuantity' and num_ok(res.fields['value'], parts['value'], ('repr_float', 'repr_int')) \
            and JR.same_shape(res.fields['unit'], Shape([parts['unit']]))
    if kind == 'str':
        return isinstance(res, Shape) and not isinstance(res, HV.TaggedShape) and JR.same_shape(res, Shape([parts['text']]))
    if kind in ('uri', 'bin'):
        return isinstance(res, HV.TaggedShape) and res.pycls == orig.pycls and JR.same_shape(Shape(res.parts), Shape([parts['text']]))
    if kind in ('ref0', 'ref1'):
        ok = isinstance(res, SObj) and res.cls.name == 'Ref' and JR.same_shape(res.fields['name'], Shape([parts['name']]))
        if kind == 'ref0':
            return ok and res.fields['value'] is None and res.fields['has_value'] is False
        return ok and res.fields['has_value'] is True and JR.same_shape(res.fields['value'], Shape([parts['dis']]))
    if kind in ('date', 'time'):
        # strptime(isoformat(v), fmt).date()/.time() == v  (A-tz)
        if not (isinstance(res, C) and res.what == 'strptime.' + kind):
            return False
        text, fmt = res.args
        if not (isinstance(text, Shape) and len(text.parts) == 1 and text.parts[0].kind == 'iso_' + kind and str(text.parts[0].den) == str(parts['v'])):
            return False
        if kind == 'date':
            return fmt == '%Y-%m-%d'
        return fmt in ('%H:%M:%S', '%H:%M:%S.%f')
    if kind == 'datetime':
        if not (isinstance(res, C) and res.what == 'astimezone'):
            return False
        iso, tz = res.args
        return isinstance(iso, Shape) and len(iso.parts) == 1 and iso.parts[0].kind == 'iso_datetime' and str(iso.parts[0].den) == str(parts['v']) \
            and isinstance(tz, C) and tz.what == 'tz' and isinstance(tz.args[0], Shape) and tz.args[0].parts[0].kind == 'tzname' and str(tz.args[0].parts[0].den) == str(parts['v'])
    if kind == 'coord':
        return isinstance(res, SObj) and res.cls.name == 'Coordinate' and num_ok(res.fields['latitude'], parts['lat'], ('fmt6',)) and num_ok(res.fields['longitude'], parts['lng'], ('fmt6',))
    if kind.startswith('xstr'):
        if not (isinstance(res, SObj) and res.cls.name == 'XStr'):
            return False
        enc, data = res.fields['encoding'], res.fields['data']
        if kind == 'xstr_other':
            return JR.same_shape(enc, Shape([parts['enc']])) and JR.same_shape(data, Shape([parts['data']]))
        e = kind[5:]
        return (enc == e if isinstance(enc, str) else (isinstance(enc, Shape) and enc.concrete() == e)) and isinstance(data, Shape) and len(data.parts) == 1 and data.parts[0].kind == e \
            and str(data.parts[0].den) == str(parts['data'])
    return False


def t_roundtrip(T, tier, ver, kind):
    ver3 = ver == '3.0'
    rd, E_str, E_uri, ls, lu = setup(0)
    w, plug = reader_world(E_str, E_uri)
    root = rd.scalar_or(ver3)
    label = 'parse(dump(%s))' % kind

    def run(it):
        for ax in KD.axioms():
            it.ctx.assume(ax)
        if kind == 'bin':
            f = HV.field('text', 'bintext', den='text')
            v, parts = HV.TaggedShape([f], 'Bin'), {'text': f}
        else:
            v, parts = HV.mk_wvalue(it, w, kind)
        if kind == 'qty':
            # format ambiguity of ZINC itself: "1_x" is the number 1 with a digit separator (see ASSUMPTIONS)
            parts['unit'].lang = sre2nfa.body(r'([a-zA-Z%/$]|[\u0080-\uffff])([a-zA-Z%_/$]|[\u0080-\uffff])*')
        if kind == 'xstr_other':
            # an XStr whose type is "Bin" IS the Bin kind under 3.0 (same spelling): not a distinct value
            from hv.vc.shapes import _intersect_complement
            parts['enc'].lang = _intersect_complement(parts['enc'].lang, A.lit('Bin'))
        version = w.global_lookup(it, extract.module('hszinc.version'), 'VER_3_0' if ver3 else 'VER_2_0')
        it.phase = 'dump'
        enc = it.call(w.function(ZD, 'dump_scalar'), [v], {'version': version})
        it.phase = 'parse'
        if isinstance(enc, str):
            enc = Shape([Lit(enc)])
        it.enc = enc
        wit = lambda text=None: {'kind': 'zinc_roundtrip', 'value_kind': kind, 'text': text if text is not None else Lang.any_member(enc), 'ver3': ver3}
        atoms = ZA.atoms_of(enc)
        te = ZA.TokEval(rd, it, w, 0, follow_nfa())
        ok, wsym = te.consumes(root, atoms, 0, len(atoms), 0)
        o = it.ctx.oblige(label + '/ensures.reader_consumes_exactly_the_emitted_text_whatever_follows', z3.BoolVal(bool(ok)))
        if not ok:
            o.reason = 'on %s' % rd.comp.sample(wsym)[:200]
            o.witness = wit(rd.comp.text_of(wsym))
            return
        try:
            toks = te.eval(root, atoms, 0, len(atoms), 0)
        except ZA.Unaligned as e:
            o = it.ctx.oblige(label + '/ensures.token_boundaries_follow_the_written_parts', z3.BoolVal(False))
            o.reason = str(e)[:300]
            o.witness = wit()
            return
        it.ctx.oblige(label + '/ensures.one_value', z3.BoolVal(len(toks) == 1))
        if len(toks) != 1:
            return
        res = toks[0]
        good = same_value(kind, v, parts, res)
        o = it.ctx.oblige(label + '/ensures.same_kind_and_content', z3.BoolVal(bool(good)))
        if not good:
            o.reason = 'emitted %r, decoded %r' % (enc, res)
            o.witness = wit()

    def on_raise(it, e):
        allowed = getattr(it, 'phase', None) == 'dump' and e.cls == 'ValueError' and kind == 'datetime'
        enc = getattr(it, 'enc', None)
        o = it.ctx.oblige('%s/raises.none(%s in %s)' % (label, e.cls, getattr(it, 'phase', '?')), z3.BoolVal(bool(allowed)), kind='raises')
        o.reason = 'raises %s%r' % (e.cls, tuple(str(a)[:60] for a in e.args_))
        o.witness = {'kind': 'zinc_roundtrip', 'value_kind': kind, 'text': Lang.any_member(enc) if isinstance(enc, Shape) else None, 'ver3': ver3}
    T.explore(w, run, '%s/ver=%s' % (kind, ver), allow_raise=on_raise)
    T.extra_units = rd.units()


# ------------------------------------------------------------------ lists, dicts (ver 3.0): elements in order, every payload contained
def t_composite(T, tier):
    rd, E_str, E_uri, ls, lu = setup(1)
    root = rd.scalar_or(True)
    for comp in ('list', 'dict', 'list_of_list', 'empty_list', 'empty_dict'):
        w, plug = reader_world(E_str, E_uri)

        def run(it, comp=comp):
            for ax in KD.axioms():
                it.ctx.assume(ax)
            a, pa = HV.mk_wvalue(it, w, 'str')
            b, pb = HV.mk_wvalue(it, w, 'num_int')
            c, pc = HV.mk_wvalue(it, w, 'uri')
            version = w.global_lookup(it, extract.module('hszinc.version'), 'VER_3_0')
            marker = HV.singleton(it, w, 'MARKER')
            val = {'list': [a, None, b, c], 'dict': {'k': a, 'n': None, 'x': b, 'mk': marker}, 'list_of_list': [[a], [], [b, None]], 'empty_list': [], 'empty_dict': {}}[comp]
            it.phase = 'dump'
            enc = it.call(w.function(ZD, 'dump_scalar'), [val], {'version': version})
            it.phase = 'parse'
            if isinstance(enc, str):
                enc = Shape([Lit(enc)])
            it.enc = enc
            label = 'parse(dump(%s))' % comp
            atoms = ZA.atoms_of(enc)
            depth = 2 if comp == 'list_of_list' else 1
            te = ZA.TokEval(rd, it, w, depth, follow_nfa())
            ok, wsym = te.consumes(root, atoms, 0, len(atoms), depth)
            o = it.ctx.oblige(label + '/ensures.reader_consumes_exactly_the_emitted_text_whatever_follows', z3.BoolVal(bool(ok)))
            if not ok:
                o.reason = 'on %s' % rd.comp.sample(wsym)[:200]
                o.witness = {'kind': 'zinc_composite', 'which': comp, 'text': rd.comp.text_of(wsym)}
                return
            try:
                toks = te.eval(root, atoms, 0, len(atoms), depth)
            except ZA.Unaligned as e:
                o = it.ctx.oblige(label + '/ensures.token_boundaries_follow_the_written_parts', z3.BoolVal(False))
                o.reason = str(e)[:300]
                o.witness = {'kind': 'zinc_composite', 'which': comp}
                return
            res = toks[0] if len(toks) == 1 else toks

            def eq(x, kind, orig, parts):
                return same_value(kind, orig, parts, x)
            if comp == 'list':
                good = isinstance(res, list) and len(res) == 4 and eq(res[0], 'str', a, pa) and res[1] is None and eq(res[2], 'num_int', b, pb) and eq(res[3], 'uri', c, pc)
            elif comp == 'dict':
                good = isinstance(res, dict) and list(res.keys()) == ['k', 'n', 'x', 'mk'] and eq(res['k'], 'str', a, pa) and res['n'] is None and eq(res['x'], 'num_int', b, pb) and res['mk'] is marker
            elif comp == 'list_of_list':
                good = isinstance(res, list) and len(res) == 3 and isinstance(res[0], list) and len(res[0]) == 1 and eq(res[0][0], 'str', a, pa) and res[1] == [] \
                    and isinstance(res[2], list) and len(res[2]) == 2 and eq(res[2][0], 'num_int', b, pb) and res[2][1] is None
            elif comp == 'empty_list':
                good = res == []
            else:
                good = isinstance(res, dict) and len(res) == 0
            o = it.ctx.oblige(label + '/ensures.same_elements_in_order', z3.BoolVal(bool(good)))
            if not good:
                o.reason = 'emitted %r, decoded %r' % (enc, res)
                o.witness = {'kind': 'zinc_composite', 'which': comp}
        T.explore(w, run, 'composite=%s' % comp)
    T.extra_units = rd.units()


# ------------------------------------------------------------------ whole grid: framing, metadata, columns, rows
def t_grid(T, tier, ver):
    ver3 = ver == '3.0'
    rd, E_str, E_uri, ls, lu = setup(1)
    groot = rd.comp.target(rd.roots['hs_grid_3_0' if ver3 else 'hs_grid_2_0'])
    w, plug = reader_world(E_str, E_uri)
    w.contracts['hszinc.grid.Grid._detect_or_validate'] = lambda it, a, k: None      # C10

    def run(it):
        for ax in KD.axioms():
            it.ctx.assume(ax)
        s = [HV.mk_wvalue(it, w, 'str') for _ in range(4)]
        # distinct field objects per string
        for n, (v, p) in enumerate(s):
            p['text'].name = 'text%d' % n
        b, pb = HV.mk_wvalue(it, w, 'num_int')
        gcls = w.class_ref(extract.module('hszinc.grid'), 'Grid')
        marker = HV.singleton(it, w, 'MARKER')
        g = it.call(gcls, [], {'version': ver, 'metadata': {'m1': s[0][0], 'mk': marker}, 'columns': [('c1', {'u': s[1][0], 'k': marker}), ('c2', {})]})
        it.call_method(g, 'append', [{'c1': s[2][0], 'c2': b}])
        it.call_method(g, 'append', [{'c2': s[3][0]}])
        it.phase = 'dump'
        enc = it.call(w.function(ZD, 'dump_grid'), [g])
        it.phase = 'parse'
        label = 'parse_grid(dump_grid(g))'
        atoms = ZA.atoms_of(enc)
        te = ZA.TokEval(rd, it, w, 1, A.epsilon())      # parser.parse hands parse_grid the grid text ending with its last line end
        ok, wsym = te.consumes(groot, atoms, 0, len(atoms), 1)
        o = it.ctx.oblige(label + '/ensures.reader_consumes_the_whole_document', z3.BoolVal(bool(ok)))
        if not ok:
            o.reason = 'on %s' % rd.comp.sample(wsym)[:300]
            o.witness = {'kind': 'zinc_grid', 'text': rd.comp.text_of(wsym)}
            return
        try:
            toks = te.eval(groot, atoms, 0, len(atoms), 1)
        except ZA.Unaligned as e:
            o = it.ctx.oblige(label + '/ensures.token_boundaries_follow_the_written_parts', z3.BoolVal(False))
            o.reason = str(e)[:300]
            return
        res = toks[0] if len(toks) == 1 else None
        good = isinstance(res, SObj) and res.cls.name == 'Grid'
        it.ctx.oblige(label + '/ensures.a_grid', z3.BoolVal(bool(good)))
        if not good:
            return
        md = res.fields['metadata']
        it.ctx.oblige(label + '/ensures.same_version', z3.BoolVal(str(_ver_text(res)) == ver))
        it.ctx.oblige(label + '/ensures.same_metadata_in_order', z3.BoolVal(
            list(md.fields['_order']) == ['m1', 'mk'] and same_value('str', s[0][0], s[0][1], md.fields['_values']['m1']) and md.fields['_values']['mk'] is marker))
        col = res.fields['column']
        cok = list(col.fields['_order']) == ['c1', 'c2']
        if cok:
            c1 = col.fields['_values']['c1']
            c2 = col.fields['_values']['c2']
            cok = _order(c1) == ['u', 'k'] and same_value('str', s[1][0], s[1][1], _vals(c1)['u']) and _vals(c1)['k'] is marker and _order(c2) == []
        it.ctx.oblige(label + '/ensures.same_columns_and_column_metadata_in_order', z3.BoolVal(bool(cok)))
        rows = res.fields['_row']
        rok = isinstance(rows, list) and len(rows) == 2
        if rok:
            r0, r1 = rows
            rok = same_value('str', s[2][0], s[2][1], r0.get('c1')) and same_value('num_int', b, pb, r0.get('c2')) and r1.get('c1') is None \
                and same_value('str', s[3][0], s[3][1], r1.get('c2'))
        o = it.ctx.oblige(label + '/ensures.same_rows_cell_by_cell(no payload leaks into a neighbour)', z3.BoolVal(bool(rok)))
        if not rok:
            o.reason = 'rows %r' % (rows,)
    T.explore(w, run, 'grid/ver=%s' % ver)
    T.extra_units = rd.units()


def _ver_text(g):
    v = g.fields.get('_version')
    if isinstance(v, SObj):
        vs = v.fields.get('version_nums')
        ex = v.fields.get('version_extra')
        try:
            return '.'.join(str(x) for x in vs) + (ex or '')
        except TypeError:
            return None
    return v


def _order(md):
    if isinstance(md, SObj):
        return list(md.fields['_order'])
    return list(md.keys())


def _vals(md):
    if isinstance(md, SObj):
        return md.fields['_values']
    return md



def run_task(name, tier):
    """a grammar construct outside the E3 subset is an undecided obligation of this task (never a crash, never a verdict)"""
    from hv.peg.grammar import OutOfGrammarSubset
    from hv.vc.symex import Obligation
    try:
        return _run_task(name, tier)
    except OutOfGrammarSubset as e:
        o = Obligation('grammar-in-subset', 'unknown', 'relang-peg', 0.0, 'oos', reason='outside the E3 grammar subset: %s' % e, kind='subset')
        return {'task': name, 'obligations': [o.to_json()], 'units': _guarded_units()}


def _guarded_units():
    try:
        from hv.peg import grammar as G
        from hv.frontend import extract
        m = extract.module('hszinc.zincparser')
        import hashlib
        return [{'function': 'hszinc.zincparser (module source)', 'file': 'hszinc/zincparser.py', 'lines': 'all', 'ast_sha': hashlib.sha256(m.src.encode()).hexdigest()[:16]}]
    except Exception:
        return []
