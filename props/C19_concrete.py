"""C19 bounded stand-in / replay: == / != / hash laws over a catalogue of Haystack values; grids differing in one position."""
import copy
import datetime
import itertools


def catalogue():
    import pytz
    from hszinc import Quantity, Coordinate, Uri, Bin, XStr, Ref, MARKER, NA, REMOVE
    utc = datetime.timezone.utc
    return [
        ('none', None), ('marker', MARKER), ('na', NA), ('remove', REMOVE), ('bool', True), ('bool', False),
        ('num', 0), ('num', 1), ('num', 1.0), ('num', -2.5), ('num', float('inf')), ('num', 1e-9),
        ('str', 'x'), ('str', ''), ('str', 'text/plain'), ('uri', Uri('x')), ('uri', Uri('')), ('bin', Bin('x')), ('bin', Bin('text/plain')),
        ('ref', Ref('x')), ('ref', Ref('x', 'dis')), ('ref', Ref('y')), ('ref', Ref('x', 'other')),
        ('xstr', XStr('hex', '00ff')), ('xstr', XStr('b64', 'AP8=')), ('xstr', XStr('Other', 'x')),
        ('qty', Quantity(1.0, 'm')), ('qty', Quantity(1, 'm')), ('qty', Quantity(1.0, 'ft')), ('qty', Quantity(2.0, 'm')), ('qty', Quantity(1.0, None)),
        ('coord', Coordinate(1.0, 2.0)), ('coord', Coordinate(1, 2)), ('coord', Coordinate(2.0, 1.0)),
        ('date', datetime.date(2020, 1, 2)), ('time', datetime.time(1, 2, 3)), ('time', datetime.time(1, 2, 3, 500)),
        ('datetime', datetime.datetime(2020, 1, 2, 3, 4, 5, tzinfo=utc)), ('datetime', pytz.timezone('Europe/Paris').localize(datetime.datetime(2020, 1, 2, 3, 4, 5))),
        ('list', [1.0, 'a']), ('dict', {'a': 1.0}),
        # large numbers that differ by far more than the tolerance but by little relative to their size
        ('num', 1500000000.0), ('num', 1500000001.0), ('num', 2500000.25), ('num', 2500000.252), ('qty', Quantity(86400000.0, 'ms')), ('qty', Quantity(86400000.05, 'ms')),
        ('coord', Coordinate(89.99999, 179.99999)), ('coord', Coordinate(89.99998, 179.99999)),
        ('list', [Quantity(1.0, 'm')]), ('list', [Quantity(1.0, 'ft')]), ('dict', {'k': Quantity(1.0, 'm')}), ('dict', {'k': Quantity(1.0, 'ft')}),
        # the same instant in another zone / the same wall time in a zone with the same offset: different cells (the zone is part of the value)
        ('datetime', pytz.timezone('Europe/Paris').localize(datetime.datetime(2020, 1, 2, 4, 4, 5))), ('datetime', pytz.timezone('Europe/Berlin').localize(datetime.datetime(2020, 1, 2, 3, 4, 5))),
    ]


def laws_pair(i, j, cat):
    (ka, a), (kb, b) = cat[i], cat[j]
    out = []
    res = {}
    for name, f in (('eq_ab', lambda: a == b), ('eq_ba', lambda: b == a), ('ne_ab', lambda: a != b), ('ne_ba', lambda: b != a)):
        try:
            res[name] = f()
        except TypeError as e:
            if (ka == 'qty' and kb == 'qty' and a.unit != b.unit) or (ka == kb and ka in ('list', 'dict') and 'units differ' in str(e)):
                res[name] = 'TypeError(units)'          # the documented exception, also met element-wise inside plain Python collections
            else:
                out.append('%r vs %r: %s raised %r' % (a, b, name, e))
                res[name] = None
        except Exception as e:
            out.append('%r vs %r: %s raised %r' % (a, b, name, e))
            res[name] = None
    if any(not isinstance(v, bool) for v in res.values()):
        if any(v is not None and v != 'TypeError(units)' and not isinstance(v, bool) for v in res.values()):
            out.append('%r vs %r: non-bool comparison result %r' % (a, b, res))
        return out
    if res['eq_ab'] != res['eq_ba']:
        out.append('== not symmetric on %r, %r: %r' % (a, b, res))
    if res['ne_ab'] != (not res['eq_ab']) or res['ne_ba'] != (not res['eq_ba']):
        out.append('!= is not the complement of == on %r, %r: %r' % (a, b, res))
    if i == j and not res['eq_ab']:
        out.append('%r is not equal to itself' % (a,))
    if ka != kb and res['eq_ab'] and not ({ka, kb} <= {'num', 'qty', 'bool'}):      # numbers, bools and Quantities compare by value (C20, CPython)
        out.append('values of different kinds compare equal: %r (%s) == %r (%s)' % (a, ka, b, kb))
    if ka == kb == 'ref' and res['eq_ab'] and (a.has_value != b.has_value):
        out.append('Ref with and without display name compare equal')
    if res['eq_ab'] and ka == kb:
        try:
            if hash(a) != hash(b):
                out.append('%r == %r but hashes differ' % (a, b))
        except TypeError:
            pass
    return out


def singleton_laws():
    from hszinc import MARKER, NA, REMOVE
    out = []
    for s in (MARKER, NA, REMOVE):
        if copy.copy(s) is not s or copy.deepcopy(s) is not s or copy.deepcopy([s])[0] is not s:
            out.append('%r is duplicated by copy/deepcopy' % (s,))
    return out


def grid_with(cells, meta=None, cols=('a', 'b')):
    from hszinc import Grid
    g = Grid(version='3.0', metadata=meta or {})
    for c in cols:
        g.column[c] = {}
    for row in cells:
        g.append(dict(zip(cols, row)))
    return g


def sparse_laws(cat):
    """a cell that is absent (null) on one side and populated on the other: unequal, in BOTH directions"""
    import hszinc
    out, n = [], 0
    for i, (ka, a) in enumerate(cat):
        if a is None:
            continue
        ga, gb = hszinc.Grid(version='3.0'), hszinc.Grid(version='3.0')
        for g in (ga, gb):
            g.column['x'] = {}
            g.column['y'] = {}
        ga.append({'x': 1.0})
        gb.append({'x': 1.0, 'y': a})
        n += 2
        try:
            r1, r2 = (ga == gb), (gb == ga)
        except Exception as e:
            out.append(('sparse', i, i, 'absent cell vs %r raised %r' % (a, e)))
            continue
        if r1 or r2 or r1 != r2:
            out.append(('sparse', i, i, 'row {x} vs row {x, y=%r}: g1 == g2 is %s, g2 == g1 is %s' % (a, r1, r2)))
    return out, n


def grid_laws(cat):
    out = []
    n = 0
    vals = [v for _, v in cat]
    for i, (ka, a) in enumerate(cat):
        base = [[a, 1.0], ['k', a]]
        g1 = grid_with(base)
        g2 = grid_with(copy.deepcopy(base))
        n += 1
        try:
            if not (g1 == g2) or (g1 != g2):
                out.append(('copy', i, i, 'grid with cell %r is not equal to its faithful copy' % (a,)))
        except Exception as e:
            out.append(('copy', i, i, 'comparing a grid with cell %r to its copy raised %r' % (a, e)))
        for j, (kb, b) in enumerate(cat):
            if i == j:
                continue
            try:
                same_val = (type(a) is type(b) and a == b)
                if same_val and ka == kb == 'datetime' and a.tzinfo != b.tzinfo:
                    same_val = False        # equal instants, different zones: materially different cells
            except TypeError:
                same_val = False
            if same_val or (ka == kb == 'num' and abs(a - b) < 1e-6) or ({ka, kb} <= {'num'} and a == b):
                continue
            if ka == kb == 'time' and a.replace(microsecond=0) == b.replace(microsecond=0):
                continue
            if ka == kb == 'qty' and a.unit == b.unit and abs(a.value - b.value) < 1e-6:
                continue
            if ka == kb == 'coord' and abs(a.latitude - b.latitude) < 1e-6 and abs(a.longitude - b.longitude) < 1e-6:
                continue
            if ka == kb == 'xstr' and a.data == b.data:
                continue
            for pos in (0, 1):
                other = copy.deepcopy(base)
                other[pos][pos] = b
                g3 = grid_with(other)
                n += 1
                try:
                    r = (g1 == g3)
                    r2 = (g1 != g3)
                except Exception as e:
                    out.append(('diff', i, j, 'grids differing in one cell (%r vs %r) raised %r instead of comparing unequal' % (a, b, e)))
                    continue
                if r is not False or r2 is not True:
                    out.append(('diff', i, j, 'grids differing in one cell (%r vs %r) compare equal' % (a, b)))
    g = grid_with([[1, 2]])
    import hszinc
    ga = hszinc.Grid(version='3.0', columns=[('c', [('x', 1)])])
    gb = hszinc.Grid(version='3.0', columns=[('c', [('y', 1)])])
    for (what, one, other) in (('column metadata names', ga, gb), ('column metadata names', gb, ga)):
        n += 1
        try:
            if (one == other) is not False or (one != other) is not True:
                out.append(('shape', 0, 0, 'grid compares equal to one differing in %s' % what))
        except Exception as e:
            out.append(('shape', 0, 0, 'grid == (differs in %s) raised %r' % (what, e)))
    for (what, other) in (('row count', grid_with([[1, 2], [1, 2]])), ('column names', grid_with([[1, 2]], cols=('a', 'c'))), ('metadata names', grid_with([[1, 2]], meta={'x': 1})),
                          ('non-grid', 5), ('non-grid', None), ('non-grid', 'x')):
        n += 1
        try:
            if (g == other) is not False:
                out.append(('shape', 0, 0, 'grid compares equal to one differing in %s' % what))
        except Exception as e:
            out.append(('shape', 0, 0, 'grid == (differs in %s) raised %r' % (what, e)))
    return out, n


def bounded(tier, seed):
    cat = catalogue()
    failures, cases = [], 0
    for i, j in itertools.product(range(len(cat)), repeat=2):
        cases += 1
        for msg in laws_pair(i, j, cat):
            failures.append({'id': 'C19/pair/%d/%d' % (i, j), 'what': msg, 'input': {'kind': 'pair_idx', 'i': i, 'j': j}})
    for msg in singleton_laws():
        failures.append({'id': 'C19/singleton', 'what': msg, 'input': {'kind': 'singleton'}})
    gl, n = grid_laws(cat)
    sl, n2 = sparse_laws(cat)
    gl = gl + sl
    n += n2
    cases += n
    for kind, i, j, msg in gl:
        failures.append({'id': 'C19/grid/%s/%d/%d' % (kind, i, j), 'what': msg, 'input': {'kind': 'grid', 'i': i, 'j': j}})
    return {'cases': cases, 'failures': failures[:25], 'bound': '%d catalogue values (every kind x boundary payloads): all ordered pairs; grids differing in exactly one cell for all pairs' % len(cat)}


def replay(inp):
    cat = catalogue()
    k = inp.get('kind')
    if k == 'pair_idx':
        r = laws_pair(inp['i'], inp['j'], cat)
        return {'reproduced': bool(r), 'detail': r}
    if k == 'singleton':
        r = singleton_laws()
        return {'reproduced': bool(r), 'detail': r}
    if k == 'grid':
        gl, _ = grid_laws(cat)
        gl = gl + sparse_laws(cat)[0]
        r = [m for kind, i, j, m in gl if i == inp['i'] and j == inp['j']] or [m for kind, i, j, m in gl][:3]
        return {'reproduced': bool(r), 'detail': r[:3]}
    # witnesses of refuted obligations name kinds only: replay the whole catalogue restricted to those kinds
    fails = []
    names = {'ref0': 'ref', 'ref1': 'ref', 'int': 'num', 'float': 'num'}
    want = {names.get(inp.get(x), inp.get(x)) for x in ('a', 'b', 'k1', 'k2')} - {None}
    for i, j in itertools.product(range(len(cat)), repeat=2):
        if {cat[i][0], cat[j][0]} <= want or not want:
            fails += laws_pair(i, j, cat)
    if k in ('cells', 'grids'):
        gl, _ = grid_laws(cat)
        gl = gl + sparse_laws(cat)[0]
        fails += [m for _, _, _, m in gl]
    return {'reproduced': bool(fails), 'detail': fails[:5]}
