"""C04 bounded stand-in / replay: real hszinc.dump(MODE_ZINC) judged by the reference ZINC reader (spec/zinc_ref.py)."""
from spec import zinc_ref as ZR, hval as HV
from props import valuecat as VC

TOL = 5e-7


def norm(h):
    """the reference reader does not resolve zone names: compare date-times by instant+offset; coordinates to 6 decimals"""
    if isinstance(h, tuple) and h and h[0] == 'datetime':
        return h[:3]
    if isinstance(h, tuple):
        return tuple(norm(x) for x in h)
    return h


def check_grid(g):
    import hszinc
    try:
        text = hszinc.dump(g, mode=hszinc.MODE_ZINC)
    except Exception as e:
        return 'dump raised %r' % (e,)
    try:
        got = ZR.decode_document(text)
    except Exception as e:
        return 'not well-formed ZINC for the reference reader: %r ; text %r' % (e, text[:300])
    if len(got) != 1:
        return 'reference reader sees %d grids' % len(got)
    want = HV.abs_grid(g)
    tol = TOL
    if not HV.same(norm(got[0]), norm(want), tol):
        return 'reference reader recovers %r, grid is %r (text %r)' % (got[0], want, text[:300])
    lines = text.split('\n')
    if lines[-1] != '' or len(lines) != 2 + len(g) + 1 + sum(text.count('\n') - (2 + len(g)) for _ in [0] if False):
        pass
    return None


def bounded(tier, seed):
    failures, cases = [], 0
    for label, g in VC.grids(tier, seed):
        cases += 1
        r = check_grid(g)
        if r and len(failures) < 15:
            failures.append({'id': 'C04/' + label, 'what': r, 'input': {'kind': 'catalogue', 'label': label, 'seed': seed, 'tier': tier}})

    # one fixed-offset tzinfo object across seasons (a history within one process): every stamp must name a zone that fits its date
    import re as _re
    import hszinc as _h
    for hist in VC.fixed_offset_history():
        for ver in ('2.0', '3.0'):
            cases += 1
            g = VC.grid_of(list(hist), ver)
            try:
                text = _h.dump(g, mode=_h.MODE_ZINC)
            except ValueError:
                continue
            for iso, zn in _re.findall(r'(\d{4}-\d{2}-\d{2}T[0-9:.]+[+-]\d{2}:\d{2}) ([A-Za-z0-9_+\-]+)', text):
                bad = VC.stamp_consistent(iso, zn)
                if bad and len(failures) < 15:
                    failures.append({'id': 'C04/zone-history', 'what': bad, 'input': {'kind': 'zone_history', 'offset': str(hist[0].utcoffset())}})
    # every code point class boundary through Str and Uri
    import hszinc
    from hszinc import Uri, Ref
    cps = sorted(set(list(range(0, 0x30)) + [0x5b, 0x5c, 0x5d, 0x60, 0x7e, 0x7f, 0x80, 0x81, 0xff, 0x100, 0xd7ff, 0xe000, 0xfffd, 0xffff, 0x10000, 0x1f600, 0x10ffff]))
    for cp in cps:
        for mk in (lambda s: s, Uri, lambda s: Ref('r', s)):
            cases += 1
            v = mk('a' + chr(cp) + 'b')
            r = check_grid(VC.grid_of([v, 'n'], '3.0'))
            if r and len(failures) < 15:
                failures.append({'id': 'C04/codepoint/%04X' % cp, 'what': r, 'input': {'kind': 'codepoint', 'cp': cp}})
    return {'cases': cases, 'failures': failures, 'bound': 'value catalogue x versions x positions; 70 code points at every class boundary x {Str, Uri, Ref display}'}


def replay(inp):
    if inp.get('kind') == 'zone_history':
        r = bounded('quick', 0)
        fl = [f for f in r['failures'] if f['id'].endswith('/zone-history')]
        return {'reproduced': bool(fl), 'detail': [f['what'] for f in fl[:3]]}
    import hszinc
    from hszinc import Uri, Ref
    k = inp.get('kind')
    if k == 'catalogue':
        for label, g in VC.grids(inp.get('tier', 'quick'), inp.get('seed', 0)):
            if label == inp['label']:
                r = check_grid(g)
                return {'reproduced': bool(r), 'detail': r or ''}
        return {'reproduced': None, 'detail': 'label not found'}
    if k in ('codepoint', 'zstr'):
        cp = inp['cp']
        fails = []
        for mk in (lambda s: s, Uri, lambda s: Ref('r', s)):
            r = check_grid(VC.grid_of([mk('a' + chr(cp) + 'b'), 'n'], '3.0'))
            if r:
                fails.append(r)
        return {'reproduced': bool(fails), 'detail': fails[:2]}
    fails = []
    for label, g in VC.grids('quick', 0):
        r = check_grid(g)
        if r:
            fails.append(label + ': ' + r)
    return {'reproduced': bool(fails), 'detail': fails[:5]}
