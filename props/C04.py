"""C04 - the ZINC writer emits spec-conformant text that denotes the grid (hszinc/zincdumper.py)."""
import z3

from hv.vc import smt
from hv.vc.kit import Task
from hv.vc.world import World
from hv.vc.symex import Obligation
from hv.vc.values import SObj, SVal, PyExc, OutOfSubset
from hv.vc.shapes import Shape, Lit, Field, CharField
from hv.lang import automata as A
from hv.lang.charset import CS
from hv.frontend import extract
from contracts import hvalues as HV, kinds as KD
from props import zincwrite as ZW
from spec import zinc_ref as ZR

HAS_CONCRETE = True
CONCRETE_TIMEOUT = {'quick': 300, 'thorough': 1800}
MOD = 'hszinc.zincdumper'
TRUSTED_BASE = ['A-py', 'A-fl (repr/str and %f spellings of floats and ints)', 'A-tz (isoformat shapes)', 'A-re-sub / A-str-replace (regex.sub over a one-character class '
                'and str.replace of one character act per character: the writer is a homomorphism, checked from the pattern / table in the current source)',
                'A-bi-base64', 'zoneinfo.timezone_name by contract (C17)', 'kind lattice of isinstance', 'E2 automata over U+0000..U+10FFFF']
ASSUMPTIONS = ['valid values: ref names, units, tag/column names, Bin text within their lexical classes; a Quantity with unit is finite',
               ]
EXPLANATION = ('The per-character escaping map E of dump_str/dump_uri is computed by symbolically executing the real function on one symbolic '
               'character per class of a partition of all code points induced by the constants in the code; each image is proved to be a legal '
               'strChar/uriChar sequence denoting that character. dump_scalar is then executed for every kind against the reference ZINC grammar '
               '(structure + language inclusion), and dump_grid on a symbolic grid (header, column line, one line per row, every cell present).')


def task_names(tier):
    return ['escape:dump_str', 'escape:dump_uri', 'scalars:2.0', 'scalars:3.0', 'grid']


def run_task(name, tier):
    T = Task(name)
    parts = name.split(':')
    globals()['t_' + parts[0]](T, tier, *parts[1:])
    return T.result()


def _ob(T, name, ok, reason='', witness=None, kind='post'):
    o = Obligation(name, 'proved' if ok else 'refuted', 'relang', 0.0, 'e2:' + name, reason=reason, kind=kind)
    o.witness = witness
    T._add(o)
    return o


# ------------------------------------------------------------------ escaping
def t_escape(T, tier, fn):
    w = World()
    zm = extract.module(MOD)
    w.note_unit(zm, fn, zm.functions[fn])
    w.note_unit(zm, 'str_sub' if fn == 'dump_str' else 'uri_sub', zm.functions['str_sub' if fn == 'dump_str' else 'uri_sub'])
    T.world = w
    q = '"' if fn == 'dump_str' else '`'
    esc = ZR.STR_ESC if fn == 'dump_str' else ZR.URI_ESC
    raw_ok = ~(CS.rng(0, 0x1f) | CS.of('\\', q))
    bad = ZW.check_pipeline_shape(fn)
    if bad:
        _ob(T, '%s/homomorphism.per_character_pipeline' % fn, False, bad)
        return
    try:
        E = ZW.compute_E(fn)
    except OutOfSubset as e:
        _ob(T, '%s/homomorphism.per_character_pipeline' % fn, False, str(e))
        return
    _ob(T, '%s/homomorphism.per_character_pipeline' % fn, True)
    total = CS()
    for cs, sh, den, sample in E:
        total = total | cs
        label = '%s/class%r' % (fn, cs)
        try:
            body = ZW.strip_delims(sh.parts, q, q)
        except OutOfSubset as e:
            _ob(T, label + '/ensures.delimited', False, str(e), witness={'kind': 'zstr', 'fn': fn, 'cp': cs.sample()})
            continue
        wit = {'kind': 'zstr', 'fn': fn, 'cp': sample}
        ok, why = False, 'image %r' % (sh,)
        if len(body) == 1 and isinstance(body[0], CharField):
            # raw character: must be allowed raw and is then read as itself
            inside = not (body[0].cs - raw_ok)
            same = str(body[0].den) == str(den)
            ok = inside and same
            if not inside:
                wit['cp'] = (body[0].cs - raw_ok).sample()
                why = 'U+%04X is written raw but may not appear raw inside %s...%s' % (wit['cp'], q, q)
        elif len(body) == 1 and isinstance(body[0], Lit):
            t = body[0].text
            cp = cs.iv[0][0] if cs.size() == 1 else None
            if len(t) == 1:
                ok = cp is not None and ord(t) == cp and (ord(t) in raw_ok)
                why = 'raw %r for U+%04X' % (t, cp if cp is not None else -1)
            elif len(t) == 2 and t[0] == '\\':
                ok = cp is not None and esc.get(t[1]) == cp
                why = 'escape %r for U+%04X is not a legal escape denoting it' % (t, cp if cp is not None else -1)
            elif len(t) == 6 and t[:2] == '\\u':
                ok = cp is not None and int(t[2:], 16) == cp
        elif len(body) == 2 and isinstance(body[0], Lit) and body[0].text == '\\u' and isinstance(body[1], Field) and body[1].kind == 'hex4':
            ok = str(body[1].den) == str(den)
            why = '\\u + 4 hex digits of another number'
        _ob(T, label + '/ensures.legal_and_denotes_the_character', ok, '' if ok else why, witness=None if ok else wit)
    _ob(T, '%s/partition.covers_every_code_point' % fn, not (~total), 'uncovered: %r' % (~total,))
    # the image language as a whole is inside the reference literal language
    ok, witness = A.included(ZW.image_language(E, q, q), ZR.hull_language('str' if fn == 'dump_str' else 'uri'))
    _ob(T, '%s/ensures.image_language_within_reference_literal' % fn, ok, '' if ok else 'emits %r' % (witness,),
        witness=None if ok else {'kind': 'ztext', 'fn': fn, 'text': witness})


# ------------------------------------------------------------------ scalars
STRUCT = {
    'none': ['N'], 'marker': ['M'], 'remove': ['R'], 'na': ['NA'], 'bool_t': ['T'], 'bool_f': ['F'],
    'num_finite': [('repr_float', 'v')], 'num_int': [('repr_int', 'v')], 'num_inf': ['INF'], 'num_ninf': ['-INF'], 'num_nan': ['NaN'],
    'qty': [('repr_float', 'value'), ('unit', 'unit')], 'qty_nounit': [('repr_float', 'value')], 'qty_emptyunit': [('repr_float', 'value')],
    'str': [('zstr', 'text')], 'uri': [('zuri', 'text')],
    'ref0': ['@', ('refname', 'name')], 'ref1': ['@', ('refname', 'name'), ' ', ('zstr', 'dis')],
    'date': [('iso_date', 'v')], 'time': [('iso_time', 'v')], 'datetime': [('iso_datetime', 'v'), ' ', ('tzname', 'v')],
    'coord': ['C(', ('fmt6', 'lat'), ',', ('fmt6', 'lng'), ')'],
    'xstr_hex': ['hex(', ('zstr', 'data'), ')'], 'xstr_b64': ['b64(', ('zstr', 'data'), ')'], 'xstr_other': [('xtype', 'enc'), '(', ('zstr', 'data'), ')'],
    'bin': ['Bin(', ('bintext', 'text'), ')'], 'bin3': ['Bin(', ('zstr', 'text'), ')'],
}
REFKIND = {'none': 'null', 'bool_t': 'bool', 'bool_f': 'bool', 'num_finite': 'num', 'num_int': 'num', 'num_inf': 'num', 'num_ninf': 'num', 'num_nan': 'num',
           'qty_nounit': 'num', 'qty_emptyunit': 'num', 'xstr_hex': 'xstr', 'xstr_b64': 'xstr', 'xstr_other': 'xstr'}


class ZEsc(Field):
    """the escaped spelling of a text: image of the per-character map (language from E), den = the text it spells"""

    def __init__(self, which, src, lang):
        Field.__init__(self, 'z%s(%s)' % (which, getattr(src, 'name', src)), lang, 'z' + which, src)


def world(E_str, E_uri):
    w = World()
    HV.install(w)
    w.contracts['hszinc.datatypes.XStr.data_to_string'] = HV.xstr_data_to_string_contract
    w.contracts['hszinc.zoneinfo.timezone_name'] = HV.timezone_name_contract
    w.global_overrides[('hszinc.datatypes', 'PINT_AVAILABLE')] = False
    w.global_overrides[('hszinc.datatypes', 'MODE_PINT')] = False
    lang_s = A.star(A.union(*[A.concat(*[p.nfa() for p in ZW.strip_delims(sh.parts, '"', '"')]) if ZW.strip_delims(sh.parts, '"', '"') else A.epsilon() for _, sh, _, _ in E_str]))
    lang_u = A.star(A.union(*[A.concat(*[p.nfa() for p in ZW.strip_delims(sh.parts, '`', '`')]) if ZW.strip_delims(sh.parts, '`', '`') else A.epsilon() for _, sh, _, _ in E_uri]))

    def dump_str_contract(it, args, kw):
        # contract of dump_str, proved by the escape:dump_str task: '"' + per-character image + '"'
        s = args[0]
        if isinstance(s, str):
            s = Shape([Lit(s)])
        if not isinstance(s, Shape):
            it.raise_('TypeError', 'expected string')
        if s.concrete() is not None:
            import re
            raise OutOfSubset('dump_str of a concrete string inside the scalar task')
        if len(s.parts) != 1 or not isinstance(s.parts[0], Field):
            raise OutOfSubset('dump_str of a composite string')
        src = s.parts[0]
        if src.kind in ('hex', 'b64'):
            return Shape([Lit('"'), src, Lit('"')])            # [0-9a-f] / base64 characters are all mapped to themselves by E
        return Shape([Lit('"'), ZEsc('str', src, lang_s), Lit('"')])

    def dump_uri_contract(it, args, kw):
        s = args[0]
        if not isinstance(s, Shape) or len(s.parts) != 1 or not isinstance(s.parts[0], Field):
            raise OutOfSubset('dump_uri of %r' % (s,))
        return Shape([Lit('`'), ZEsc('uri', s.parts[0], lang_u), Lit('`')])
    w.contracts[MOD + '.dump_str'] = dump_str_contract
    w.contracts[MOD + '.dump_uri'] = dump_uri_contract
    base_isinst = w.hooks['isinstance']

    def isinst(it, v, cls):
        from hv.vc.values import ClassRef
        if isinstance(v, SObj) and isinstance(cls, ClassRef) and cls.name == 'Quantity':
            return v.cls.name in ('BasicQuantity', 'Qty', 'PintQuantity')
        return base_isinst(it, v, cls)
    w.hooks['isinstance'] = isinst
    return w


def check_struct(it, label, res, kind, parts):
    exp = STRUCT[kind]
    want = []
    for e in exp:
        if isinstance(e, str):
            item = ('lit', e)
        else:
            item = ('field', e[0], parts.get(e[1]))
        if item[0] == 'lit' and want and want[-1][0] == 'lit':
            want[-1] = ('lit', want[-1][1] + item[1])
        else:
            want.append(item)
    # flatten '"' zesc '"' triples of the result into one pseudo field
    got = []
    ps = list(res.parts) if isinstance(res, Shape) else []
    i = 0
    while i < len(ps):
        p = ps[i]
        if isinstance(p, Lit) and p.text and p.text[-1] in '"`' and i + 2 < len(ps) + 0 and i + 1 < len(ps) and isinstance(ps[i + 1], Field) \
                and (isinstance(ps[i + 1], ZEsc) or ps[i + 1].kind in ('hex', 'b64')) and i + 2 < len(ps) and isinstance(ps[i + 2], Lit) and ps[i + 2].text[:1] == p.text[-1]:
            if p.text[:-1]:
                got.append(Lit(p.text[:-1]))
            got.append(('quoted', p.text[-1], ps[i + 1]))
            rest = ps[i + 2].text[1:]
            ps[i + 2] = Lit(rest)
            i += 2
            if not rest:
                i += 1
            continue
        got.append(p)
        i += 1
    # merge literals again
    merged = []
    for g in got:
        if isinstance(g, Lit) and merged and isinstance(merged[-1], Lit):
            merged[-1] = Lit(merged[-1].text + g.text)
        elif isinstance(g, Lit) and not g.text:
            continue
        else:
            merged.append(g)
    ok = isinstance(res, Shape) and len(merged) == len(want)
    if ok:
        for g, wv in zip(merged, want):
            if wv[0] == 'lit':
                ok = ok and isinstance(g, Lit) and g.text == wv[1]
            else:
                fk, src = wv[1], wv[2]
                if fk in ('zstr', 'zuri'):
                    q = '"' if fk == 'zstr' else '`'
                    if not (isinstance(g, tuple) and g[1] == q):
                        ok = False
                    elif isinstance(g[2], ZEsc):
                        ok = ok and g[2].den is src
                    else:
                        ok = ok and g[2].kind in ('hex', 'b64') and src is not None and str(g[2].den) == str(src)
                elif isinstance(src, Field):
                    ok = ok and g is src
                else:
                    ok = ok and isinstance(g, Field) and g.kind == fk and src is not None and str(g.den) == str(src)
    it.ctx.oblige('%s/ensures.token_structure_spells_the_value' % label, z3.BoolVal(bool(ok)))
    return ok


def t_scalars(T, tier, ver='3.0'):
    ver3 = ver == '3.0'
    E_str, E_uri = ZW.compute_E('dump_str'), ZW.compute_E('dump_uri')
    kinds = [k for k in HV.WRITER_KINDS] + ['bin']
    for kind in kinds:
        w = world(E_str, E_uri)
        w.under_verification = MOD + '.dump_scalar'

        def run(it, kind=kind):
            for ax in KD.axioms():
                it.ctx.assume(ax)
            if kind == 'bin':
                f = HV.field('text', 'bintext', den='text')
                v, parts = HV.TaggedShape([f], 'Bin'), {'text': f}
            else:
                v, parts = HV.mk_wvalue(it, w, kind)
            version = w.global_lookup(it, extract.module('hszinc.version'), 'VER_3_0' if ver3 else 'VER_2_0')
            it.ctx.witness_fn = None
            res = it.call(w.function(MOD, 'dump_scalar'), [v], {'version': version})
            if isinstance(res, str):
                res = Shape([Lit(res)])
            label = 'dump_scalar(%s)' % kind
            check_struct(it, label, res, 'bin3' if (kind == 'bin' and ver3) else kind, parts)
            rk = REFKIND.get(kind, kind)
            if rk == 'bin':
                rk = 'bin3' if ver3 else 'bin2'
            if isinstance(res, Shape):
                ok, wit = A.included(res.base(), ZR.hull_language(rk))
                o = it.ctx.oblige(label + '/ensures.language_within_reference_grammar', z3.BoolVal(ok))
                if not ok:
                    o.reason = 'emitted text %r is not a %s under ver %s' % (wit, rk, ver)
                    o.witness = {'kind': 'zscalar', 'value_kind': kind, 'version': ver, 'text': wit}

        def on_raise(it, e, kind=kind):
            allowed = e.cls == 'ValueError' and (kind == 'datetime' or (not ver3 and (kind == 'na' or kind.startswith('xstr'))))
            it.ctx.oblige('dump_scalar(%s)/raises.only_documented(%s)' % (kind, e.cls), z3.BoolVal(bool(allowed)), kind='raises')
        T.explore(w, run, '%s/ver=%s' % (kind, ver), allow_raise=on_raise)
    # composites (3.0): list and dict spell their elements in order with the reference separators
    if ver3:
        for comp in ('list', 'dict'):
            w = world(E_str, E_uri)
            w.under_verification = MOD + '.dump_scalar'

            def run2(it, comp=comp):
                for ax in KD.axioms():
                    it.ctx.assume(ax)
                a, pa = HV.mk_wvalue(it, w, 'str')
                b, pb = HV.mk_wvalue(it, w, 'num_int')
                version = w.global_lookup(it, extract.module('hszinc.version'), 'VER_3_0')
                val = [a, None, b] if comp == 'list' else {'k': a, 'n': None, 'x': b}
                res = it.call(w.function(MOD, 'dump_scalar'), [val], {'version': version})
                texts = [p.text if isinstance(p, Lit) else p for p in res.parts] if isinstance(res, Shape) else []
                if comp == 'list':
                    ok = len(texts) == 5 and texts[0] == '["' and isinstance(texts[1], ZEsc) and texts[1].den is pa['text'] and texts[2] == '",N,' \
                        and isinstance(texts[3], Field) and texts[3].kind == 'repr_int' and texts[4] == ']'
                else:
                    ok = len(texts) == 5 and texts[0] == '{k:"' and isinstance(texts[1], ZEsc) and texts[1].den is pa['text'] and texts[2] == '" n:N x:' \
                        and isinstance(texts[3], Field) and texts[3].kind == 'repr_int' and texts[4] == '}'
                it.ctx.oblige('dump_scalar(%s)/ensures.elements_in_order_with_reference_separators' % comp, z3.BoolVal(bool(ok)))
            T.explore(w, run2, 'composite=%s' % comp)


# ------------------------------------------------------------------ grid layout
def t_grid(T, tier):
    for ver in ('2.0', '3.0'):
        w = World()
        HV.install(w)
        w.contracts[MOD + '.dump_scalar'] = lambda it, args, kw: Shape([Field('cell', A.sigma_star(), 'cell', (args[0], kw.get('version')))])
        w.contracts[MOD + '.dump_str'] = lambda it, args, kw: Shape([Lit('"'), Field('verstr', A.sigma_star(), 'zstr', args[0]), Lit('"')])
        w.contracts['hszinc.grid.Grid._detect_or_validate'] = lambda it, a, k: None
        w.under_verification = MOD + '.dump_grid'

        def run(it, ver=ver):
            vs = [SVal(it.ctx.fresh('v%d' % i, smt.VAL)) for i in range(8)]
            gcls = w.class_ref(extract.module('hszinc.grid'), 'Grid')
            marker = HV.singleton(it, w, 'MARKER')
            g = it.call(gcls, [], {'version': ver, 'metadata': {'m1': vs[0], 'mk': marker}, 'columns': [('c1', {'u': vs[1], 'k': marker}), ('c2', {})]})
            it.call_method(g, 'append', [{'c1': vs[2], 'c2': vs[3]}])
            it.call_method(g, 'append', [{'c2': vs[4]}])
            it.call_method(g, 'append', [{'c2': vs[5], 'c1': vs[6]}])       # a full row whose key order is not the column order
            out = it.call(w.function(MOD, 'dump_grid'), [g])
            ok = isinstance(out, Shape)
            it.ctx.oblige('dump_grid/ensures.returns_text', z3.BoolVal(ok))
            if not ok:
                return
            seq = []
            for p in out.parts:
                if isinstance(p, Lit):
                    seq.append(p.text)
                elif p.kind == 'zstr':
                    seq.append(('ver', p.den))
                else:
                    seq.append(('cell', p.den[0]))
            want = ['ver:"', ('ver', ver), '" m1:', ('cell', vs[0]), ' mk\nc1 u:', ('cell', vs[1]), ' k,c2\n', ('cell', vs[2]), ',', ('cell', vs[3]), '\n',
                    ('cell', None), ',', ('cell', vs[4]), '\n', ('cell', vs[6]), ',', ('cell', vs[5]), '\n']
            same = len(seq) == len(want) and all((a == b) if isinstance(a, str) or isinstance(b, str) else (a[0] == b[0] and (a[1] is b[1] or a[1] == b[1])) for a, b in zip(seq, want))
            o = it.ctx.oblige('dump_grid/ensures.header_columns_one_line_per_row_every_cell_present', z3.BoolVal(bool(same)))
            if not same:
                o.reason = 'layout %r' % (seq,)
            gv = g.fields['_version']
            vers = [p.den[1] for p in out.parts if isinstance(p, Field) and p.kind == 'cell']
            it.ctx.oblige('dump_grid/ensures.every_value_written_under_the_grid_version', z3.BoolVal(all(v is gv for v in vers)))
            it.ctx.oblige('dump_grid/frame.grid_unchanged', z3.BoolVal(len(g.fields['_row']) == 3 and list(g.fields['metadata'].fields['_order']) == ['m1', 'mk']))
        T.explore(w, run, 'dump_grid/ver=%s' % ver)
