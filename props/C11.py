"""C11 - Grid.filter selects exactly the rows the Haystack filter denotes (grid_filter.py, filter_ast.py, grid.py)."""
import ast
import itertools

import z3

from hv.vc import smt
from hv.vc.kit import Task
from hv.vc.world import World
from hv.vc.symex import Obligation, explore
from hv.vc.values import (SObj, SVal, SKey, SInt, SBool, SSeq, ClassRef, Closure, Builtin, AbstractCallable, PyExc, OutOfSubset, unmap)
from hv.frontend import extract
from contracts import kinds as KD, grid as CG

HAS_CONCRETE = True
CONCRETE_TIMEOUT = {'quick': 400, 'thorough': 2400}
FMOD = 'hszinc.grid_filter'
V, K, B, I = smt.VAL, smt.KEY, z3.BoolSort(), z3.IntSort()
TRUSTED_BASE = ['A-py (Python expression semantics of the generated source: and/or short-circuit on booleans, id() identity, subscripts)',
                'A-pp (pyparsing delivers to a parse action the tokens of its element in order; grammar-level precedence is decided by the bounded run)',
                'operator.lt/le/eq/... are CPython comparisons (value or TypeError), A-py-exec (exec of a def binds the function and evaluates only default arguments)',
                'Grid.__getitem__(id) by its C15 contract; Grid constructor / append by their C14 contracts']
ASSUMPTIONS = ['and/or folding, _get_path and the row loop are executed for 1..4 operands, paths of length 1..3 and 0..3 rows with symbolic content (their loops are uniform: shape-bounded)',
               'known findings: reference following compares the Ref name with str(id) of rows (ids that are Ref objects never match); quantity literals and string escapes in filter literals']
EXPLANATION = ('Parse actions, the and/or folding, the code generator (per node kind, with the recursive call by contract) and the helpers _get_path / _compare are '
               'symbolically executed; the generated source is itself parsed and symbolically evaluated and proved equal to the reference filter semantics; '
               'Grid.filter row loop is proved against the reference selection (order, limit, source untouched).')


def task_names(tier):
    return ['fold', 'actions', 'getpath', 'compare', 'codegen', 'rowloop', 'pipeline', 'grammar/engine', 'grammar/structure', 'grammar/keywords', 'grammar/asgiven',
            'index/setitem', 'index/delitem', 'index/insert', 'index/extend', 'index/mixins', 'index/lookup']


def run_task(name, tier):
    if name.startswith('index/'):
        # `a->b` follows a reference through grid[name]: whatever the grid went through before (replacements, deletions, swaps, reverse()), the lookup
        # returns the row currently in the grid - the id-index tasks of C15 are obligations of this property
        from props import C15
        r = C15.run_task(name.split('/', 1)[1], tier)
        r['task'] = name
        return r
    T = Task(name)
    if name.startswith('grammar/'):
        from props import filtergram as FG
        from hv.peg.grammar import OutOfGrammarSubset
        try:
            FG.t_grammar(T, tier, name.split('/')[1])
        except OutOfGrammarSubset as e:
            T._add(Obligation('grammar-in-subset', 'unknown', 'relang-peg', 0.0, 'oos', reason='outside the E3 grammar subset: %s' % e, kind='subset'))
        r = T.result()
        r['units'] = r['units'] + getattr(T, 'extra_units', [])
        return r
    globals()['t_' + name](T, tier)
    return T.result()


def _world():
    w = World()
    KD.install(w)
    w.hooks['as_term'] = lambda it, v, sort: it.world.key_const(it, v) if isinstance(v, str) and (sort is None or sort == K) else None
    return w


# ------------------------------------------------------------------ and/or folding
def t_fold(T, tier):
    for op in ('and', 'or'):
        for n in (1, 2, 3, 4):
            w = _world()
            w.under_verification = FMOD + '._fold_binary'

            def run(it, op=op, n=n):
                ts = [SVal(it.ctx.fresh('t%d' % i, V)) for i in range(n)]
                toks = []
                for i, t in enumerate(ts):
                    if i:
                        toks.append(op)
                    toks.append(t)
                it.ctx.witness_fn = lambda model: {'kind': 'fold', 'op': op, 'n': n}
                r = it.call(w.function(FMOD, '_fold_binary'), [op, toks])
                # expected: ((t0 op t1) op t2) op t3
                def shape(x, k):
                    if k == 0:
                        return x is ts[0]
                    return isinstance(x, SObj) and x.cls.name == 'FilterBinary' and x.fields.get('op') == op and x.fields.get('right') is ts[k] and shape(x.fields.get('left'), k - 1)
                it.ctx.oblige('_fold_binary/ensures.left_associative_fold_over_every_operand', z3.BoolVal(bool(shape(r, n - 1))))
            T.explore(w, run, '%s/n=%d' % (op, n))
    # the parse actions of hs_condAnd / hs_condOr are that fold with the right operator
    m = extract.module(FMOD)
    for name, op in (('hs_condAnd', 'and'), ('hs_condOr', 'or')):
        lams = m.lambdas_in_assign(name)
        ok = len(lams) == 1 and ast.unparse(lams[0].body).replace('"', "'") == "_fold_binary('%s', toks)" % op
        T._add(Obligation('%s/parse_action_is_fold(%s)' % (name, op), 'proved' if ok else 'refuted', 'ast', 0.0, 'ast:' + name,
                          reason='' if ok else 'parse action is %s' % [ast.unparse(l) for l in lams], kind='structure'))


# ------------------------------------------------------------------ the other parse actions
def t_actions(T, tier):
    m = extract.module(FMOD)
    cases = {
        'hs_cmp': (['PATH', '==', 'LIT'], lambda r, a: isinstance(r, SObj) and r.cls.name == 'FilterBinary' and r.fields['op'] == '==' and r.fields['left'] is a[0] and r.fields['right'] is a[2]),
        'hs_missing': (['PATH'], lambda r, a: isinstance(r, SObj) and r.cls.name == 'FilterUnary' and r.fields['op'] == 'not' and r.fields['right'] is a[0]),
        'hs_has': (['a', 'b'], lambda r, a: isinstance(r, SObj) and r.cls.name == 'FilterUnary' and r.fields['op'] == 'has' and isinstance(r.fields['right'], SObj)
                   and r.fields['right'].cls.name == 'FilterPath' and list(r.fields['right'].fields['path']) == ['a', 'b']),
        'hs_path': (['a', 'b', 'c'], lambda r, a: isinstance(r, SObj) and r.cls.name == 'FilterPath' and list(r.fields['path']) == ['a', 'b', 'c']),
        'hs_parens': (['INNER'], lambda r, a: r is a[0]),
    }
    for name, (toks, check) in cases.items():
        w = _world()
        lams = m.lambdas_in_assign(name)

        def run(it, name=name, toks=toks, check=check, lams=lams):
            if len(lams) != 1:
                raise OutOfSubset('%s has %d parse-action lambdas' % (name, len(lams)))
            args = [SVal(it.ctx.fresh(t, V)) if t.isupper() else t for t in toks]
            clo = Closure(lams[0], None, m, '<%s action>' % name)
            w.note_unit(m, name + '.setParseAction', lams[0])
            r = it.call(clo, [args])
            it.ctx.oblige('%s/parse_action/ensures.builds_the_reference_node' % name, z3.BoolVal(bool(check(r, args))))
        T.explore(w, run, name)


# ------------------------------------------------------------------ _get_path against the reference path resolution
has_tag = z3.Function('has_tag', V, K, B)
get_tag = z3.Function('get_tag', V, K, V)
subscriptable = z3.Function('is_mapping', V, B)
ref_name = z3.Function('ref_name', V, K)
row_of = z3.Function('grid_row_with_id', K, V)       # the grid's lookup by id string (C15 contract)
row_exists = z3.Function('grid_has_id', K, B)
ABSENT = z3.Const('ABSENT', V)


def ref_resolve(row, keys):
    """reference semantics as a z3 term (spec/filter_ref.resolve)"""
    v = z3.If(z3.And(subscriptable(row), has_tag(row, keys[0])), get_tag(row, keys[0]), ABSENT)
    for k in keys[1:]:
        isref = KD.is_kind(v, ['ref'])
        tgt = row_of(ref_name(v))
        via_ref = z3.If(z3.And(row_exists(ref_name(v)), has_tag(tgt, k)), get_tag(tgt, k), ABSENT)
        via_dict = z3.If(z3.And(subscriptable(v), has_tag(v, k)), get_tag(v, k), ABSENT)
        v = z3.If(v == ABSENT, ABSENT, z3.If(isref, via_ref, via_dict))
    return v


def t_getpath(T, tier):
    for n in (1, 2, 3):
        w = _world()
        w.under_verification = FMOD + '._get_path'
        nf = z3.Const('NOT_FOUND_obj', V)
        w.global_overrides[(FMOD, 'NOT_FOUND')] = SVal(nf)

        def val_getitem(it, obj, key):
            if isinstance(obj, SVal) and isinstance(key, (str, SKey)):
                kt = it.as_term(key, K)
                if not it.ctx.branch(subscriptable(obj.term)):
                    it.raise_('TypeError', 'not subscriptable')
                if not it.ctx.branch(has_tag(obj.term, kt)):
                    it.raise_('KeyError', key)
                return SVal(get_tag(obj.term, kt))
            raise OutOfSubset('subscript %r' % (key,))
        w.hooks['val_getitem'] = val_getitem

        def val_getattr(it, obj, name):
            if isinstance(obj, SVal) and name == 'name':
                return SKey(ref_name(obj.term))
            return NotImplemented
        w.hooks['val_getattr'] = val_getattr

        class GridStub(object):
            pass

        def run(it, n=n):
            for ax in KD.axioms():
                it.ctx.assume(ax)
            row = it.ctx.fresh('row', V)
            keys = ['k%d' % i for i in range(n)]
            kts = [it.world.key_const(it, k) for k in keys]
            # references are not mappings; rows found by id are mappings (dict rows)
            x = z3.Const('x!m', V)
            kk = z3.Const('k!m', K)
            it.ctx.assume(z3.ForAll([x], z3.Implies(KD.is_kind(x, ['ref']), z3.Not(subscriptable(x)))))
            it.ctx.assume(z3.ForAll([kk], z3.Implies(row_exists(kk), subscriptable(row_of(kk)))))
            it.ctx.assume(z3.ForAll([x, kk], z3.Implies(has_tag(x, kk), get_tag(x, kk) != ABSENT)))

            def grid_getitem(it2, args, kw):
                k = args[0]
                if not it2.ctx.branch(row_exists(k.term)):
                    it2.raise_('KeyError', k)
                return SVal(row_of(k.term))
            grid = SObj(ClassRef('GridStub'), {})
            w.hooks['obj_getattr'] = lambda it2, obj, name: NotImplemented
            base_gi = w.ops.getitem

            def getitem(it2, obj, key):
                if obj is grid:
                    return grid_getitem(it2, [key], {})
                return base_gi(it2, obj, key)
            w.ops.getitem = getitem
            it.ctx.witness_fn = lambda model: {'kind': 'getpath', 'n': n}
            r = it.call(w.function(FMOD, '_get_path'), [grid, SVal(row), keys])
            spec = ref_resolve(row, kts)
            rt = r.term if isinstance(r, SVal) else None
            it.ctx.oblige('_get_path/ensures.reference_path_resolution', z3.BoolVal(False) if rt is None else z3.If(spec == ABSENT, rt == nf, rt == spec))
        T.explore(w, run, 'len=%d' % n)       # any exception escaping _get_path is a failed obligation


# ------------------------------------------------------------------ _compare: false on TypeError, otherwise the comparison
def t_compare(T, tier):
    cmp_val = z3.Function('py_compare_value', K, V, V, B)      # truth of op(value, literal) when it does not raise
    cmp_raises = z3.Function('py_compare_raises_TypeError', K, V, V, B)
    for op in ('==', '!=', '<', '<=', '>', '>='):
        w = _world()
        w.under_verification = FMOD + '._compare'
        import operator as _op
        fns = {'==': _op.eq, '!=': _op.ne, '<': _op.lt, '<=': _op.le, '>': _op.gt, '>=': _op.ge}

        def native_sym(it, fn, args, kw, fns=fns):
            for name, f in fns.items():
                if fn is f:
                    a, b = args
                    kt = it.world.key_const(it, name)
                    if it.ctx.branch(cmp_raises(kt, a.term, b.term)):
                        it.raise_('TypeError', 'not supported between instances')
                    return it.wrap(cmp_val(kt, a.term, b.term))
            return NotImplemented
        w.hooks['native_call_sym'] = native_sym

        nf = z3.Const('NOT_FOUND_obj', V)
        w.global_overrides[(FMOD, 'NOT_FOUND')] = SVal(nf)
        base_ident = w.hooks.get('identical')

        def identical(it, a, b, nf=nf, base_ident=base_ident):
            # `value is NOT_FOUND`: NOT_FOUND is one object
            ta = a.term if isinstance(a, SVal) else None
            tb = b.term if isinstance(b, SVal) else None
            if ta is not None and tb is not None and (z3.eq(ta, nf) or z3.eq(tb, nf)):
                return it.wrap(ta == tb)
            return base_ident(it, a, b) if base_ident is not None else NotImplemented
        w.hooks['identical'] = identical

        def run(it, op=op, nf=nf):
            v, l = it.ctx.fresh('value', V), it.ctx.fresh('literal', V)
            kt = it.world.key_const(it, op)
            it.ctx.witness_fn = lambda model, v=v: {'kind': 'compare', 'op': op, 'absent': bool(z3.is_true(model.eval(v == nf, model_completion=True)))}
            # the absent-tag object (class _NotFoundValue, checked below): not a Bool; == and != with it are false; it has no ordering (A-disp: TypeError)
            it.ctx.assume(z3.Not(KD.is_kind(nf, ['bool'])))
            it.ctx.assume(l != nf)
            if op in ('==', '!='):
                it.ctx.assume(z3.And(z3.Not(cmp_raises(kt, nf, l)), z3.Not(cmp_val(kt, nf, l))))
            else:
                it.ctx.assume(cmp_raises(kt, nf, l))
            r = it.call(w.function(FMOD, '_compare'), [op, SVal(v), SVal(l)])
            rt = it.truth_term(r) if not isinstance(r, bool) else z3.BoolVal(r)
            for ax in KD.axioms():
                it.ctx.assume(ax)
            mixed = KD.is_kind(v, ['bool']) != KD.is_kind(l, ['bool'])       # a Bool against another kind: unequal and unordered
            it.ctx.oblige('_compare/ensures.false_when_the_tag_is_absent', z3.Implies(v == nf, z3.Not(rt)))
            it.ctx.oblige('_compare/ensures.false_if_incomparable_else_the_comparison',
                          z3.Implies(v != nf, rt == z3.If(mixed, z3.BoolVal(op == '!='), z3.And(z3.Not(cmp_raises(kt, v, l)), cmp_val(kt, v, l)))))
            it.ctx.oblige('_compare/ensures.returns_bool', z3.BoolVal(isinstance(r, (bool, SBool))))
        T.explore(w, run, 'op=%s' % op)
    # the absent-tag object: its class answers == and != with False and defines no ordering
    try:
        cls = extract.module(FMOD).classes['_NotFoundValue']
        meths = {n: ast.unparse(f.body[-1]) for n, f in cls.methods.items()}
        okc = meths.get('__eq__') == 'return False' and meths.get('__ne__') == 'return False' and not ({'__lt__', '__le__', '__gt__', '__ge__'} & set(meths))
    except Exception as e:
        okc, meths = False, {'error': str(e)}
    T._add(Obligation('_compare/absent_tag_object_answers_eq_and_ne_with_False_and_has_no_ordering', 'proved' if okc else 'unknown', 'ast', 0.0, 'ast:_NotFoundValue', reason='' if okc else repr(meths), kind='structure'))
    # the operator table maps each Haystack operator to the Python operator of the same meaning
    m = extract.module(FMOD)
    try:
        node = m.assigns['_COMPARE'][-1]
        table = {ast.literal_eval(k): ast.unparse(v) for k, v in zip(node.keys, node.values)}
    except Exception as e:
        table = {'error': str(e)}
    want = {'==': 'operator.eq', '!=': 'operator.ne', '<': 'operator.lt', '<=': 'operator.le', '>': 'operator.gt', '>=': 'operator.ge'}
    T._add(Obligation('_COMPARE/table_maps_each_operator_to_its_python_operator', 'proved' if table == want else 'refuted', 'ast', 0.0, 'ast:_COMPARE',
                      reason='' if table == want else 'table is %r' % (table,), kind='structure'))


# ------------------------------------------------------------------ code generator: emitted source == reference semantics
def t_codegen(T, tier):
    fa = extract.module('hszinc.filter_ast')

    def mk(w, clsname, **fields):
        return SObj(w.class_ref(fa, clsname), dict(fields))

    kinds = ['path1', 'path2', 'has', 'not', 'and', 'or', 'literal'] + ['cmp' + op for op in ('==', '!=', '<', '<=', '>', '>=')]
    for kind in kinds:
        w = _world()
        children = []

        def rec_contract(it, args, kw, children=children):
            # R-ind-struct: the recursive call on a sub-node yields source for that sub-node (a placeholder identifier here)
            children.append(args[0])
            name = 'CHILD%d' % (len(children) - 1)
            return [name]
        w.contracts[FMOD + '._generate_filter_in_python'] = rec_contract
        w.under_verification = FMOD + '._generate_filter_in_python'

        def run(it, kind=kind, children=children):
            del children[:]
            c0, c1 = SVal(it.ctx.fresh('child0', V)), SVal(it.ctx.fresh('child1', V))
            consts = []
            if kind == 'path1':
                node = mk(w, 'FilterPath', path=['a'])
            elif kind == 'path2':
                node = mk(w, 'FilterPath', path=['siteRef', 'geoCity'])
            elif kind in ('has', 'not'):
                node = mk(w, 'FilterUnary', op=kind, right=c0)
            elif kind in ('and', 'or'):
                node = mk(w, 'FilterBinary', op=kind, left=c0, right=c1)
            elif kind.startswith('cmp'):
                node = mk(w, 'FilterBinary', op=kind[3:], left=c0, right=c1)
            else:
                node = c0          # any literal value
            base_isinst = w.hooks['isinstance']

            def isinst(it2, v, cls):
                if isinstance(v, SVal) and isinstance(cls, ClassRef) and cls.name in ('FilterPath', 'FilterBinary', 'FilterUnary'):
                    return False       # the node under test is a literal (case assumption)
                return base_isinst(it2, v, cls)
            w.hooks['isinstance'] = isinst
            pieces = it.call(w.function(FMOD, '_generate_filter_in_python'), [node, [], consts])
            ok = isinstance(pieces, list) and all(isinstance(p, str) for p in pieces)
            it.ctx.oblige('codegen(%s)/ensures.emits_source_text_pieces' % kind, z3.BoolVal(ok))
            if not ok:
                return
            src = ''.join(pieces)
            try:
                tree = ast.parse(src, mode='eval').body
            except SyntaxError as e:
                o = it.ctx.oblige('codegen(%s)/ensures.emitted_source_is_an_expression' % kind, z3.BoolVal(False))
                o.reason = 'emitted %r: %s' % (src, e)
                return
            # evaluate the emitted expression symbolically (A-py expression semantics) and compare with the reference meaning
            nf = SObj(ClassRef('_NotFoundValue'), {})
            pv = SVal(it.ctx.fresh('path_value', V))
            calls = {}

            def get_path(it2, args, kw):
                calls['path'] = args
                return calls.get('path_result', pv)

            def compare(it2, args, kw):
                calls['cmp'] = args
                return SBool(z3.Const('compare_result', B))
            present = it.ctx.fresh('child0_present', B)
            b0, b1 = it.ctx.fresh('child0_true', B), it.ctx.fresh('child1_true', B)
            env = {'_get_path': AbstractCallable('_get_path', get_path), '_compare': AbstractCallable('_compare', compare), 'NOT_FOUND': nf,
                   '_grid': 'GRID', '_entity': 'ENTITY', '_consts': consts,
                   'id': Builtin('id', lambda it2, a, k: ('ID', a[0]))}
            if kind in ('has', 'not'):
                env['CHILD0'] = nf if not it.ctx.branch(present) else pv
            elif kind in ('and', 'or'):
                env['CHILD0'], env['CHILD1'] = SBool(b0), SBool(b1)
            else:
                env['CHILD0'], env['CHILD1'] = pv, c1
            base_cmp = w.hooks.get('compare')

            def cmp_hook(it2, op, a, b):
                if isinstance(a, tuple) and isinstance(b, tuple) and a and a[0] == 'ID' and op in ('Eq', 'NotEq'):
                    same = a[1] is b[1]
                    return same if op == 'Eq' else not same
                return base_cmp(it2, op, a, b) if base_cmp else NotImplemented
            w.hooks['compare'] = cmp_hook
            clo = Closure(ast.Lambda(args=ast.arguments(posonlyargs=[], args=[], kwonlyargs=[], kw_defaults=[], defaults=[]), body=tree), (env, None),
                          extract.module(FMOD), '<generated>')
            saved = w.under_verification
            val = it.call(clo, [])
            label = 'codegen(%s)/ensures.emitted_source_means_the_node' % kind
            if kind in ('path1', 'path2'):
                a = calls.get('path')
                want = ['a'] if kind == 'path1' else ['siteRef', 'geoCity']
                it.ctx.oblige(label, z3.BoolVal(bool(a) and len(a) == 3 and a[0] == 'GRID' and a[1] == 'ENTITY' and list(a[2]) == want and val is pv))
            elif kind == 'has':
                it.ctx.oblige(label, (z3.BoolVal(val) if isinstance(val, bool) else it.truth_term(val)) == present)
            elif kind == 'not':
                it.ctx.oblige(label, (z3.BoolVal(val) if isinstance(val, bool) else it.truth_term(val)) == z3.Not(present))
            elif kind in ('and', 'or'):
                t = it.truth_term(val) if not isinstance(val, bool) else z3.BoolVal(val)
                it.ctx.oblige(label, t == (z3.And(b0, b1) if kind == 'and' else z3.Or(b0, b1)))
            elif kind.startswith('cmp'):
                a = calls.get('cmp')
                it.ctx.oblige(label, z3.BoolVal(bool(a) and len(a) == 3 and a[0] == kind[3:] and a[1] is pv and a[2] is c1 and isinstance(val, SBool)))
            else:
                it.ctx.oblige(label, z3.BoolVal(val is c0 and len(consts) == 1 and consts[0] is c0))
            it.ctx.oblige('codegen(%s)/ensures.children_compiled_in_order' % kind,
                          z3.BoolVal([c for c in children] == ([c0] if kind in ('has', 'not') else [c0, c1] if kind in ('and', 'or') or kind.startswith('cmp') else [])))
        T.explore(w, run, kind)


# ------------------------------------------------------------------ Grid.filter row loop
def t_rowloop(T, tier):
    from props.C14 import grid_ctor_contract
    for nrows, limit, given in itertools.product((0, 1, 2, 3), (0, 1, 2), (True, False)):
        w = World()
        CG.install(w)
        w.contracts[CG.MOD + '.Grid.reindex'] = CG.reindex_contract
        w.class_ctor['Grid'] = grid_ctor_contract
        w.under_verification = CG.MOD + '.Grid.filter'
        sel = [z3.Const('row%d_selected' % i, B) for i in range(3)]

        def run(it, nrows=nrows, limit=limit, given=given):
            rows = [it.ctx.fresh('r%d' % i, V) for i in range(nrows)]
            for r in rows:
                it.ctx.assume(z3.And(CG.is_dict(r), z3.Not(CG.has30(r))))
            for ax in CG.has30_definition():
                it.ctx.assume(ax)
            g = SObj(CG.grid_class(w), {'_row': [SVal(r) for r in rows], '_index': None, '_version': SVal(it.ctx.fresh('ver', V)), '_version_given': given,      # a version given by the caller / detected from the content
                                        
                                         'metadata': SVal(it.ctx.fresh('md', V)), 'column': SVal(it.ctx.fresh('cols', V)), '$lt30': False})
            seen = []

            def fn(it2, args, kw):
                seen.append(args)
                for i, r in enumerate(rows):
                    if args[1].term is r or str(args[1].term) == str(r):
                        return SBool(sel[i])
                raise OutOfSubset('filter function applied to a non-row')
            w.global_overrides[(FMOD, 'filter_function')] = AbstractCallable('filter_function', lambda it2, a, k: AbstractCallable('fn', fn))
            it.ctx.witness_fn = lambda model: {'kind': 'rowloop', 'rows': nrows, 'limit': limit,
                                               'selected': [bool(z3.is_true(model.eval(s, model_completion=True))) for s in sel[:nrows]]}
            res = it.call_method(g, 'filter', ['some filter', limit])
            ok = isinstance(res, SObj) and res.cls.name == 'Grid' and res is not g
            it.ctx.oblige('Grid.filter/ensures.returns_new_grid', z3.BoolVal(ok))
            if not ok:
                return
            out = res.fields['_row']
            got = list(out) if isinstance(out, list) else None
            # reference selection: rows satisfying the filter, in order, first `limit`
            conds = []
            if got is None:
                it.ctx.oblige('Grid.filter/ensures.selection', z3.BoolVal(False))
                return
            # enumerate which subset is selected on this path by asking the path condition
            want = []
            for i, r in enumerate(rows):
                s = it.ctx.branch(sel[i])
                if s and not (limit and len(want) >= limit):
                    want.append(r)
            it.ctx.oblige('Grid.filter/ensures.exactly_the_selected_rows_in_order_up_to_limit',
                          z3.BoolVal(len(got) == len(want) and all(isinstance(a, SVal) and (a.term is b or str(a.term) == str(b)) for a, b in zip(got, want))))
            it.ctx.oblige('Grid.filter/ensures.version_metadata_columns_carried',
                          z3.And(z3.BoolVal(isinstance(res.fields['_version'], SVal) and res.fields['metadata'] is g.fields['metadata'] and res.fields['column'] is g.fields['column']),
                                 res.fields['_version'].term == g.fields['_version'].term))
            it.ctx.oblige('Grid.filter/frame.source_untouched', z3.BoolVal(len(g.fields['_row']) == nrows and all(a.term is b for a, b in zip(g.fields['_row'], rows))
                                                                           and g.fields['_index'] is None))
            it.ctx.oblige('Grid.filter/ensures.function_applied_to_the_source_grid_and_row', z3.BoolVal(all(a[0] is g for a in seen)))
        T.explore(w, run, 'rows=%d/limit=%d%s' % (nrows, limit, '' if given else '/version-detected'))


# ------------------------------------------------------------------ filter text -> parser -> generator -> exec'd function: data flow
def t_pipeline(T, tier):
    w = _world()
    fa = extract.module('hszinc.filter_ast')
    seen = {}

    def parse_filter(it, args, kw):
        seen['parsed'] = args[0]
        return SObj(w.class_ref(fa, 'FilterAST'), {'_head': 'HEAD'})

    def gen(it, args, kw):
        seen['gen'] = args
        args[2].append('CONST0')
        return ['<expr>']

    def wrapper_ctor(it, cls, args, kw):
        seen['wrapper'] = args
        return SObj(cls, {'fun_name': args[0], '$template': args[1], '$consts': args[2] if len(args) > 2 else None})
    w.contracts[FMOD + '.parse_filter'] = parse_filter
    w.contracts[FMOD + '._generate_filter_in_python'] = gen
    w.class_ctor['_FnWrapper'] = wrapper_ctor
    w.contracts[FMOD + '._FnWrapper.get'] = lambda it, args, kw: ('FUNCTION_OF', args[0])
    counter = []
    w.global_overrides[(FMOD, '_id_function')] = 'COUNTER'
    w.builtins['next'] = Builtin('next', lambda it, a, k: (counter.append(a[0]), 41)[1])

    def run(it):
        del counter[:]
        text = SKey(it.ctx.fresh('filter_text', K))
        f = w.function(FMOD, 'filter_function')
        r = it.call(f, [text])
        it.ctx.oblige('filter_function/ensures.parses_exactly_the_given_text', z3.BoolVal(seen.get('parsed') is text))
        g = seen.get('gen')
        it.ctx.oblige('_filter_function/ensures.compiles_the_parsed_head_with_fresh_lists', z3.BoolVal(bool(g) and g[0] == 'HEAD' and g[1] == [] and isinstance(g[2], list)))
        wa = seen.get('wrapper')
        ok = bool(wa) and wa[0] == '_gen_hsfilter_41' and isinstance(wa[1], str) and wa[1] == 'def _gen_hsfilter_41(_grid, _entity, _consts=_consts):\n  return <expr>' \
            and len(wa) > 2 and wa[2] == ['CONST0'] and wa[2] is g[2]
        o = it.ctx.oblige('_filter_function/ensures.function_source_is_def_NAME_return_EXPR_with_the_literals_bound', z3.BoolVal(ok))
        if not ok:
            o.reason = 'wrapper built with %r' % (wa,)
        it.ctx.oblige('_filter_function/ensures.name_from_the_atomic_counter', z3.BoolVal(counter == ['COUNTER']))
        it.ctx.oblige('filter_function/ensures.returns_the_wrapper_function', z3.BoolVal(isinstance(r, tuple) and r[0] == 'FUNCTION_OF' and isinstance(r[1], SObj) and r[1].fields.get('fun_name') == '_gen_hsfilter_41'))
    T.explore(w, run, 'filter_function')
