"""C05 - the JSON reader decodes every well-formed Haystack-JSON grid correctly (hszinc/jsonparser.py)."""
import z3

from hv.vc import smt
from hv.vc.kit import Task
from hv.vc.symex import Obligation
from hv.vc.values import SObj, SVal, PyExc, OutOfSubset
from hv.vc.shapes import Shape, Lit, Field, Misaligned, SplitAmbiguous
from hv.frontend import extract
from props import jsonread as JR
from contracts import kinds as KD

HAS_CONCRETE = True
CONCRETE_TIMEOUT = {'quick': 300, 'thorough': 1800}
TRUSTED_BASE = ['A-py', 'A-fl (float()/int() total on the decimal languages and exact)', 'A-tz (iso8601.parse_date, astimezone, zoneinfo.timezone by contract)',
                'A-bi-json (json.loads)', 'A-bi-copy (deepcopy: fresh, structurally equal, shares nothing mutable)',
                'E2: regex acceptance decided on the whole input language; capture groups by the alignment check (all accepting runs place the group '
                'on field boundaries) - witnesses are replayed against CPython re on the real parser']
ASSUMPTIONS = ['payload texts range over all of Sigma* (U+0000..U+10FFFF); nested values by structural induction (lists/dicts map parse_scalar over elements)']
EXPLANATION = ('parse_embedded_scalar is symbolically executed on every reference spelling (a shape: prefix + payload fields ranging over regular languages); '
               'each cascade test is decided for the whole language by E2, forking when not uniform; the decoded value is proved to be the denotation of the '
               'spelling; parse_grid is executed on a symbolic document incl. the never-modify-the-input frame.')


def task_names(tier):
    names = []
    for name, build, v3only in JR.spellings(include_core=True):
        names.append('spellings:3.0:' + name)
        if not v3only:
            names.append('spellings:2.0:' + name)
    return names + ['grid']


def run_task(name, tier):
    T = Task(name)
    parts = name.split(':')
    globals()['t_' + parts[0]](T, tier, *parts[1:])
    return T.result()


def _text_of_witness(e):
    return getattr(e, 'text', None) or getattr(e, 'witness', None)


def run_spelling(T, prop, name, build, ver3, label_prefix=''):
    w, plug = JR.world()
    w.under_verification = JR.MOD + '.parse_embedded_scalar'
    st = {}

    def run(it):
        for ax in KD.axioms():
            it.ctx.assume(ax)
        inp, exp = build()
        st['inp'], st['exp'] = inp, exp
        it.ctx.witness_fn = None
        try:
            res = JR.run_reader(it, w, inp, ver3)
        except (Misaligned, SplitAmbiguous, JR.ConversionFails) as e:
            # a definite counterexample string from E2: the decoder mis-reads / rejects a member of the spelling's language
            text = getattr(e, 'text', None) or getattr(e, 'witness', None)
            o = it.ctx.oblige('parse_embedded_scalar(%s)/ensures.decodes_every_member' % name, z3.BoolVal(False))
            o.reason = str(e)[:300]
            o.witness = {'kind': 'json_scalar', 'spelling': name, 'text': _member_with(inp, text, e), 'ver3': ver3}
            return
        ok = JR.result_matches(res, exp, w)
        o = it.ctx.oblige('parse_embedded_scalar(%s)/ensures.denotation' % name, z3.BoolVal(bool(ok)))
        if not ok:
            from hv.vc.shapes import Lang
            member = Lang.any_member(inp) if isinstance(inp, Shape) else None
            notes = [n for n in it.ctx.notes]
            if notes:
                member = notes[-1][2]
            o.reason = 'decoded %r, expected %r' % (res, exp)
            o.witness = {'kind': 'json_scalar', 'spelling': name, 'text': member, 'ver3': ver3}

    def on_raise(it, e):
        from hv.vc.shapes import Lang
        inp = st.get('inp')
        member = Lang.any_member(inp) if isinstance(inp, Shape) else None
        if it.ctx.notes:
            member = it.ctx.notes[-1][2]
        o = it.ctx.oblige('parse_embedded_scalar(%s)/raises.none(%s)' % (name, e.cls), z3.BoolVal(False), kind='raises')
        o.reason = 'raises %s%r' % (e.cls, tuple(str(a)[:60] for a in e.args_))
        o.witness = {'kind': 'json_scalar', 'spelling': name, 'text': member, 'ver3': ver3}
    T.explore(w, run, '%s%s/ver=%s' % (label_prefix, name, '3.0' if ver3 else '2.0'), allow_raise=on_raise)


def _member_with(inp, text, e):
    if isinstance(text, str):
        return text
    return None


def t_spellings(T, tier, ver='3.0', only=None):
    ver3 = ver == '3.0'
    for name, build, v3only in JR.spellings(include_core=True):
        if (v3only and not ver3) or (only and name != only):
            continue
        run_spelling(T, 'C05', name, build, ver3)


def t_grid(T, tier):
    from props import C02
    C02.grid_task(T, tier, core=True)
