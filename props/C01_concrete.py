"""C01 bounded stand-in / replay: real hszinc.dump(MODE_ZINC) then real hszinc.parse: the grid must come back.
Also validates ledger A-pp: the E3 semantics of the extracted grammar against the real pyparsing objects on generated
inputs (hv.peg.diff).  BOUNDED, never counted as proved."""
import random

from spec import hval as HV
from props import valuecat as VC

TOL = 5e-7


def norm(h):
    return h


def check_grid(g, multi=False):
    import hszinc
    try:
        text = hszinc.dump([g, g] if multi else g, mode=hszinc.MODE_ZINC)
    except Exception as e:
        return 'dump raised %r' % (e,)
    try:
        back = hszinc.parse(text, mode=hszinc.MODE_ZINC, single=not multi)
    except Exception as e:
        return 'parse raised %s on %r' % (type(e).__name__, text[:300])
    backs = back if multi else [back]
    if multi and len(backs) != 2:
        return 'two grids written, %d read' % len(backs)
    want = HV.abs_grid(g)
    for b in backs:
        if b is None:
            return 'nothing read back from %r' % text[:200]
        got = HV.abs_grid(b)
        if not HV.same(got, want, TOL):
            return 'read back %r, grid is %r (text %r)' % (got, want, text[:300])
        z = zone_change(g, b)
        if z:
            return z + ' (text %r)' % text[:200]
    return None


def zone_change(g, b):
    """a date-time that carries a named (pytz) zone comes back in that zone - the instant and the offset alone do not make the value"""
    import datetime

    def zones(grid):
        out = []
        for src in [grid.metadata] + [grid.column[c] for c in grid.column.keys()] + list(grid):
            for k in src.keys():
                v = src[k]
                if isinstance(v, datetime.datetime) and getattr(v.tzinfo, 'zone', None):
                    out.append((k, v.isoformat(), v.tzinfo.zone.split('/')[-1]))
        return out
    a, c = zones(g), zones(b)
    if len(a) == len(c):
        for (k1, i1, z1), (k2, i2, z2) in zip(a, c):
            if z1 != z2 and z1 not in ('UTC', 'GMT', 'Zulu', 'UCT', 'Universal', 'Greenwich', 'GMT0', 'GMT+0', 'GMT-0', 'Etc/UTC') :
                return 'date-time %s in zone %s read back in zone %s' % (i1, z1, z2)
    return None


def units():
    return ['kW', '%', '$', '/', 'kW/h', '°C', 'm²', 'e', 'E', 'ex', 'E_', 'e_x', 'Ω', '\U0001F600', '￿', 'a_b', 'x__', 'eE', 'INF', 'NaN', 'T', 'N', 'NA', 'R', 'M', 'C']


def bounded(tier, seed):
    import hszinc
    from hszinc import Quantity, Uri, Ref, XStr
    failures, cases = [], 0
    for label, g in VC.grids(tier, seed):
        cases += 1
        r = check_grid(g, multi=(cases % 7 == 0))
        if r and len(failures) < 15:
            failures.append({'id': 'C01/' + label, 'what': r, 'input': {'kind': 'catalogue', 'label': label, 'seed': seed, 'tier': tier, 'multi': cases % 7 == 0}})
    for u in units():
        for x in (1.5, 1e21, -0.0, 7):
            cases += 1
            r = check_grid(VC.grid_of([Quantity(x, u), 'n'], '3.0'))
            if r and len(failures) < 15:
                failures.append({'id': 'C01/unit/%s' % u, 'what': r, 'input': {'kind': 'unit', 'unit': u, 'value': x}})
    cps = sorted(set(list(range(0, 0x30)) + [0x5b, 0x5c, 0x5d, 0x60, 0x7e, 0x7f, 0x80, 0x81, 0xff, 0x100, 0xd7ff, 0xe000, 0xfffd, 0xffff, 0x10000, 0x1f600, 0x10ffff]))
    for cp in cps:
        for nm, mk in (('str', lambda s: s), ('uri', Uri), ('ref', lambda s: Ref('r', s)), ('xstr', lambda s: XStr('Note', s))):
            cases += 1
            r = check_grid(VC.grid_of([mk('a' + chr(cp) + 'b'), 'n'], '3.0'))
            if r and len(failures) < 15:
                failures.append({'id': 'C01/codepoint/%s/%04X' % (nm, cp), 'what': r, 'input': {'kind': 'codepoint', 'cp': cp, 'wrap': nm}})
    # A-pp: compiled semantics vs the real pyparsing elements
    from props import zincread as ZR
    from hv.peg import diff as D
    rd = ZR.Reader(1)
    rnd = random.Random(seed)
    zp = rd.zp
    n_diff = 0
    for nm in ['hs_digits', 'hs_coord', 'hs_dateTime', 'hs_number', 'hs_uri', 'hs_str', 'hs_ref', 'hs_bin', 'hs_xstr', 'hs_scalar_2_0']:
        g = rd.ex.node(getattr(zp, nm))
        sem = rd.comp.compile_depth(g, 0)
        c, bad = D.compare(rd.comp, g, sem, rnd, 200 if tier != 'thorough' else 2000)
        cases += c
        n_diff += c
        for b in bad[:2]:
            failures.append({'id': 'C01/A-pp/' + nm, 'what': 'E3 semantics %r, pyparsing %r on %r' % (b['semantics'], b['pyparsing'], b['text']), 'input': {'kind': 'app', 'element': nm, 'text': b['text']}})
    for nm, d in (('hs_scalar_3_0', 2), ('hs_grid_3_0', 2), ('hs_grid_2_0', 1)):
        g = rd.roots[nm]
        sem = rd.comp.compile_depth(g, d)
        c, bad = D.compare(rd.comp, rd.comp.target(g), sem, rnd, 300 if tier != 'thorough' else 3000)
        cases += c
        n_diff += c
        for b in bad[:2]:
            failures.append({'id': 'C01/A-pp/' + nm, 'what': 'E3 semantics %r, pyparsing %r on %r' % (b['semantics'], b['pyparsing'], b['text']), 'input': {'kind': 'app', 'element': nm, 'text': b['text']}})
    return {'cases': cases, 'failures': failures,
            'bound': 'value catalogue x versions x cell/meta/column-meta positions, single and two-grid documents; %d units x 4 numbers; 70 boundary code points x {Str, Uri, Ref display, XStr}; '
                     '%d generated inputs comparing the compiled grammar semantics with the real pyparsing elements' % (len(units()), n_diff)}


def replay(inp):
    import hszinc
    from hszinc import Quantity, Uri, Ref, XStr
    k = inp.get('kind')
    if k == 'catalogue':
        for label, g in VC.grids(inp.get('tier', 'quick'), inp.get('seed', 0)):
            if label == inp['label']:
                r = check_grid(g, multi=inp.get('multi', False))
                return {'reproduced': bool(r), 'detail': r or ''}
        return {'reproduced': None, 'detail': 'label not found'}
    if k == 'unit':
        r = check_grid(VC.grid_of([Quantity(inp.get('value', 1.5), inp['unit']), 'n'], '3.0'))
        return {'reproduced': bool(r), 'detail': r or ''}
    if k in ('codepoint', 'zstr'):
        cp = inp['cp']
        fails = []
        for mk in (lambda s: s, Uri, lambda s: Ref('r', s), lambda s: XStr('Note', s)):
            r = check_grid(VC.grid_of([mk('a' + chr(cp) + 'b'), 'n'], '3.0'))
            if r:
                fails.append(r)
        return {'reproduced': bool(fails), 'detail': fails[:2]}
    if k == 'zinc_roundtrip' and inp.get('text') is not None:
        # the emitted text on which the deductive obligation failed: is it read back as the value kind that wrote it?
        try:
            v = hszinc.parse_scalar(inp['text'], mode=hszinc.MODE_ZINC, version='3.0' if inp.get('ver3', True) else '2.0')
            again = hszinc.dump_scalar(v, mode=hszinc.MODE_ZINC, version='3.0' if inp.get('ver3', True) else '2.0')
            bad = again != inp['text']
            return {'reproduced': bad, 'detail': 'text %r read as %r, written again as %r' % (inp['text'], v, again)}
        except Exception as e:
            return {'reproduced': True, 'detail': 'text %r: %s' % (inp['text'], type(e).__name__)}
    fails = []
    for label, g in VC.grids('quick', 0):
        r = check_grid(g)
        if r:
            fails.append(label + ': ' + r)
    for u in units():
        r = check_grid(VC.grid_of([Quantity(1.5, u), 'n'], '3.0'))
        if r:
            fails.append('unit %r: %s' % (u, r))
    return {'reproduced': bool(fails), 'detail': fails[:5]}
