"""Shared machinery for C04 / C08 / C01: the ZINC writer's per-character escaping map E, computed from the real code.

dump_str / dump_uri are pipelines of `regex.sub` over a single-character class and `str.replace` of single characters, hence
(ledger A-re-sub, A-str-replace) homomorphisms: dump_str(s) = '"' + E(s[0]) + E(s[1]) + ... + '"'.  E is obtained by
symbolically executing the real function on a one-character string, once per class of the partition of U+0000..U+10FFFF
induced by the constants of the code (regex class bounds, table entries, comparison constants) - so it covers every code point."""
import ast
import re

import z3

from hv.vc.world import World
from hv.vc.symex import explore
from hv.vc.values import PyExc, OutOfSubset
from hv.vc.shapes import Shape, Lit, Field, CharField
from hv.lang.charset import CS, minterms, MAXCP
from hv.lang import automata as A, sre2nfa as S
from hv.frontend import extract
from contracts import hvalues as HV

ZMOD = 'hszinc.zincdumper'


def partition(fn_name):
    """classes of source characters on which the pipeline `fn_name` behaves uniformly: induced by every character / integer constant
    occurring in the function, the callbacks it names, and the tables/regexes they read (extracted from the current source)"""
    zm = extract.module(ZMOD)
    dm = extract.module('hszinc.datatypes')
    sets = []
    consts = set()
    seen = set()

    def scan_fn(node):
        for n in ast.walk(node):
            if isinstance(n, ast.Constant):
                if isinstance(n.value, str):
                    for ch in n.value:
                        consts.add(ord(ch))
                elif isinstance(n.value, int) and 0 <= n.value <= MAXCP + 1:
                    consts.add(n.value)
            elif isinstance(n, ast.Name) and n.id not in seen:
                seen.add(n.id)
                if n.id in zm.functions:
                    scan_fn(zm.functions[n.id])
                elif n.id in zm.assigns:
                    try:
                        pat, fl = zm.regex(n.id)
                        from hv.vc.shapes import _class_of
                        sets.append(_class_of(re.compile(pat, fl)))
                    except Exception:
                        pass
                elif n.id in zm.imports and n.id in dm.assigns:
                    try:
                        for item in dm.const(n.id):
                            for s in (item if isinstance(item, (tuple, list)) else [item]):
                                if isinstance(s, str):
                                    for ch in s:
                                        consts.add(ord(ch))
                    except Exception:
                        pass
    scan_fn(zm.functions[fn_name])
    for c in consts:
        if c <= MAXCP:
            sets.append(CS.rng(c, c))
        if 0 < c <= MAXCP:
            sets.append(CS.rng(0, c - 1))
    return minterms(sets)


def check_pipeline_shape(fn_name):
    """The homomorphism argument needs the function to be *only* a per-character pipeline: every statement must be one of
         s = PATTERN.sub(callback, s)            (PATTERN a module-level single-character class regex)
         for a, b in TABLE: s = s.replace(a, b)  (TABLE a module-level table of (one character, text) pairs)
         return '<lit>%s<lit>' % s
       Anything else (a whole-string test, a fast path, slicing ...) is outside the subset: the per-class images then say nothing
       about longer strings.  -> None if the shape is fine, else a description."""
    zm = extract.module(ZMOD)
    dm = extract.module('hszinc.datatypes')
    node = zm.functions[fn_name]
    var = node.args.args[0].arg
    body = [st for st in node.body if not (isinstance(st, ast.Expr) and isinstance(st.value, ast.Constant))]
    if not body or not isinstance(body[-1], ast.Return):
        return 'no final return'
    for st in body[:-1]:
        if isinstance(st, ast.Assign) and len(st.targets) == 1 and isinstance(st.targets[0], ast.Name) and st.targets[0].id == var \
                and isinstance(st.value, ast.Call) and isinstance(st.value.func, ast.Attribute) and st.value.func.attr == 'sub' \
                and isinstance(st.value.func.value, ast.Name) and len(st.value.args) == 2 and isinstance(st.value.args[1], ast.Name) and st.value.args[1].id == var:
            try:
                pat, fl = zm.regex(st.value.func.value.id)
            except Exception as e:
                return 'pattern %s is not a module-level re.compile: %s' % (st.value.func.value.id, e)
            from hv.vc.shapes import _single_char_pattern
            if not _single_char_pattern(re.compile(pat, fl)):
                return 'pattern %s is not a single-character class' % st.value.func.value.id
            continue
        if isinstance(st, ast.For) and isinstance(st.iter, ast.Name) and isinstance(st.target, ast.Tuple) and len(st.target.elts) == 2 and len(st.body) == 1 and not st.orelse:
            b = st.body[0]
            a0, a1 = st.target.elts
            if isinstance(b, ast.Assign) and len(b.targets) == 1 and isinstance(b.targets[0], ast.Name) and b.targets[0].id == var \
                    and isinstance(b.value, ast.Call) and isinstance(b.value.func, ast.Attribute) and b.value.func.attr == 'replace' \
                    and isinstance(b.value.func.value, ast.Name) and b.value.func.value.id == var and len(b.value.args) == 2 \
                    and all(isinstance(x, ast.Name) for x in b.value.args) and b.value.args[0].id == a0.id and b.value.args[1].id == a1.id:
                tname = st.iter.id
                try:
                    table = dm.const(tname) if tname in dm.assigns else zm.const(tname)
                except Exception as e:
                    return 'table %s is not a literal: %s' % (tname, e)
                if not all(isinstance(o, str) and len(o) == 1 and isinstance(e_, str) for o, e_ in table):
                    return 'table %s has an entry that is not (one character, text)' % tname
                continue
        return 'statement outside the per-character pipeline subset: %s' % ast.unparse(st)[:80]
    r = body[-1].value
    if not (isinstance(r, ast.BinOp) and isinstance(r.op, ast.Mod) and isinstance(r.left, ast.Constant) and isinstance(r.left.value, str)
            and r.left.value.count('%s') == 1 and r.left.value.count('%') == 1 and isinstance(r.right, ast.Name) and r.right.id == var):
        return 'return is not <lit>%%s<lit> %% %s' % var
    return None


def compute_E(fn_name):
    """-> list of (class CS, image Shape, den term or int) ; raises OutOfSubset if the pipeline leaves the per-character subset"""
    out = []
    for idx, cs in enumerate(partition(fn_name)):
        w = World()
        HV.install(w)
        res = []

        def run(it, cs=cs):
            if cs.size() == 1:
                cp = cs.iv[0][0]
                inp = Shape([Lit(chr(cp))])
                den = cp
            else:
                t = it.ctx.fresh('cp', z3.IntSort())
                it.ctx.assume(z3.Or(*[z3.And(t >= lo, t <= hi) for lo, hi in cs.iv]))
                inp = Shape([CharField('c', cs, t)])
                den = t
            r = it.call(w.function(ZMOD, fn_name), [inp])
            res.append((cs, r, den, list(it.ctx.pc)))
            return r
        paths = explore(w, run, 'E/%s/%d' % (fn_name, idx))
        for p in paths:
            if p.kind == 'oos':
                raise OutOfSubset('escaping pipeline %s on class %r: %s' % (fn_name, cs, p.note))
            if p.kind == 'raise':
                raise OutOfSubset('escaping pipeline %s raises %s on class %r' % (fn_name, p.value.cls, cs))
        if len(res) != 1:
            # the class was split further by the code: keep each refinement (the CharField in the result carries its refined set)
            pass
        for cs_, r, den, pc in res:
            sample = cs_.sample()
            if not isinstance(den, int):
                from hv.vc import smt
                v = smt.check(pc, want_model=True, try_cvc5=False, single=True)
                if v.status == 'sat' and v.model is not None:
                    sample = v.model.eval(den, model_completion=True).as_long()
            out.append((cs_, r, den, sample))
    return out


def image_language(E, open_q, close_q):
    """language of dump_str over all strings: open (U E(class))* close, from the images with their delimiters stripped"""
    alts = []
    for cs, sh, den, _s in E:
        parts = list(sh.parts)
        body = strip_delims(parts, open_q, close_q)
        alts.append(A.concat(*[p.nfa() for p in body]) if body else A.epsilon())
    return A.concat(A.lit(open_q), A.star(A.union(*alts)), A.lit(close_q))


def strip_delims(parts, open_q, close_q):
    parts = list(parts)
    if not parts or not isinstance(parts[0], Lit) or not parts[0].text.startswith(open_q):
        raise OutOfSubset('image does not start with the delimiter')
    parts[0] = Lit(parts[0].text[len(open_q):])
    if not isinstance(parts[-1], Lit) or not parts[-1].text.endswith(close_q):
        raise OutOfSubset('image does not end with the delimiter')
    parts[-1] = Lit(parts[-1].text[:len(parts[-1].text) - len(close_q)])
    return [p for p in parts if not (isinstance(p, Lit) and p.text == '')]
