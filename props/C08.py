"""C08 - no string payload can alter grid structure (escaping is injective and contained), both formats."""
import z3

from hv.vc.kit import Task
from hv.vc.values import SObj, OutOfSubset
from hv.vc.shapes import Shape, Lit, Field
from hv.lang import automata as A, sre2nfa
from hv.lang.charset import CS
from hv.frontend import extract
from contracts import hvalues as HV, kinds as KD
from props import C01, C02, zincread as ZR, zincact as ZA, zincwrite as ZW
from props import C04 as W4

HAS_CONCRETE = True
CONCRETE_TIMEOUT = {'quick': 900, 'thorough': 6000}
TRUSTED_BASE = C01.TRUSTED_BASE + ['A-bi-json (json.dumps / json.loads are mutually inverse on strings: the JSON text layer cannot be broken by a payload)']
ASSUMPTIONS = ['nesting depth at most 2 (a string inside a nested grid inside a cell); widths and payload lengths unbounded; every code point',
               'document-level splitting of several grids: the regular-expression scans of parser.parse are proved to cut exactly at the blank lines between grids (task zinc/framing, ledger A-re-scan); no text kind emits a raw line break (zinc/noline)']
EXPLANATION = ('A payload is an arbitrary string (a field ranging over all of Sigma*). ZINC: the escaping map is computed from the real writer per code-point class, '
               'the reader is proved (exact PEG semantics of the extracted grammar) to consume exactly the escaped text whatever follows, _unescape is proved to '
               'invert the map, and the whole-grid task proves that every neighbouring cell / tag comes back unchanged; the emitted text of every text-carrying '
               'kind is proved free of raw line breaks, so the line structure of the document is untouched. JSON: the writer/reader round trip of C02 for the '
               'text-carrying kinds (prefix dispatch cannot be hijacked by look-alikes such as "n:1").')

TEXT_KINDS = ['str', 'uri', 'ref1', 'bin', 'xstr_other']


def task_names(tier):
    names = ['zinc/unescape/str', 'zinc/unescape/uri']
    for ver in ('2.0', '3.0'):
        for k in TEXT_KINDS:
            if ver == '2.0' and k.startswith('xstr'):
                continue
            names.append('zinc/roundtrip/%s/%s' % (ver, k))
    names += ['zinc/composite', 'zinc/grid/2.0', 'zinc/grid/3.0', 'zinc/nested', 'zinc/noline', 'zinc/framing']
    for ver in ('2.0', '3.0'):
        for k in ['str', 'uri', 'ref1', 'bin', 'xstr_other']:
            if ver == '2.0' and k.startswith('xstr'):
                continue
            names.append('json/roundtrip:%s:%s' % (ver, k))
    names += ['json/grid', 'json/framing']
    return names


def _run_task(name, tier):
    fmt, rest = name.split('/', 1)
    if fmt == 'json':
        r = C02.run_task(rest, tier)
        r['task'] = name
        return r
    if rest == 'framing':
        from props import C03
        r = C03.run_task('framing', tier)
        r['task'] = name
        return r
    if rest in ('nested', 'noline'):
        T = Task(name)
        globals()['t_' + rest](T, tier)
        r = T.result()
        r['units'] = r['units'] + getattr(T, 'extra_units', [])
        return r
    r = C01.run_task(rest, tier)
    r['task'] = name
    return r


# ------------------------------------------------------------------ a string inside a nested grid inside a cell
def t_nested(T, tier):
    rd, E_str, E_uri, ls, lu = C01.setup(2)
    root = rd.scalar_or(True)
    w, plug = C01.reader_world(E_str, E_uri)
    w.contracts['hszinc.grid.Grid._detect_or_validate'] = lambda it, a, k: None

    def run(it):
        for ax in KD.axioms():
            it.ctx.assume(ax)
        a, pa = HV.mk_wvalue(it, w, 'str')
        b, pb = HV.mk_wvalue(it, w, 'num_int')
        gcls = w.class_ref(extract.module('hszinc.grid'), 'Grid')
        g = it.call(gcls, [], {'version': '3.0', 'columns': [('x', {}), ('y', {})]})
        it.call_method(g, 'append', [{'x': a, 'y': b}])
        version = w.global_lookup(it, extract.module('hszinc.version'), 'VER_3_0')
        it.phase = 'dump'
        enc = it.call(w.function(C01.ZD, 'dump_scalar'), [g], {'version': version})
        it.phase = 'parse'
        atoms = ZA.atoms_of(enc)
        te = ZA.TokEval(rd, it, w, 2, C01.follow_nfa())
        label = 'parse(dump(<<grid with a string cell>>))'
        ok, wsym = te.consumes(root, atoms, 0, len(atoms), 2)
        o = it.ctx.oblige(label + '/ensures.reader_consumes_exactly_the_emitted_text_whatever_follows', z3.BoolVal(bool(ok)))
        if not ok:
            o.reason = 'on %s' % rd.comp.sample(wsym)[:300]
            o.witness = {'kind': 'zinc_nested', 'text': rd.comp.text_of(wsym)}
            return
        toks = te.eval(root, atoms, 0, len(atoms), 2)
        res = toks[0] if len(toks) == 1 else None
        good = isinstance(res, SObj) and res.cls.name == 'Grid'
        if good:
            rows = res.fields['_row']
            good = list(res.fields['column'].fields['_order']) == ['x', 'y'] and isinstance(rows, list) and len(rows) == 1 \
                and C01.same_value('str', a, pa, rows[0].get('x')) and C01.same_value('num_int', b, pb, rows[0].get('y'))
        o = it.ctx.oblige(label + '/ensures.same_nested_grid(one row, both cells, the string identical)', z3.BoolVal(bool(good)))
        if not good:
            o.reason = 'decoded %r' % (res,)
    T.explore(w, run, 'nested')
    T.extra_units = rd.units()


# ------------------------------------------------------------------ no text-carrying kind emits a raw line break / control character
def t_noline(T, tier):
    E_str, E_uri = ZW.compute_E('dump_str'), ZW.compute_E('dump_uri')
    ctl = A.concat(A.sigma_star(), A.cset(CS.rng(0, 0x1f)), A.sigma_star())
    for ver in ('2.0', '3.0'):
        ver3 = ver == '3.0'
        for kind in HV.WRITER_KINDS + ['bin']:
            if not ver3 and (kind == 'na' or kind.startswith('xstr')):
                continue
            w = W4.world(E_str, E_uri)

            def run(it, kind=kind, ver3=ver3):
                for ax in KD.axioms():
                    it.ctx.assume(ax)
                if kind == 'bin':
                    f = HV.field('text', 'bintext', den='text')
                    v = HV.TaggedShape([f], 'Bin')
                else:
                    v, parts = HV.mk_wvalue(it, w, kind)
                version = w.global_lookup(it, extract.module('hszinc.version'), 'VER_3_0' if ver3 else 'VER_2_0')
                res = it.call(w.function(C01.ZD, 'dump_scalar'), [v], {'version': version})
                if isinstance(res, str):
                    res = Shape([Lit(res)])
                wit = A.intersect_witness(res.base(), ctl)
                o = it.ctx.oblige('dump_scalar(%s)/ensures.no_raw_control_character_or_line_break_in_the_emitted_text' % kind, z3.BoolVal(wit is None))
                if wit is not None:
                    o.reason = 'emits %r' % wit
                    o.witness = {'kind': 'ztext', 'text': wit, 'value_kind': kind}
            T.explore(w, run, 'noline/%s/%s' % (ver, kind), allow_raise=lambda it, e: None)



def run_task(name, tier):
    """a grammar construct outside the E3 subset is an undecided obligation of this task (never a crash, never a verdict)"""
    from hv.peg.grammar import OutOfGrammarSubset
    from hv.vc.symex import Obligation
    try:
        return _run_task(name, tier)
    except OutOfGrammarSubset as e:
        o = Obligation('grammar-in-subset', 'unknown', 'relang-peg', 0.0, 'oos', reason='outside the E3 grammar subset: %s' % e, kind='subset')
        return {'task': name, 'obligations': [o.to_json()], 'units': _guarded_units()}


def _guarded_units():
    try:
        from hv.peg import grammar as G
        from hv.frontend import extract
        m = extract.module('hszinc.zincparser')
        import hashlib
        return [{'function': 'hszinc.zincparser (module source)', 'file': 'hszinc/zincparser.py', 'lines': 'all', 'ast_sha': hashlib.sha256(m.src.encode()).hexdigest()[:16]}]
    except Exception:
        return []
