"""C15 - lookup by id always reflects the rows currently in the grid (hszinc/grid.py)."""
import z3

from hv.vc import smt
from hv.vc.kit import Task
from hv.vc.world import World
from hv.vc.values import SObj, SKey, SVal, SInt, SBool, SSeq, SMap, PyExc, OutOfSubset, unmap
from contracts import grid as CG

HAS_CONCRETE = True
CONCRETE_TIMEOUT = {'quick': 300, 'thorough': 2400}
V, K, I = smt.VAL, smt.KEY, z3.IntSort()
TRUSTED_BASE = ['A-py', 'A-bi-list', 'A-bi-dict', 'rows are opaque dict objects observed only through "id" in row / row["id"] / str(id) / row.values()',
                'Grid._detect_or_validate by contract (raises without change, or changes only _version): its body is verified in C10',
                'stdlib MutableSequence mixins (append/pop/extend/__iadd__/reverse/clear) executed from their extracted source',
                'R-ind-hist, R-loop']
ASSUMPTIONS = ['str(id) is a function of the id value (ids are str, numbers or Ref)', 'rows sharing an id: the lookup returns a current row with that id']
EXPLANATION = ('Index invariant J (every index entry points at a current row with that id string; every current row with an id is indexed) '
               'is proved to be established by reindex() (loop invariant over a recursively defined index) and preserved by every mutator, '
               'for grids with and without a built index; lookups are proved against J.')


def task_names(tier):
    return ['reindex', 'insert', 'setitem', 'delitem', 'extend', 'extend_any', 'mixins', 'lookup', 'derived/slice', 'derived/filter']


def run_task(name, tier):
    if name.startswith('derived/'):
        # derived grids (slices, filter results) start without an index of their own and share none with their source (then J holds of them
        # trivially and every later operation on either grid is covered by the tasks above): the obligations `index_not_shared` of
        # Grid.__getitem__(slice) (C14 task read) and of the Grid.filter row loop (C11 task rowloop: a new grid built by the constructor)
        if name == 'derived/slice':
            from props import C14
            r = C14.run_task('read', tier)
        else:
            from props import C11
            r = C11.run_task('rowloop', tier)
        r['task'] = name
        return r
    T = Task(name)
    globals()['t_' + name](T, tier)
    return T.result()


def _world(reindex_contract=True):
    w = World()
    CG.install(w)
    if reindex_contract:
        w.contracts[CG.MOD + '.Grid.reindex'] = CG.reindex_contract
        w.contracts[CG.MOD + '.Grid.insert'] = CG.insert_ghost
    CG.install_extend_spec(w)
    return w


def _J_now(it, g, wit):
    """J for the current state of g (index None: nothing to maintain)"""
    ix = unmap(g.fields['_index'])
    if ix is None:
        return z3.BoolVal(True)
    if isinstance(ix, dict) and len(ix) == 0:
        ix = SMap(z3.K(K, z3.BoolVal(False)), z3.K(K, z3.Const('noval', V)), z3.IntVal(0), K, V)
    if not isinstance(ix, SMap):
        return z3.BoolVal(False)
    rows = g.fields['_row']
    return CG.J_body(rows.length, rows.arr, ix.dom, ix.val, wit)


def _witness(s0, extra):
    def fn(model):
        n = max(0, min(model.eval(s0.n, model_completion=True).as_long(), 6))
        ids = {}

        def idname(t):
            s = str(model.eval(t, model_completion=True))
            if s not in ids:
                ids[s] = 'id%d' % len(ids)
            return ids[s]
        rows = []
        for i in range(n):
            r = z3.Select(s0.rows, i)
            has = z3.is_true(model.eval(CG.has_id(r), model_completion=True))
            rows.append({'row': str(model.eval(r, model_completion=True)), 'id': idname(CG.sid(r)) if has else None})
        op = {}
        for k, v in extra.items():
            if isinstance(v, z3.ExprRef):
                if v.sort() == I:
                    op[k] = model.eval(v, model_completion=True).as_long()
                elif v.sort() == K:
                    op[k] = idname(v)
                elif v.sort() == V:
                    has = z3.is_true(model.eval(CG.has_id(v), model_completion=True))
                    op[k] = {'row': str(model.eval(v, model_completion=True)), 'id': idname(CG.sid(v)) if has else None}
                else:
                    op[k] = str(model.eval(v, model_completion=True))
            else:
                op[k] = v
        return {'kind': 'grid_index', 'rows': rows, 'index_built': not s0.index_none, 'op': op}
    return fn


def t_reindex(T, tier):
    for index in ('none', 'map'):
        w = _world(reindex_contract=False)
        w.under_verification = CG.MOD + '.Grid.reindex'

        def run(it, index=index):
            g, s0 = CG.sym_grid(it, w, 'g', index=index)
            g.fields['$entry'] = s0
            it.ctx.witness_fn = _witness(s0, {'op': 'reindex'})
            # base case of the recursive index definition
            it.ctx.assume(z3.And(CG.IDXdom(0) == z3.K(K, z3.BoolVal(False))))
            it.call_method(g, 'reindex', [])
            rows = g.fields['_row']
            it.ctx.oblige('Grid.reindex/ensures.J', _J_now(it, g, CG.IDXwit(rows.length)))
            it.ctx.oblige('Grid.reindex/ensures.index_is_dict', z3.BoolVal(unmap(g.fields['_index']) is not None))
            it.ctx.oblige('Grid.reindex/frame.rows_unchanged', CG.unchanged(it, g, s0))
        T.explore(w, run, 'index=%s' % index)


def t_insert(T, tier):
    for index in ('none', 'map'):
        w = _world()
        w.under_verification = CG.MOD + '.Grid.insert'

        def run(it, index=index):
            g, s0 = CG.sym_grid(it, w, 'g', index=index)
            g.fields['$entry'] = s0
            i = it.ctx.fresh('index', I)
            v = it.ctx.fresh('value', V)
            it.ctx.witness_fn = _witness(s0, {'op': 'insert', 'index': i, 'value': v})
            it.st = (g, s0)
            it.call_method(g, 'insert', [SInt(i), SVal(v)])
            n = s0.n
            idx = z3.If(i < 0, z3.If(i + n < 0, 0, i + n), z3.If(i > n, n, i))
            if g.fields.get('$reindexed'):
                # reindex() ran and then the new id was stored: witness of reindex, updated at the new key
                base = g.fields['$wit']
                wit = z3.Store(base, CG.sid(v), idx)
            elif s0.wit is not None:
                k = z3.Const('k!w', K)
                shifted = z3.Lambda([k], z3.If(z3.Select(s0.wit, k) >= idx, z3.Select(s0.wit, k) + 1, z3.Select(s0.wit, k)))
                wit = z3.If(CG.has_id(v), z3.Store(shifted, CG.sid(v), idx), shifted)
            else:
                wit = z3.K(K, z3.IntVal(0))
            it.ctx.oblige('Grid.insert/ensures.J_preserved', _J_now(it, g, wit))
            it.ctx.oblige('Grid.insert/ensures.row_is_dict', CG.is_dict(v))

        def on_raise(it, e):
            g, s0 = it.st
            it.ctx.oblige('Grid.insert/raises.never_from_index_code(%s)' % e.cls, z3.BoolVal(e.cls in ('TypeError', 'ValueError')), kind='raises')
            it.ctx.oblige('Grid.insert/raises.J_preserved', z3.And(CG.unchanged(it, g, s0), _J_now(it, g, s0.wit if s0.wit is not None else z3.K(K, z3.IntVal(0)))), kind='raises')
        T.explore(w, run, 'index=%s' % index, allow_raise=on_raise)


def _mut_task(T, name, call, allowed_exc):
    for index in ('none', 'map'):
        w = _world()

        def run(it, index=index):
            g, s0 = CG.sym_grid(it, w, 'g', index=index)
            g.fields['$entry'] = s0
            extra = call(it, g, s0, prepare=True)
            it.ctx.witness_fn = _witness(s0, extra)
            it.st = (g, s0)
            call(it, g, s0, prepare=False)
            wit = g.fields.get('$wit', s0.wit if s0.wit is not None else z3.K(K, z3.IntVal(0)))
            it.ctx.oblige('Grid.%s/ensures.J_preserved' % name, _J_now(it, g, wit))

        def on_raise(it, e):
            g, s0 = it.st
            it.ctx.oblige('Grid.%s/raises.never_from_index_code(%s)' % (name, e.cls), z3.BoolVal(e.cls in allowed_exc), kind='raises')
            wit = g.fields.get('$wit', s0.wit if s0.wit is not None else z3.K(K, z3.IntVal(0)))
            it.ctx.oblige('Grid.%s/raises.J_preserved' % name, _J_now(it, g, wit), kind='raises')
        T.explore(w, run, '%s/index=%s' % (name, index), allow_raise=on_raise)


def t_setitem(T, tier):
    def call(it, g, s0, prepare):
        if prepare:
            it.a = (it.ctx.fresh('index', I), it.ctx.fresh('value', V))
            return {'op': 'setitem', 'index': it.a[0], 'value': it.a[1]}
        it.world.ops.setitem(it, g, SInt(it.a[0]), SVal(it.a[1]))
    _mut_task(T, '__setitem__', call, ('TypeError', 'ValueError', 'IndexError'))


def t_delitem(T, tier):
    def call(it, g, s0, prepare):
        if prepare:
            it.a = it.ctx.fresh('index', I)
            return {'op': 'delitem', 'index': it.a}
        it.world.ops.delitem(it, g, SInt(it.a))
    _mut_task(T, '__delitem__', call, ('IndexError',))

    def call2(it, g, s0, prepare):
        if prepare:
            it.a = (it.ctx.fresh('lo', I), it.ctx.fresh('hi', I))
            return {'op': 'delslice', 'lo': it.a[0], 'hi': it.a[1]}
        it.world.ops.delitem(it, g, slice(SInt(it.a[0]), SInt(it.a[1]), None))
    _mut_task(T, '__delitem__(slice)', call2, ())


def t_extend(T, tier):
    # extend(values) for lists of 0..2 rows (the mixin loop is append per element; each append is insert, proved above)
    for nvals in (0, 1, 2):
        def call(it, g, s0, prepare, nvals=nvals):
            if prepare:
                it.a = [it.ctx.fresh('value%d' % j, V) for j in range(nvals)]
                d = {'op': 'extend'}
                for j, t in enumerate(it.a):
                    d['value%d' % j] = t
                return d
            it.call_method(g, 'extend', [[SVal(t) for t in it.a]])
        _mut_task(T, 'extend(%d rows)' % nvals, call, ('TypeError', 'ValueError'))


def t_extend_any(T, tier):
    def call(it, g, s0, prepare):
        if prepare:
            it.a = (it.ctx.fresh('n_values', I), it.ctx.fresh('values', z3.ArraySort(I, V)))
            it.ctx.assume(it.a[0] >= 0)
            return {'op': 'extend', 'value0': z3.Select(it.a[1], 0)}
        it.call_method(g, 'extend', [SSeq(it.a[0], it.a[1], V, mutable=True, kind='list')])
    _mut_task(T, 'extend(any length)', call, ('TypeError', 'ValueError'))


def t_mixins(T, tier):
    def append(it, g, s0, prepare):
        if prepare:
            it.a = it.ctx.fresh('value', V)
            return {'op': 'append', 'value': it.a}
        it.call_method(g, 'append', [SVal(it.a)])
    _mut_task(T, 'append', append, ('TypeError', 'ValueError'))

    def pop(it, g, s0, prepare):
        if prepare:
            it.a = it.ctx.fresh('index', I)
            return {'op': 'pop', 'index': it.a}
        it.call_method(g, 'pop', [SInt(it.a)])
    _mut_task(T, 'pop', pop, ('IndexError',))

    def iadd(it, g, s0, prepare):
        if prepare:
            it.a = it.ctx.fresh('value', V)
            return {'op': 'iadd', 'value': it.a}
        it.call_method(g, '__iadd__', [[SVal(it.a)]])
    _mut_task(T, '__iadd__', iadd, ('TypeError', 'ValueError'))


def t_lookup(T, tier):
    for meth in ('__getitem__', 'get'):
        for index in ('none', 'map'):
            w = _world()

            def run(it, meth=meth, index=index):
                g, s0 = CG.sym_grid(it, w, 'g', index=index)
                g.fields['$entry'] = s0
                key = it.ctx.fresh('key', V)
                it.ctx.assume(z3.And(z3.Not(CG.is_slice(key)), z3.Not(CG.is_number(key))))
                it.ctx.witness_fn = _witness(s0, {'op': meth, 'key': CG.str_of(key)})
                it.st = (g, s0, key)
                if meth == 'get':
                    r = it.call_method(g, 'get', [SVal(key), 'DEFAULT'])
                else:
                    r = it.world.ops.getitem(it, g, SVal(key))
                rows = g.fields['_row']
                k = CG.str_of(key)
                i = z3.Int('i!lk')
                none_has = z3.ForAll([i], z3.Implies(z3.And(i >= 0, i < rows.length), z3.Not(z3.And(CG.has_id(z3.Select(rows.arr, i)), CG.sid(z3.Select(rows.arr, i)) == k))))
                if isinstance(r, SVal):
                    wit = g.fields.get('$wit', s0.wit)
                    wv = z3.Select(wit, k)
                    it.ctx.oblige('Grid.%s/ensures.returns_current_row_with_that_id' % meth,
                                  z3.And(wv >= 0, wv < rows.length, z3.Select(rows.arr, wv) == r.term, CG.has_id(r.term), CG.sid(r.term) == k))
                else:
                    it.ctx.oblige('Grid.get/ensures.default_iff_no_row_has_id', z3.And(z3.BoolVal(meth == 'get' and r == 'DEFAULT'), none_has))
                it.ctx.oblige('Grid.%s/frame.rows_unchanged' % meth, CG.unchanged(it, g, s0))
                wit2 = g.fields.get('$wit', s0.wit if s0.wit is not None else z3.K(K, z3.IntVal(0)))
                it.ctx.oblige('Grid.%s/ensures.J' % meth, _J_now(it, g, wit2))

            def on_raise(it, e, meth=meth):
                g, s0, key = it.st
                rows = g.fields['_row']
                k = CG.str_of(key)
                i = z3.Int('i!lk')
                none_has = z3.ForAll([i], z3.Implies(z3.And(i >= 0, i < rows.length), z3.Not(z3.And(CG.has_id(z3.Select(rows.arr, i)), CG.sid(z3.Select(rows.arr, i)) == k))))
                it.ctx.oblige('Grid.%s/raises.KeyError_iff_no_row_has_id' % meth, z3.And(z3.BoolVal(e.cls == 'KeyError' and meth == '__getitem__'), none_has), kind='raises')
            T.explore(w, run, '%s/index=%s' % (meth, index), allow_raise=on_raise)
