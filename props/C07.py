"""C07 - anything parsed can be re-dumped, transcoded and re-parsed unchanged; dumping is a pure function of the grid."""
import z3

from hv.vc import smt
from hv.vc.kit import Task
from hv.vc.world import World
from hv.vc.values import SObj, SVal, OutOfSubset, PyExc
from hv.vc.shapes import Shape, Lit, Field, Lang
from hv.lang import automata as A, sre2nfa
from hv.frontend import extract
from contracts import hvalues as HV, kinds as KD
from props import C01, C02, C03, C17, zincread as ZR, zincact as ZA, jsonread as JR
from props import C04 as W4

HAS_CONCRETE = True
CONCRETE_TIMEOUT = {'quick': 900, 'thorough': 3000}
ZD, JD = 'hszinc.zincdumper', 'hszinc.jsondumper'
TRUSTED_BASE = C01.TRUSTED_BASE + ['R-compose (reader o writer = identity per kind in each format (C01, C02) composes to lossless transcoding: what one reader '
                                   'returns is, kind by kind, what the other writer is proved correct on)']
ASSUMPTIONS = ['numbers cross the JSON format with its six-decimal rule (equality up to 5e-7, as in C02/C06)',
               'a Quantity with a unit has a finite value; nesting depth <= 2']
EXPLANATION = ('Purity: both writers are executed twice on one symbolic grid in one path - the two texts are identical, the grid is unchanged, and no '
               'module-level state is read or written (frame), with timezone_name proved free of hidden state in C17. Re-dumping: for every kind and both '
               'versions writer -> reader -> writer is executed in one path in each format and the second text is proved character-for-character equal to '
               'the first (so parse-then-dump is idempotent), and the value the ZINC reader returns is proved acceptable to the JSON writer and vice versa '
               '(cross-format re-dump raises nothing but the documented ValueError). A date-time read WITHOUT a zone name is the one exception: see the finding.')


def task_names(tier):
    names = ['pure/zinc', 'pure/json', 'frame/name', 'frame/roundtrip']
    for ver in ('2.0', '3.0'):
        for k in C01.kinds_for(ver):
            names.append('redump/zinc/%s/%s' % (ver, k))
        for k in HV.WRITER_KINDS:
            if ver == '2.0' and (k == 'na' or k.startswith('xstr')):
                continue
            names.append('redump/json/%s/%s' % (ver, k))
    names.append('nozone')
    names += ['versions/zinc', 'versions/json', 'layout/zinc', 'layout/json']
    return names


def _run_task(name, tier):
    parts = name.split('/')
    if parts[0] == 'frame':
        r = C17.run_task(parts[1], tier)
        r['task'] = name
        return r
    if parts[0] == 'layout':
        # a parsed grid's rows hold their tags in the order of the document they came from (a JSON row object in any order): each writer must place
        # every cell under its own column whatever the order of the row's keys - the grid-layout tasks of the writers (C04 / C06)
        if parts[1] == 'zinc':
            from props import C04
            r = C04.run_task('grid', tier)
        else:
            from props import C06
            r = C06.run_task('document', tier)
        r['task'] = name
        return r
    if parts[0] == 'versions':
        # parsed grids carry ANY version string: both writers, every kind, under a symbolic version - only the documented
        # ValueError (3.0-only kind below 3.0) may be raised (C10's writer-ladder obligations, re-checked here)
        from props import C10
        r = C10.run_task('writers:' + parts[1], tier)
        r['task'] = name
        return r
    T = Task(name)
    globals()['t_' + parts[0]](T, tier, *parts[1:])
    r = T.result()
    r['units'] = r['units'] + getattr(T, 'extra_units', [])
    return r


def run_task(name, tier):
    from hv.peg.grammar import OutOfGrammarSubset
    from hv.vc.symex import Obligation
    try:
        return _run_task(name, tier)
    except OutOfGrammarSubset as e:
        o = Obligation('grammar-in-subset', 'unknown', 'relang-peg', 0.0, 'oos', reason='outside the E3 grammar subset: %s' % e, kind='subset')
        return {'task': name, 'obligations': [o.to_json()], 'units': C01._guarded_units()}


# ------------------------------------------------------------------ purity of the writers
def t_pure(T, tier, fmt):
    mod = ZD if fmt == 'zinc' else JD
    for ver in ('2.0', '3.0'):
        w = World()
        HV.install(w)
        cells = {}

        def dump_scalar(it, args, kw):
            # a pure function of the value and the version (per-kind writers: C04 / C06): the same value gives the same text
            key = (id(args[0]), str(kw.get('version')))
            if key not in cells:
                cells[key] = Shape([Field('cell%d' % len(cells), A.sigma_star(), 'cell', (args[0], kw.get('version')))])
            return cells[key]
        w.contracts[mod + '.dump_scalar'] = dump_scalar
        if fmt == 'zinc':
            w.contracts[mod + '.dump_str'] = lambda it, args, kw: Shape([Lit('"'), Field('verstr', A.sigma_star(), 'zstr', args[0]), Lit('"')])
        w.contracts['hszinc.grid.Grid._detect_or_validate'] = lambda it, a, k: None
        if fmt == 'json':
            from hv.vc.values import Builtin
            w.global_overrides[(mod, 'json')] = World.Namespace('json', {'dumps': Builtin('json.dumps', lambda it, a, k: ('JSON', a[0]))})     # A-bi-json: a function of the document
        w.under_verification = mod + '.dump_grid'

        def run(it, ver=ver):
            cells.clear()
            vs = [SVal(it.ctx.fresh('v%d' % i, smt.VAL)) for i in range(6)]
            gcls = w.class_ref(extract.module('hszinc.grid'), 'Grid')
            marker = HV.singleton(it, w, 'MARKER')
            g = it.call(gcls, [], {'version': ver, 'metadata': {'m1': vs[0], 'mk': marker}, 'columns': [('c1', {'u': vs[1], 'k': marker}), ('c2', {})]})
            it.call_method(g, 'append', [{'c1': vs[2], 'c2': vs[3]}])
            it.call_method(g, 'append', [{'c2': vs[4]}])
            w.globals_read.clear()
            w.globals_written.clear()
            before = _snap(g)
            out1 = it.call(w.function(mod, 'dump_grid'), [g])
            mid = _snap(g)
            out2 = it.call(w.function(mod, 'dump_grid'), [g])
            after = _snap(g)
            it.ctx.oblige('dump_grid(%s)/frame.grid_unchanged_by_dumping' % fmt, z3.BoolVal(before == mid == after))
            it.ctx.oblige('dump_grid(%s)/ensures.two_dumps_of_one_grid_are_identical' % fmt, z3.BoolVal(_same_out(out1, out2)))
            m = extract.module(mod)
            mutable = sorted(n for (mm, n) in w.globals_written if mm == mod)
            it.ctx.oblige('dump_grid(%s)/frame.writes_no_module_state%s' % (fmt, '(%s)' % ','.join(mutable) if mutable else ''), z3.BoolVal(not mutable))
            import ast
            state = sorted(n for (mm, n) in w.globals_read if mm == mod and isinstance(m.assigns[n][-1], (ast.Dict, ast.List, ast.Set))
                           or (mm == mod and isinstance(m.assigns[n][-1], ast.Call) and ast.unparse(m.assigns[n][-1].func) in ('dict', 'list', 'set')))
            it.ctx.oblige('dump_grid(%s)/frame.reads_no_mutable_module_state%s' % (fmt, '(%s)' % ','.join(map(str, state)) if state else ''), z3.BoolVal(not state))
        T.explore(w, run, 'pure/%s/ver=%s' % (fmt, ver))


def _snap(g):
    def md(m):
        return (tuple(m.fields['_order']), tuple((k, id(v)) for k, v in m.fields['_values'].items()))
    col = g.fields['column']
    return (id(g.fields['_version']), md(g.fields['metadata']), tuple(col.fields['_order']),
            tuple((k, md(v) if isinstance(v, SObj) else tuple((kk, id(vv)) for kk, vv in v.items())) for k, v in col.fields['_values'].items()),
            tuple(tuple((k, id(v)) for k, v in r.items()) for r in g.fields['_row']))


def _same_field(p, q):
    if p is q:
        return True
    return type(p) is type(q) and p.kind == q.kind and p.name == q.name and (p.den is q.den or (not isinstance(p.den, (Field, Shape, SObj)) and str(p.den) == str(q.den)))


def _same_out(a, b):
    if isinstance(a, tuple) and isinstance(b, tuple) and len(a) == len(b) == 2 and a[0] == b[0] == 'JSON':
        return _same_out(a[1], b[1])
    if isinstance(a, Shape) and isinstance(b, Shape):
        if len(a.parts) != len(b.parts):
            return False
        for p, q in zip(a.parts, b.parts):
            if isinstance(p, Lit) != isinstance(q, Lit):
                return False
            if isinstance(p, Lit):
                if p.text != q.text:
                    return False
            elif not _same_field(p, q):
                return False
        return True
    if isinstance(a, dict) and isinstance(b, dict):
        return list(a.keys()) == list(b.keys()) and all(_same_out(a[k], b[k]) for k in a)
    if isinstance(a, list) and isinstance(b, list):
        return len(a) == len(b) and all(_same_out(x, y) for x, y in zip(a, b))
    return a is b or (type(a) is type(b) and not isinstance(a, (Shape, SObj)) and a == b)


# ------------------------------------------------------------------ writer -> reader -> writer gives the same text
def back_to_writer(kind, res, v, parts):
    """the value the reader returned, as the writer sees it.  Numbers / dates / times come back through library conversions whose
    result is (A-fl / A-tz) the original object, all other kinds are returned as constructed by the reader."""
    if kind in ('num_finite', 'num_int', 'num_inf', 'num_ninf', 'num_nan', 'qty_nounit', 'qty_emptyunit', 'date', 'time', 'datetime'):
        return v
    if kind == 'qty':
        return SObj(res.cls, {'value': v.fields['value'], 'unit': res.fields['unit']})
    if kind == 'coord':
        return SObj(res.cls, {'latitude': v.fields['latitude'], 'longitude': v.fields['longitude']})
    if kind in ('xstr_hex', 'xstr_b64'):
        return v          # bytes decoded by A-bi-base64
    if kind == 'xstr_other':
        res.fields['$enc'] = 'other'
        return res
    return res


def t_redump(T, tier, fmt, ver, kind):
    ver3 = ver == '3.0'
    label = 'dump(parse(dump(%s)))' % kind
    if fmt == 'zinc':
        rd, E_str, E_uri, ls, lu = C01.setup(0)
        w, plug = C01.reader_world(E_str, E_uri)
        root = rd.scalar_or(ver3)
    else:
        w, plug = JR.world()
        w.contracts['hszinc.datatypes.XStr.data_to_string'] = HV.xstr_data_to_string_contract
        w.contracts['hszinc.zoneinfo.timezone_name'] = HV.timezone_name_contract
    # the zone name written for one value is the same each time (timezone_name has no hidden state: frame/name)
    names = {}
    base_tz = w.contracts['hszinc.zoneinfo.timezone_name']

    def tzname(it, args, kw):
        k = str(args[0].term) if hasattr(args[0], 'term') else id(args[0])
        if k not in names:
            names[k] = base_tz(it, args, kw)
        return names[k]
    w.contracts['hszinc.zoneinfo.timezone_name'] = tzname
    base_isinst = w.hooks['isinstance']

    def isinst(it, v, cls):
        from hv.vc.values import ClassRef
        if isinstance(v, SObj) and isinstance(cls, ClassRef) and cls.name == 'Quantity':
            return v.cls.name in ('BasicQuantity', 'Qty', 'PintQuantity')
        return base_isinst(it, v, cls)
    w.hooks['isinstance'] = isinst
    dmod = ZD if fmt == 'zinc' else JD

    def run(it):
        names.clear()
        for ax in KD.axioms():
            it.ctx.assume(ax)
        if kind == 'bin':
            f = HV.field('text', 'bintext', den='text')
            v, parts = HV.TaggedShape([f], 'Bin'), {'text': f}
        else:
            v, parts = HV.mk_wvalue(it, w, kind)
        if kind == 'qty' and fmt == 'zinc':
            parts['unit'].lang = sre2nfa.body(r'([a-zA-Z%/$]|[\u0080-\uffff])([a-zA-Z%_/$]|[\u0080-\uffff])*')
        if kind == 'xstr_other':
            from hv.vc.shapes import _intersect_complement
            parts['enc'].lang = _intersect_complement(parts['enc'].lang, A.lit('Bin'))
        version = w.global_lookup(it, extract.module('hszinc.version'), 'VER_3_0' if ver3 else 'VER_2_0')
        it.phase = 'dump'
        enc = it.call(w.function(dmod, 'dump_scalar'), [v], {'version': version})
        it.phase = 'parse'
        if fmt == 'zinc':
            if isinstance(enc, str):
                enc = Shape([Lit(enc)])
            atoms = ZA.atoms_of(enc)
            te = ZA.TokEval(rd, it, w, 0, C01.follow_nfa())
            ok, wsym = te.consumes(root, atoms, 0, len(atoms), 0)
            if not ok:
                o = it.ctx.oblige(label + '/ensures.reader_consumes_the_emitted_text', z3.BoolVal(False))
                o.reason = rd.comp.sample(wsym)[:200]
                return
            toks = te.eval(root, atoms, 0, len(atoms), 0)
            res = toks[0]
            good = C01.same_value(kind, v, parts, res)
        else:
            enc1 = enc
            exp = {}
            if isinstance(enc, str):
                enc = Shape([Lit(enc)])
            if isinstance(enc, Shape):
                enc, exp = C02.refine_for_reader(it, enc)
            res = it.call(w.function('hszinc.jsonparser', 'parse_embedded_scalar'), [enc], {'version': version})
            good = C02.same_value(kind, v, parts, res, exp, w)
            enc = enc1
        it.ctx.oblige(label + '/requires.read_back_value_is_the_original', z3.BoolVal(bool(good)))
        if not good:
            return
        it.phase = 'redump'
        v2 = back_to_writer(kind, res, v, parts)
        enc2 = it.call(w.function(dmod, 'dump_scalar'), [v2], {'version': version})
        same = _same_out(enc if not isinstance(enc, str) else Shape([Lit(enc)]), enc2 if not isinstance(enc2, str) else Shape([Lit(enc2)]))
        o = it.ctx.oblige(label + '/ensures.second_text_is_character_for_character_the_first', z3.BoolVal(bool(same)))
        if not same:
            o.reason = 'first %r, second %r' % (enc, enc2)
            o.witness = {'kind': 'redump', 'fmt': fmt, 'value_kind': kind, 'ver3': ver3}
        # the other format's writer accepts what this format's reader returned
        other = JD if fmt == 'zinc' else ZD
        if fmt == 'json':
            return          # the ZINC writer needs the escaping contracts: covered from the ZINC side (same value classes)
        it.phase = 'crossdump'
        it.call(w.function(other, 'dump_scalar'), [v2], {'version': version})
        it.ctx.oblige(label + '/ensures.the_other_formats_writer_accepts_the_value_read', z3.BoolVal(True))

    def on_raise(it, e):
        ph = getattr(it, 'phase', '?')
        allowed = ph == 'dump' and e.cls == 'ValueError' and kind == 'datetime'
        o = it.ctx.oblige('%s/raises.none(%s in %s)' % (label, e.cls, ph), z3.BoolVal(bool(allowed)), kind='raises')
        o.reason = 'raises %s%r' % (e.cls, tuple(str(a)[:60] for a in e.args_))
        o.witness = {'kind': 'redump', 'fmt': fmt, 'value_kind': kind, 'ver3': ver3}
    T.explore(w, run, 'redump/%s/%s/ver=%s' % (fmt, kind, ver), allow_raise=on_raise)
    if fmt == 'zinc':
        T.extra_units = rd.units()


# ------------------------------------------------------------------ the exception: a date-time read without a zone name
def t_nozone(T, tier):
    """what the ZINC reader returns for `2020-01-01T00:00:00+01:23` (no zone name) is a tz-aware value whose tzinfo is a fixed offset;
    the writers call timezone_name, which (C17) raises ValueError when no Haystack zone has that offset at that instant."""
    w = World()
    from contracts import zoneinfo as Z
    Z.install(w)
    C17._maps_contracts(w)

    def run(it):
        it.maps = Z.Maps(it)
        # a parsed ISO stamp: any instant, any offset, a fixed-offset tzinfo (no .zone)
        dt = Z.DT(it.ctx.fresh('instant', z3.IntSort()), it.ctx.fresh('utcoffset', z3.IntSort()), Z.TZ('input', zone=it.ctx.fresh('z', smt.KEY), has_zone=z3.BoolVal(False)))
        dt.tz.is_mapped = z3.BoolVal(False)
        it.ctx.witness_fn = lambda model: {'kind': 'nozone'}
        f = w.global_lookup(it, extract.module('hszinc.zoneinfo'), 'timezone_name')
        it.call(f, [dt])
        it.ctx.oblige('redump(date-time read without a zone name)/ensures.a_zone_name_is_found', z3.BoolVal(True))

    def on_raise(it, e):
        o = it.ctx.oblige('redump(date-time read without a zone name)/raises.none(%s)' % e.cls, z3.BoolVal(False), kind='raises')
        o.witness = {'kind': 'nozone'}
    T.explore(w, run, 'nozone', allow_raise=on_raise)
