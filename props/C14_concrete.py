from props import gridhist


def bounded(tier, seed):
    return gridhist.bounded(tier, seed, 'list')


def replay(inp):
    return gridhist.replay(inp, 'list')
