"""C12 - filter literals are data, never code: evaluating a filter has no side effects (grid_filter.py, datatypes.py)."""
import ast
import re

import z3

from hv.vc import smt
from hv.vc.kit import Task
from hv.vc.world import World
from hv.vc.symex import Obligation
from hv.vc.values import (SObj, SVal, SKey, SInt, SBool, ClassRef, Closure, Builtin, AbstractCallable, PyExc, OutOfSubset, LazyDict)
from hv.vc.shapes import Shape, Lit, Field
from hv.lang import automata as A, sre2nfa as S
from hv.frontend import extract
from contracts import kinds as KD, hvalues as HV

HAS_CONCRETE = True
CONCRETE_TIMEOUT = {'quick': 400, 'thorough': 1800}
FMOD = 'hszinc.grid_filter'
V, K = smt.VAL, smt.KEY
TRUSTED_BASE = ['A-py-exec (exec of `def NAME(params=defaults): return EXPR` binds NAME in the given namespace and evaluates only the default-argument '
                'expressions; calling the function evaluates EXPR in the module globals)', 'A-bi-repr (repr of a str over [a-zA-Z0-9_] is that text between quotes)',
                'A-pp (pyparsing element semantics as stated in hv/peg/sem.py, hv/peg/ctx.py; tokens reach a parse action in order, a non-list action result replaces the tokens)', 'E2/E3 automata', 'A-exc/A-lib (the library functions the value constructors call - float, strptime, iso8601.parse_date, b64decode, fromhex, pytz lookups - are pure; listed in props/C09.action_world)']
ASSUMPTIONS = ['names the generated source refers to (_compare, _get_path, NOT_FOUND, id, _consts, _grid, _entity) are the fixed set written in the generator']
EXPLANATION = ('Every piece of source text the generator can emit is proved (per node kind, recursive calls by contract) to lie in a closed token language in '
               'which text taken from the filter appears only as tag names inside quoted strings of the path list; literals of every kind are proved to be '
               'appended to the constants list and referenced as _consts[i], never spliced (no repr/str of a literal reaches the source); the exec wrapper is '
               'proved to define exactly one module global and its finaliser to delete only that name. Grammar side (live pyparsing objects): every token handed to FilterPath is a match of '
               'the tag-name pattern, the operator token is one of six literals, everything accepted as a literal lies inside a specification-derived upper bound (no stray token is a '
               'value), and the value constructors the actions call are executed symbolically in a world without import/open/exec.')

OPS = ('==', '!=', '<', '<=', '>', '>=')
ID_RX = r'[a-z][a-zA-Z0-9_]*'
SAFE_PIECES = [r'\(', r'\)', r' and ', r' or ', r'\(id\(', r'\) !=  id\(NOT_FOUND\)\)', r'\) == id\(NOT_FOUND\)\)', r', ',
               r"_compare\('(==|!=|<|<=|>|>=)', ", r'_consts\[[0-9]+\]',
               r"_get_path\(_grid, _entity, \['" + ID_RX + r"'(, '" + ID_RX + r"')*\]\)", r'CHILD[0-9]+']


def task_names(tier):
    return ['pieces', 'grammar_facts', 'grammar_tokens', 'grammar_values', 'literals', 'wrapper', 'evaluation/getpath', 'evaluation/rowloop', 'evaluation/pipeline']


def run_task(name, tier):
    if name.startswith('evaluation/'):
        # the source handed to exec is exactly `def NAME(_grid, _entity, _consts=_consts):\n  return <pieces>` - nothing else of the filter text, not even as a
        # comment (pipeline); evaluating the generated function touches the grid only through _get_path (subscripts and the id lookup; nothing taken from the filter
        # is ever used as an attribute or called) and Grid.filter's row loop leaves the source grid untouched: the C11 tasks of those functions
        from props import C11
        r = C11.run_task(name.split('/', 1)[1], tier)
        r['task'] = name
        return r
    T = Task(name)
    globals()['t_' + name](T, tier)
    r = T.result()
    r['units'] = r['units'] + getattr(T, 'extra_units', [])
    return r


def safe_language():
    return A.union(*[S.body(rx) for rx in SAFE_PIECES])


def t_pieces(T, tier):
    fa = extract.module('hszinc.filter_ast')
    fm = extract.module(FMOD)
    id_pat = fm.assigns['hs_id'][-1]
    # the tag-name language of the live grammar (hs_id = Regex(<pattern>)), taken from the current source
    id_rx = id_pat.args[0].value if isinstance(id_pat, ast.Call) and id_pat.args and isinstance(id_pat.args[0], ast.Constant) else None
    ok = id_rx is not None
    T._add(Obligation('grammar/hs_id_is_a_regex_literal', 'proved' if ok else 'unknown', 'ast', 0.0, 'ast:hs_id', reason='hs_id = %s' % (ast.unparse(id_pat) if not ok else id_rx), kind='structure'))
    if ok:
        inc, wit = A.included(S.body(id_rx), S.body(ID_RX))
        T._add(Obligation('grammar/tag_names_are_plain_identifiers', 'proved' if inc else 'refuted', 'relang', 0.0, 'e2:hs_id', reason='' if inc else 'tag name %r' % wit, kind='lang'))
    safe = safe_language()
    kinds = ['path', 'has', 'not', 'and', 'or', 'literal'] + ['cmp' + op for op in OPS]
    for kind in kinds:
        w = World()
        plug = HV.install(w)
        children = []

        def rec(it, args, kw, children=children):
            children.append(args[0])
            return ['CHILD%d' % (len(children) - 1)]
        w.contracts[FMOD + '._generate_filter_in_python'] = rec
        w.under_verification = FMOD + '._generate_filter_in_python'
        poison = {}

        def no_text_of_literal(it, v):
            poison['called'] = True
            raise OutOfSubset('the generator asked for the text (str/repr) of a literal value')
        w.hooks['repr'] = no_text_of_literal
        base_str = w.hooks.get('str')

        def str_hook(it, v):
            if isinstance(v, SVal):
                return no_text_of_literal(it, v)
            return base_str(it, v)
        w.hooks['str'] = str_hook

        def fmt_s(it, v):
            # '%s' % list_of_tag_names : str(list) is '[' + ', '.join(repr(x)) + ']' and repr of an identifier-like str is 'x' (A-bi-repr)
            if isinstance(v, list) and v and all(isinstance(x, Shape) for x in v):
                parts = [Lit('[')]
                for i, x in enumerate(v):
                    parts += [Lit(", '" if i else "'")] + list(x.parts) + [Lit("'")]
                parts.append(Lit(']'))
                return Shape(parts)
            if isinstance(v, SVal):
                return no_text_of_literal(it, v)
            return plug.str_of(it, v)
        plug.fmt['s'] = fmt_s
        plug.fmt['r'] = lambda it, v: Lit(repr(v)) if isinstance(v, str) else no_text_of_literal(it, v)
        plug.fmt['d'] = lambda it, v: Lit('%d' % v) if isinstance(v, int) else (_ for _ in ()).throw(OutOfSubset('%d of symbolic'))

        def run(it, kind=kind, children=children):
            del children[:]
            for ax in KD.axioms():
                it.ctx.assume(ax)
            c0, c1 = SVal(it.ctx.fresh('child0', V)), SVal(it.ctx.fresh('child1', V))

            def mk(clsname, **f):
                return SObj(w.class_ref(fa, clsname), dict(f))
            if kind == 'path':
                ids = [Shape([Field('tag%d' % i, S.body(id_rx or ID_RX), 'id', 'tag%d' % i)]) for i in range(2)]
                node = mk('FilterPath', path=ids)
            elif kind in ('has', 'not'):
                node = mk('FilterUnary', op=kind, right=c0)
            elif kind in ('and', 'or'):
                node = mk('FilterBinary', op=kind, left=c0, right=c1)
            elif kind.startswith('cmp'):
                node = mk('FilterBinary', op=kind[3:], left=c0, right=c1)
            else:
                node = c0
            base_isinst = w.hooks['isinstance']

            def isinst(it2, v, cls):
                if isinstance(v, SVal) and isinstance(cls, ClassRef) and cls.name in ('FilterPath', 'FilterBinary', 'FilterUnary'):
                    return False
                return base_isinst(it2, v, cls)
            w.hooks['isinstance'] = isinst
            consts = ['EARLIER']
            it.ctx.witness_fn = lambda model: {'kind': 'codegen', 'node': kind}
            pieces = it.call(w.function(FMOD, '_generate_filter_in_python'), [node, [], consts])
            ok = isinstance(pieces, list)
            it.ctx.oblige('codegen(%s)/ensures.returns_list_of_pieces' % kind, z3.BoolVal(ok))
            if not ok:
                return
            for j, p in enumerate(pieces):
                sh = p if isinstance(p, Shape) else (Shape([Lit(p)]) if isinstance(p, str) else None)
                if sh is None:
                    it.ctx.oblige('codegen(%s)/piece%d/ensures.is_text' % (kind, j), z3.BoolVal(False))
                    continue
                inc, wit = A.included(sh.base(), safe)
                o = it.ctx.oblige('codegen(%s)/piece%d/ensures.within_closed_token_language' % (kind, j), z3.BoolVal(inc))
                if not inc:
                    o.reason = 'emits source text %r' % (wit,)
            if kind == 'literal':
                it.ctx.oblige('codegen(literal)/ensures.literal_is_bound_as_data_not_spliced',
                              z3.BoolVal(len(consts) == 2 and consts[1] is c0 and len(pieces) == 1 and (pieces[0].concrete() if isinstance(pieces[0], Shape) else pieces[0]) == '_consts[1]' and not poison.get('called')))
            else:
                it.ctx.oblige('codegen(%s)/ensures.no_constant_added_by_a_non_literal_node' % kind, z3.BoolVal(consts == ['EARLIER']))
        T.explore(w, run, kind)


def t_grammar_facts(T, tier):
    """operators and keywords reaching node.op come from fixed literals of the grammar, not from the filter text"""
    fm = extract.module(FMOD)
    node = fm.assigns['hs_cmpOp'][-1]
    lits = sorted({n.args[0].value for n in ast.walk(node) if isinstance(n, ast.Call) and getattr(n.func, 'id', '') in ('Literal', 'Keyword') and n.args and isinstance(n.args[0], ast.Constant)})
    ok = set(lits) == set(OPS)
    T._add(Obligation('grammar/hs_cmpOp_is_the_fixed_operator_set', 'proved' if ok else 'refuted', 'ast', 0.0, 'ast:hs_cmpOp', reason='operators %r' % (lits,), kind='structure'))
    for name, want in (('hs_missing', "FilterUnary('not', toks[0])"), ('hs_has', "FilterUnary('has', FilterPath([t for t in toks]))"),
                       ('hs_cmp', 'FilterBinary(toks[1], toks[0], toks[2])')):
        lams = fm.lambdas_in_assign(name)
        got = [ast.unparse(l.body).replace('"', "'") for l in lams]
        T._add(Obligation('grammar/%s_action_uses_fixed_op_or_the_operator_token' % name, 'proved' if got == [want] else 'refuted', 'ast', 0.0, 'ast:' + name,
                          reason='action %r' % (got,), kind='structure'))
    w = World()
    w.note_unit(fm, '_generate_filter_in_python', fm.functions['_generate_filter_in_python'])
    T.world = w


# ------------------------------------------------------------------ where the tokens handed to the node constructors come from (live object graph)
def token_sources(g, _seen=None):
    """the tokens element g can deliver to an enclosing parse action, as an over-approximating list of descriptors:
    ('lang', nfa) a piece of the filter text from that language; ('node', qual) the single result of a parse action (A-pp: a
    non-list result replaces the tokens); ('text', None) a Combine of arbitrary matched text; ('list', None) a Group.
    Returns (descriptors, exactly_one) - exactly_one: every successful match delivers exactly one token."""
    _seen = set() if _seen is None else _seen
    if g.actions:
        return [('node', g.actions[-1].qual)], True
    if g.uid in _seen:
        return [], False
    _seen = _seen | {g.uid}
    k = g.kind
    if k == 'regex':
        return [('lang', S.body(g.pattern))], True
    if k in ('lit', 'keyword'):
        return [('lang', A.lit(g.text))], True
    if k == 'caseless':
        return [('lang', A.lit(g.ret))], True
    if k == 'word1':
        from hv.lang.charset import CS
        return [('lang', A.cset(CS.of(*g.chars)))], True
    if k in ('empty', 'end', 'suppress'):
        return [], False
    if k == 'combine':
        return [('text', None)], True
    if k == 'group':
        return [('list', None)], True
    if k in ('forward', 'pass'):
        return token_sources(g.children[0], _seen)
    if k in ('or', 'first'):
        out, one = [], True
        for c in g.children:
            d, o = token_sources(c, _seen)
            out += d
            one = one and o
        return out, one
    if k in ('opt', 'star', 'plus'):
        d, o = token_sources(g.children[0], _seen)
        return d, False
    if k == 'and':
        out, n = [], 0
        for c in g.children:
            d, o = token_sources(c, _seen)
            out += d
            n += 1 if (d and o) else (2 if d else 0)
        return out, n == 1
    raise OutOfSubset('element kind %s' % k)


def t_grammar_tokens(T, tier):
    """every token that reaches FilterPath(...) is a match of a tag-name pattern inside the identifier language; toks[1] of the comparison
    action is one of the fixed operator literals; read off the pyparsing objects of the running module (not the source text)"""
    from hv.peg import grammar as G
    try:
        ex = G.Extractor(FMOD)
        root = ex.node(ex.mod.hs_filter)
    except G.OutOfGrammarSubset as e:
        T._add(Obligation('grammar-in-subset', 'unknown', 'relang-peg', 0.0, 'oos', reason='outside the E3 grammar subset: %s' % e, kind='subset'))
        return
    idl = S.body(ID_RX)
    n_path, n_cmp = 0, 0
    for g in G.walk(root):
        for a in g.actions:
            src = ast.unparse(a.node)
            if 'FilterPath(' in src:
                n_path += 1
                body = ast.unparse(a.node.body) if isinstance(a.node, ast.Lambda) else src
                shape_ok = body.replace('"', "'") in ('FilterPath([t for t in toks])', "FilterUnary('has', FilterPath([t for t in toks]))")
                T._add(Obligation('grammar_tokens/%s/action_passes_its_tokens_to_FilterPath_unchanged' % a.qual, 'proved' if shape_ok else 'unknown', 'ast', 0.0,
                                  'ast:' + a.qual, reason='' if shape_ok else 'action body %r' % body, kind='structure'))
                bare = _without_actions(g)
                ds, _ = token_sources(bare)
                bad = None
                for kind, x in ds:
                    if kind != 'lang':
                        bad = 'a %s token (%s)' % (kind, x)
                        break
                    inc, wit = A.included(x, idl)
                    if not inc:
                        bad = 'path segment %r' % wit
                        break
                T._add(Obligation('grammar_tokens/%s/every_path_segment_token_is_a_plain_identifier' % a.qual, 'refuted' if bad else ('proved' if ds else 'unknown'), 'relang', 0.0,
                                  'e2:' + a.qual, reason=bad or '', kind='lang', ))
            if 'FilterBinary(toks[1]' in src:
                n_cmp += 1
                bare = _without_actions(g)
                ok, why = False, 'not a sequence'
                if bare.kind == 'and':
                    def flat(x):
                        for c in x.children:
                            if c.kind == 'and' and not c.actions:
                                for y in flat(c):
                                    yield y
                            else:
                                yield c
                    seq = [(c,) + token_sources(c) for c in flat(bare)]
                    seq = [(c, d, o) for c, d, o in seq if d]
                    ok = len(seq) >= 2 and seq[0][2] and seq[1][2] and all(k == 'lang' for k, _ in seq[1][1])
                    why = 'first element does not deliver exactly one token, or the second is not a set of literals'
                    if ok:
                        ops = A.union(*[A.lit(o) for o in OPS])
                        for k, x in seq[1][1]:
                            inc, wit = A.included(x, ops)
                            if not inc:
                                ok, why = False, 'operator token %r' % wit
                T._add(Obligation('grammar_tokens/%s/operator_token_is_one_of_the_fixed_literals' % a.qual, 'proved' if ok else 'refuted', 'relang', 0.0, 'e2:' + a.qual,
                                  reason='' if ok else why, kind='lang'))
    T._add(Obligation('grammar_tokens/cover.path_and_comparison_actions_found(%d,%d)' % (min(n_path, 3), min(n_cmp, 1)), 'proved' if n_path >= 2 and n_cmp >= 1 else 'refuted', 'ast', 0.0, 'cover',
                      reason='FilterPath actions %d, comparison actions %d' % (n_path, n_cmp), kind='vacuity'))
    # every other place a FilterPath / FilterBinary / FilterUnary is built in the module is one of the actions above
    fm = extract.module(FMOD)
    calls = [n for n in ast.walk(fm.tree) if isinstance(n, ast.Call) and getattr(n.func, 'id', '') in ('FilterPath', 'FilterBinary', 'FilterUnary')]
    known = {"FilterPath([t for t in toks])", "FilterBinary(toks[1], toks[0], toks[2])", "FilterUnary('not', toks[0])", "FilterUnary('has', FilterPath([t for t in toks]))",
             'FilterBinary(op, node, operand)'}
    extra = [ast.unparse(c) for c in calls if ast.unparse(c).replace('"', "'") not in known]
    T._add(Obligation('grammar_tokens/no_other_constructor_call_of_filter_nodes_in_the_module', 'proved' if not extra else 'unknown', 'ast', 0.0, 'ast:ctor', reason='; '.join(extra), kind='structure'))
    fb = [ast.unparse(c) for c in ast.walk(fm.tree) if isinstance(c, ast.Call) and getattr(c.func, 'id', '') == '_fold_binary']
    okf = fb and all(x.replace('"', "'") in ("_fold_binary('and', toks)", "_fold_binary('or', toks)") for x in fb)
    T._add(Obligation('grammar_tokens/_fold_binary_is_called_with_a_fixed_operator', 'proved' if okf else 'refuted', 'ast', 0.0, 'ast:fold', reason='; '.join(fb), kind='structure'))
    T.extra_units = [{'function': '%s.hs_filter (pyparsing object graph)' % FMOD, 'file': 'hszinc/grid_filter.py', 'lines': 'module level', 'ast_sha': G.fingerprint(root)}]


def t_grammar_values(T, tier):
    """'a token that is not a valid filter is rejected': everything the literal grammar hs_val accepts (exact PEG semantics of the extracted
    pyparsing objects, collections one level deep) lies inside an upper bound written from the specification - the Haystack literal kinds and
    the documented ZINC extensions, with the tolerated leniencies; the top-level tokens are the fixed set of the filter grammar"""
    from hv.peg import grammar as G
    from props import filtergram as FG, zincread as ZR
    from spec import filter_surface as FS
    try:
        ref = A.concat(FS.rx(FS.WS), FS.lenient_value(1), FS.rx(FS.WS))
        rd = FG.FilterReader(extra_nfas=[ref])
        comp, alg = rd.comp, rd.alg
        sem = rd.to_end(comp.compile_depth(rd.val, {0: 0, 1: 1}))
    except G.OutOfGrammarSubset as e:
        T._add(Obligation('grammar-in-subset', 'unknown', 'relang-peg', 0.0, 'oos', reason='outside the E3 grammar subset: %s' % e, kind='subset'))
        return
    acc = alg.strip(sem.cons)
    X = comp.lang_ctx(ref)
    X.delta[X.start][alg.KI] = X.delta[X.start][alg.KN]          # whatever the character before the literal was
    ZR.oblige_included(T, 'grammar_values/every_text_accepted_as_a_literal_is_a_spelling_of_a_value(upper_bound_from_the_specification,collections_one_level)', FG.rd_adapter(rd), acc, X,
                       witness_kind='filter_literal')
    e, w = alg.is_empty(acc)
    ZR.oblige_fact(T, 'grammar_values/cover.literal_language_nonempty', not e, kind='vacuity')
    # top level: outside hs_val the grammar consumes only the fixed tokens
    allowed_lits = {'(', ')', '->'} | set(OPS)
    allowed_kw = {'not', 'and', 'or'}
    bad = []
    vt = comp.target(rd.val).uid
    seen = set()

    def visit(g):
        if g.uid in seen or g.uid == vt:
            return
        seen.add(g.uid)
        if g.kind == 'forward' and comp.target(g).uid == vt:
            return
        if g.kind == 'lit':
            if g.text not in allowed_lits:
                bad.append('literal %r' % g.text)
        elif g.kind == 'keyword':
            if g.text not in allowed_kw:
                bad.append('keyword %r' % g.text)
        elif g.kind == 'regex':
            inc, wit = A.included(S.body(g.pattern), S.body(ID_RX))
            if not inc:
                bad.append('pattern %r (e.g. %r)' % (g.pattern, wit))
        elif g.kind in ('caseless', 'word1'):
            bad.append('%s token' % g.kind)
        for c in g.children:
            visit(c)
    visit(rd.filter)
    ZR.oblige_fact(T, 'grammar_values/top_level_consumes_only_the_fixed_tokens_and_tag_names', not bad and len(seen) > 10, reason='; '.join(bad[:4]))
    T.extra_units = rd.units()


def t_literals(T, tier):
    """building a literal value has no effect: the constructors the filter's parse actions call (read off the actions' source) are executed
    on arbitrary token texts in a world where only named pure library functions exist (float, strptime, parse_date, b64decode, fromhex, the
    zone table); anything else they might call - a codec or module looked up by name, open, exec - is outside the world and leaves the
    obligation undischarged; module state written on the way is a frame violation"""
    from props import C09
    fm = extract.module(FMOD)
    dt = extract.module('hszinc.datatypes')
    called = set()
    for n in ast.walk(fm.tree):
        if isinstance(n, ast.Lambda) or (isinstance(n, ast.FunctionDef) and n.name in ('_parse_time', '_parse_datetime')):
            for c in ast.walk(n):
                if isinstance(c, ast.Call) and isinstance(c.func, ast.Name) and c.func.id in dt.classes:
                    called.add(c.func.id)
    T._add(Obligation('literals/cover.value_constructors_found_in_the_parse_actions(%s)' % ','.join(sorted(called)), 'proved' if {'XStr', 'Bin', 'Uri', 'Ref', 'Quantity', 'Coordinate'} <= called else 'refuted',
                      'ast', 0.0, 'cover', kind='vacuity'))
    tok = lambda name, rx=None: Shape([Field(name, S.body(rx) if rx else A.sigma_star(), 'token', name)])
    ARGS = {'XStr': lambda it: [tok('enc', r'[a-zA-Z0-9_]+'), tok('data')], 'Bin': lambda it: [tok('mime')], 'Uri': lambda it: [tok('uri')],
            'Ref': lambda it: [tok('name'), tok('dis') if it.ctx.branch(it.ctx.fresh('has_dis', z3.BoolSort())) else None],
            'Quantity': lambda it: [SVal(it.ctx.fresh('number', V)), tok('unit')], 'Coordinate': lambda it: [SVal(it.ctx.fresh('lat', V)), SVal(it.ctx.fresh('lng', V))]}
    for cname in sorted(called):
        w, plug = C09.action_world()
        mk = ARGS.get(cname)
        if mk is None:
            T._add(Obligation('literals/%s/in-subset' % cname, 'unknown', 'hv', 0.0, 'oos', reason='no argument model for constructor %s' % cname, kind='subset'))
            continue

        def run(it, cname=cname, mk=mk):
            for ax in KD.axioms():
                it.ctx.assume(ax)
            args = mk(it)
            w.globals_written.clear()
            cls = w.class_ref(dt, cname)
            it.call(cls, args, {})
            wr = sorted('%s.%s' % k for k in w.globals_written)
            it.ctx.oblige('literals/%s/frame.constructing_the_value_writes_no_module_state%s' % (cname, '(%s)' % ','.join(wr) if wr else ''), z3.BoolVal(not wr))

        def on_raise(it, e, cname=cname):
            wr = sorted('%s.%s' % k for k in w.globals_written)
            it.ctx.oblige('literals/%s/raises.rejecting_the_text_writes_no_module_state(%s)' % (cname, e.cls), z3.BoolVal(not wr), kind='raises')
        T.explore(w, run, 'literals/' + cname, allow_raise=on_raise)


class _Bare(object):
    """view of a grammar node without its own parse actions (what the action receives)"""

    def __init__(self, g):
        self.__dict__.update(g.__dict__)
        self.actions = []


def _without_actions(g):
    return _Bare(g)


def t_wrapper(T, tier):
    """_FnWrapper: exec defines exactly one module global (its own name); __del__ deletes only that name; get returns it"""
    w = World()
    KD.install(w)
    G = LazyDict()
    G['_get_path'] = 'F1'
    G['other'] = 'X'
    w.builtins['globals'] = Builtin('globals', lambda it, a, k: G)

    def exec_(it, args, kw):
        src, g, ns = args[0], args[1], args[2] if len(args) > 2 else args[1]
        m = re.match(r'def ([A-Za-z_][A-Za-z0-9_]*)\(', src) if isinstance(src, str) else None
        if not m:
            raise OutOfSubset('exec of something that is not a def')
        ns[m.group(1)] = ('FUNCTION', src, ns.get('_consts'), g)
        return None
    w.builtins['exec'] = Builtin('exec', exec_)

    def run(it):
        cls = w.class_ref(extract.module(FMOD), '_FnWrapper')
        consts = ['C']
        before = dict(G)
        wr = it.call(cls, ['_gen_hsfilter_7', 'def _gen_hsfilter_7(_grid, _entity, _consts=_consts):\n  return True', consts])
        added = {k: v for k, v in G.items() if k not in before}
        it.ctx.oblige('_FnWrapper.__init__/ensures.defines_exactly_its_own_global', z3.BoolVal(list(added) == ['_gen_hsfilter_7'] and all(G[k] == before[k] for k in before)))
        f = added.get('_gen_hsfilter_7')
        it.ctx.oblige('_FnWrapper.__init__/ensures.function_globals_are_the_module_and_literals_bound', z3.BoolVal(bool(f) and f[2] is consts and f[3] is G))
        got = it.call_method(wr, 'get', [])
        it.ctx.oblige('_FnWrapper.get/ensures.returns_its_function', z3.BoolVal(got is f))
        wr2 = it.call(cls, ['_gen_hsfilter_8', 'def _gen_hsfilter_8(_grid, _entity, _consts=_consts):\n  return False', []])
        it.call_method(wr, '__del__', [])
        it.ctx.oblige('_FnWrapper.__del__/ensures.removes_only_its_own_name', z3.BoolVal('_gen_hsfilter_7' not in G and '_gen_hsfilter_8' in G and all(G[k] == before[k] for k in before)))
        it.ctx.oblige('_FnWrapper.get/ensures.other_wrapper_unaffected', z3.BoolVal(it.call_method(wr2, 'get', [])[1].startswith('def _gen_hsfilter_8')))
    T.explore(w, run, '_FnWrapper')
