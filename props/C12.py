"""C12 - filter literals are data, never code: evaluating a filter has no side effects (grid_filter.py, datatypes.py)."""
import ast
import re

import z3

from hv.vc import smt
from hv.vc.kit import Task
from hv.vc.world import World
from hv.vc.symex import Obligation
from hv.vc.values import (SObj, SVal, SKey, SInt, SBool, ClassRef, Closure, Builtin, AbstractCallable, PyExc, OutOfSubset, LazyDict)
from hv.vc.shapes import Shape, Lit, Field
from hv.lang import automata as A, sre2nfa as S
from hv.frontend import extract
from contracts import kinds as KD, hvalues as HV

HAS_CONCRETE = True
CONCRETE_TIMEOUT = {'quick': 400, 'thorough': 1800}
FMOD = 'hszinc.grid_filter'
V, K = smt.VAL, smt.KEY
TRUSTED_BASE = ['A-py-exec (exec of `def NAME(params=defaults): return EXPR` binds NAME in the given namespace and evaluates only the default-argument '
                'expressions; calling the function evaluates EXPR in the module globals)', 'A-bi-repr (repr of a str over [a-zA-Z0-9_] is that text between quotes)',
                'A-pp (a token sequence that is not a filter fails parseAll: decided by the bounded run)', 'E2 automata']
ASSUMPTIONS = ['names the generated source refers to (_compare, _get_path, NOT_FOUND, id, _consts, _grid, _entity) are the fixed set written in the generator']
EXPLANATION = ('Every piece of source text the generator can emit is proved (per node kind, recursive calls by contract) to lie in a closed token language in '
               'which text taken from the filter appears only as tag names inside quoted strings of the path list; literals of every kind are proved to be '
               'appended to the constants list and referenced as _consts[i], never spliced (no repr/str of a literal reaches the source); the exec wrapper is '
               'proved to define exactly one module global and its finaliser to delete only that name.')

OPS = ('==', '!=', '<', '<=', '>', '>=')
ID_RX = r'[a-z][a-zA-Z0-9_]*'
SAFE_PIECES = [r'\(', r'\)', r' and ', r' or ', r'\(id\(', r'\) !=  id\(NOT_FOUND\)\)', r'\) == id\(NOT_FOUND\)\)', r', ',
               r"_compare\('(==|!=|<|<=|>|>=)', ", r'_consts\[[0-9]+\]',
               r"_get_path\(_grid, _entity, \['" + ID_RX + r"'(, '" + ID_RX + r"')*\]\)", r'CHILD[0-9]+']


def task_names(tier):
    return ['pieces', 'grammar_facts', 'wrapper']


def run_task(name, tier):
    T = Task(name)
    globals()['t_' + name](T, tier)
    return T.result()


def safe_language():
    return A.union(*[S.body(rx) for rx in SAFE_PIECES])


def t_pieces(T, tier):
    fa = extract.module('hszinc.filter_ast')
    fm = extract.module(FMOD)
    id_pat = fm.assigns['hs_id'][-1]
    # the tag-name language of the live grammar (hs_id = Regex(<pattern>)), taken from the current source
    id_rx = id_pat.args[0].value if isinstance(id_pat, ast.Call) and id_pat.args and isinstance(id_pat.args[0], ast.Constant) else None
    ok = id_rx is not None
    T._add(Obligation('grammar/hs_id_is_a_regex_literal', 'proved' if ok else 'unknown', 'ast', 0.0, 'ast:hs_id', reason='hs_id = %s' % (ast.unparse(id_pat) if not ok else id_rx), kind='structure'))
    if ok:
        inc, wit = A.included(S.body(id_rx), S.body(ID_RX))
        T._add(Obligation('grammar/tag_names_are_plain_identifiers', 'proved' if inc else 'refuted', 'relang', 0.0, 'e2:hs_id', reason='' if inc else 'tag name %r' % wit, kind='lang'))
    safe = safe_language()
    kinds = ['path', 'has', 'not', 'and', 'or', 'literal'] + ['cmp' + op for op in OPS]
    for kind in kinds:
        w = World()
        plug = HV.install(w)
        children = []

        def rec(it, args, kw, children=children):
            children.append(args[0])
            return ['CHILD%d' % (len(children) - 1)]
        w.contracts[FMOD + '._generate_filter_in_python'] = rec
        w.under_verification = FMOD + '._generate_filter_in_python'
        poison = {}

        def no_text_of_literal(it, v):
            poison['called'] = True
            raise OutOfSubset('the generator asked for the text (str/repr) of a literal value')
        w.hooks['repr'] = no_text_of_literal
        base_str = w.hooks.get('str')

        def str_hook(it, v):
            if isinstance(v, SVal):
                return no_text_of_literal(it, v)
            return base_str(it, v)
        w.hooks['str'] = str_hook

        def fmt_s(it, v):
            # '%s' % list_of_tag_names : str(list) is '[' + ', '.join(repr(x)) + ']' and repr of an identifier-like str is 'x' (A-bi-repr)
            if isinstance(v, list) and v and all(isinstance(x, Shape) for x in v):
                parts = [Lit('[')]
                for i, x in enumerate(v):
                    parts += [Lit(", '" if i else "'")] + list(x.parts) + [Lit("'")]
                parts.append(Lit(']'))
                return Shape(parts)
            if isinstance(v, SVal):
                return no_text_of_literal(it, v)
            return plug.str_of(it, v)
        plug.fmt['s'] = fmt_s
        plug.fmt['r'] = lambda it, v: Lit(repr(v)) if isinstance(v, str) else no_text_of_literal(it, v)
        plug.fmt['d'] = lambda it, v: Lit('%d' % v) if isinstance(v, int) else (_ for _ in ()).throw(OutOfSubset('%d of symbolic'))

        def run(it, kind=kind, children=children):
            del children[:]
            for ax in KD.axioms():
                it.ctx.assume(ax)
            c0, c1 = SVal(it.ctx.fresh('child0', V)), SVal(it.ctx.fresh('child1', V))

            def mk(clsname, **f):
                return SObj(w.class_ref(fa, clsname), dict(f))
            if kind == 'path':
                ids = [Shape([Field('tag%d' % i, S.body(id_rx or ID_RX), 'id', 'tag%d' % i)]) for i in range(2)]
                node = mk('FilterPath', path=ids)
            elif kind in ('has', 'not'):
                node = mk('FilterUnary', op=kind, right=c0)
            elif kind in ('and', 'or'):
                node = mk('FilterBinary', op=kind, left=c0, right=c1)
            elif kind.startswith('cmp'):
                node = mk('FilterBinary', op=kind[3:], left=c0, right=c1)
            else:
                node = c0
            base_isinst = w.hooks['isinstance']

            def isinst(it2, v, cls):
                if isinstance(v, SVal) and isinstance(cls, ClassRef) and cls.name in ('FilterPath', 'FilterBinary', 'FilterUnary'):
                    return False
                return base_isinst(it2, v, cls)
            w.hooks['isinstance'] = isinst
            consts = ['EARLIER']
            it.ctx.witness_fn = lambda model: {'kind': 'codegen', 'node': kind}
            pieces = it.call(w.function(FMOD, '_generate_filter_in_python'), [node, [], consts])
            ok = isinstance(pieces, list)
            it.ctx.oblige('codegen(%s)/ensures.returns_list_of_pieces' % kind, z3.BoolVal(ok))
            if not ok:
                return
            for j, p in enumerate(pieces):
                sh = p if isinstance(p, Shape) else (Shape([Lit(p)]) if isinstance(p, str) else None)
                if sh is None:
                    it.ctx.oblige('codegen(%s)/piece%d/ensures.is_text' % (kind, j), z3.BoolVal(False))
                    continue
                inc, wit = A.included(sh.base(), safe)
                o = it.ctx.oblige('codegen(%s)/piece%d/ensures.within_closed_token_language' % (kind, j), z3.BoolVal(inc))
                if not inc:
                    o.reason = 'emits source text %r' % (wit,)
            if kind == 'literal':
                it.ctx.oblige('codegen(literal)/ensures.literal_is_bound_as_data_not_spliced',
                              z3.BoolVal(len(consts) == 2 and consts[1] is c0 and len(pieces) == 1 and (pieces[0].concrete() if isinstance(pieces[0], Shape) else pieces[0]) == '_consts[1]' and not poison.get('called')))
            else:
                it.ctx.oblige('codegen(%s)/ensures.no_constant_added_by_a_non_literal_node' % kind, z3.BoolVal(consts == ['EARLIER']))
        T.explore(w, run, kind)


def t_grammar_facts(T, tier):
    """operators and keywords reaching node.op come from fixed literals of the grammar, not from the filter text"""
    fm = extract.module(FMOD)
    node = fm.assigns['hs_cmpOp'][-1]
    lits = sorted({n.args[0].value for n in ast.walk(node) if isinstance(n, ast.Call) and getattr(n.func, 'id', '') in ('Literal', 'Keyword') and n.args and isinstance(n.args[0], ast.Constant)})
    ok = set(lits) == set(OPS)
    T._add(Obligation('grammar/hs_cmpOp_is_the_fixed_operator_set', 'proved' if ok else 'refuted', 'ast', 0.0, 'ast:hs_cmpOp', reason='operators %r' % (lits,), kind='structure'))
    for name, want in (('hs_missing', "FilterUnary('not', toks[0])"), ('hs_has', "FilterUnary('has', FilterPath([t for t in toks]))"),
                       ('hs_cmp', 'FilterBinary(toks[1], toks[0], toks[2])')):
        lams = fm.lambdas_in_assign(name)
        got = [ast.unparse(l.body).replace('"', "'") for l in lams]
        T._add(Obligation('grammar/%s_action_uses_fixed_op_or_the_operator_token' % name, 'proved' if got == [want] else 'refuted', 'ast', 0.0, 'ast:' + name,
                          reason='action %r' % (got,), kind='structure'))
    w = World()
    w.note_unit(fm, '_generate_filter_in_python', fm.functions['_generate_filter_in_python'])
    T.world = w


def t_wrapper(T, tier):
    """_FnWrapper: exec defines exactly one module global (its own name); __del__ deletes only that name; get returns it"""
    w = World()
    KD.install(w)
    G = LazyDict()
    G['_get_path'] = 'F1'
    G['other'] = 'X'
    w.builtins['globals'] = Builtin('globals', lambda it, a, k: G)

    def exec_(it, args, kw):
        src, g, ns = args[0], args[1], args[2] if len(args) > 2 else args[1]
        m = re.match(r'def ([A-Za-z_][A-Za-z0-9_]*)\(', src) if isinstance(src, str) else None
        if not m:
            raise OutOfSubset('exec of something that is not a def')
        ns[m.group(1)] = ('FUNCTION', src, ns.get('_consts'), g)
        return None
    w.builtins['exec'] = Builtin('exec', exec_)

    def run(it):
        cls = w.class_ref(extract.module(FMOD), '_FnWrapper')
        consts = ['C']
        before = dict(G)
        wr = it.call(cls, ['_gen_hsfilter_7', 'def _gen_hsfilter_7(_grid, _entity, _consts=_consts):\n  return True', consts])
        added = {k: v for k, v in G.items() if k not in before}
        it.ctx.oblige('_FnWrapper.__init__/ensures.defines_exactly_its_own_global', z3.BoolVal(list(added) == ['_gen_hsfilter_7'] and all(G[k] == before[k] for k in before)))
        f = added.get('_gen_hsfilter_7')
        it.ctx.oblige('_FnWrapper.__init__/ensures.function_globals_are_the_module_and_literals_bound', z3.BoolVal(bool(f) and f[2] is consts and f[3] is G))
        got = it.call_method(wr, 'get', [])
        it.ctx.oblige('_FnWrapper.get/ensures.returns_its_function', z3.BoolVal(got is f))
        wr2 = it.call(cls, ['_gen_hsfilter_8', 'def _gen_hsfilter_8(_grid, _entity, _consts=_consts):\n  return False', []])
        it.call_method(wr, '__del__', [])
        it.ctx.oblige('_FnWrapper.__del__/ensures.removes_only_its_own_name', z3.BoolVal('_gen_hsfilter_7' not in G and '_gen_hsfilter_8' in G and all(G[k] == before[k] for k in before)))
        it.ctx.oblige('_FnWrapper.get/ensures.other_wrapper_unaffected', z3.BoolVal(it.call_method(wr2, 'get', [])[1].startswith('def _gen_hsfilter_8')))
    T.explore(w, run, '_FnWrapper')
