"""Shared machinery for C02 / C05: jsonparser.parse_embedded_scalar symbolically executed on shape-typed inputs."""
import z3

from hv.vc import smt
from hv.vc.world import World
from hv.vc.values import SObj, SVal, ClassRef, Builtin, AbstractCallable, PyExc, OutOfSubset
from hv.vc.shapes import Shape, Lit, Field, Misaligned, SplitAmbiguous
from hv.lang import automata as A, sre2nfa as S
from hv.frontend import extract
from contracts import hvalues as HV, kinds as KD

MOD = 'hszinc.jsonparser'
V = smt.VAL


def L(rx):
    return S.body(rx)


def F(name, rx_or_kind, kind=None, den=None):
    if rx_or_kind in HV.LANG or rx_or_kind == 'tzname':
        return HV.field(name, rx_or_kind, den=den if den is not None else name)
    return Field(name, L(rx_or_kind), kind or name, den if den is not None else name)


class Conv(object):
    """result of a conversion lemma: int()/float() of fields, or a constructed date/time"""

    def __init__(self, what, *args):
        self.what, self.args = what, args

    def __eq__(self, o):
        return isinstance(o, Conv) and self.what == o.what and len(self.args) == len(o.args) and all(_same(a, b) for a, b in zip(self.args, o.args))

    def __hash__(self):
        return hash(self.what)

    def __repr__(self):
        return 'Conv(%s, %s)' % (self.what, ', '.join(map(repr, self.args)))


def _same(a, b):
    if isinstance(a, Shape) and isinstance(b, Shape):
        return same_shape(a, b)
    if isinstance(a, Field) and isinstance(b, Field):
        return a is b
    return a is b or (type(a) is type(b) and not isinstance(a, (Shape, Field)) and a == b)


def same_shape(a, b):
    if not (isinstance(a, Shape) and isinstance(b, Shape)) or len(a.parts) != len(b.parts):
        return False
    for p, q in zip(a.parts, b.parts):
        if isinstance(p, Lit) != isinstance(q, Lit):
            return False
        if isinstance(p, Lit):
            if p.text != q.text:
                return False
        elif p is not q:
            return False
    return True


def world():
    w = World()
    plug = HV.install(w)
    w.global_overrides[('hszinc.datatypes', 'PINT_AVAILABLE')] = False
    w.global_overrides[('hszinc.datatypes', 'MODE_PINT')] = False
    w.class_ctor['Quantity'] = lambda it, cls, args, kw: SObj(HV.cls(w, 'BasicQuantity'), {'value': args[0], 'unit': args[1] if len(args) > 1 else kw.get('unit')})
    for name in ('Uri', 'Bin'):
        w.class_ctor[name] = (lambda name: lambda it, cls, args, kw: HV.TaggedShape((args[0].parts if isinstance(args[0], Shape) else [Lit(args[0])]), name))(name)

    def xstr_ctor(it, cls, args, kw):
        if len(args) != 2:
            it.raise_('TypeError', 'XStr() takes 2 positional arguments but %d were given' % len(args))
        return SObj(cls, {'encoding': args[0], 'data': args[1]})       # decoding of hex/b64 payloads: A-bi-base64 (inverse of data_to_string)
    w.class_ctor['XStr'] = xstr_ctor
    w.class_ctor['datetime.date'] = lambda it, cls, args, kw: Conv('date', kw.get('year'), kw.get('month'), kw.get('day')) if not args else Conv('date', *args)
    w.class_ctor['datetime.time'] = lambda it, cls, args, kw: Conv('time', kw.get('hour'), kw.get('minute'), kw.get('second'), kw.get('microsecond'))

    def conv_float(it, sh):
        # A-fl(4): float() is total on the decimal-number language and returns the number the text spells
        ok, wit = A.included(_lang(sh), L(r'[+-]?(\d+(\.\d*)?|\.\d+)([eE][+-]?\d+)?'))
        if not ok:
            raise ConversionFails('float', wit)
        return Conv('float', sh)

    def conv_int(it, sh):
        ok, wit = A.included(_lang(sh), L(r'[+-]?\d+'))
        if not ok:
            raise ConversionFails('int', wit)
        return Conv('int', sh)
    plug.conversions[('float', '*')] = conv_float
    plug.conversions[('int', '*')] = conv_int
    w.hooks['builtin_float'] = lambda it, args, kw: plug.convert(it, 'float', args)
    w.hooks['int'] = lambda it, args, kw: plug.convert(it, 'int', args)
    # iso8601.parse_date / zoneinfo.timezone / astimezone by contract (A-tz; C17)
    w.global_overrides[(MOD, 'iso8601')] = World.Namespace('iso8601', {'parse_date': Builtin('iso8601.parse_date', lambda it, a, k: ParsedDT(a[0]))})
    w.contracts['hszinc.zoneinfo.timezone'] = lambda it, a, k: Conv('tz', a[0])
    base_ga = w.hooks['val_getattr']

    def ga(it, obj, name):
        if isinstance(obj, ParsedDT) and name == 'astimezone':
            return AbstractCallable('astimezone', lambda it2, a, k: Conv('astimezone', obj.text, a[0]))
        return base_ga(it, obj, name)
    w.hooks['val_getattr'] = ga
    # str.ljust / slicing on digit strings of known length
    return w, plug


class ParsedDT(Conv):
    def __init__(self, text):
        Conv.__init__(self, 'iso8601', text)
        self.text = text


class ConversionFails(OutOfSubset):
    def __init__(self, what, witness):
        OutOfSubset.__init__(self, '%s() can raise ValueError, e.g. on %r' % (what, witness))
        self.what, self.witness = what, witness


def _lang(sh):
    autos = [sh.base()] + list(sh.cons)
    if len(autos) == 1 and not sh.neg:
        return autos[0]
    # constrained language as an NFA: product via DFA
    from hv.vc.shapes import _dfa_product_nfa
    alpha = A.Alphabet(autos + list(sh.neg))
    ds = [A.determinize(a, alpha) for a in autos] + [A.complement(A.determinize(n, alpha)) for n in sh.neg]
    cur = ds[0]
    for d in ds[1:]:
        nfa = _dfa_product_nfa(alpha, cur, d)
        cur = A.determinize(nfa, alpha)
    return _dfa_product_nfa(alpha, cur, cur)


def run_reader(it, w, shape_or_obj, ver3=True):
    version = w.global_lookup(it, extract.module('hszinc.version'), 'VER_3_0' if ver3 else 'VER_2_0')
    f = w.function(MOD, 'parse_embedded_scalar')
    return it.call(f, [shape_or_obj], {'version': version})


def result_matches(res, exp, w):
    """structural comparison of the decoded value with the expected denotation"""
    k = exp[0]
    if k == 'none':
        return res is None
    if k == 'bool':
        return res is exp[1]
    if k == 'singleton':
        return isinstance(res, SObj) and res.cls.name == exp[1]
    if k == 'str':
        return isinstance(res, Shape) and not isinstance(res, HV.TaggedShape) and same_shape(res, exp[1])
    if k in ('uri', 'bin'):
        return isinstance(res, HV.TaggedShape) and res.pycls == ('Uri' if k == 'uri' else 'Bin') and same_shape(Shape(res.parts), exp[1])
    if k == 'num':
        return res == Conv('float', exp[1]) or (exp[1] in ('inf', '-inf', 'nan') and isinstance(res, float) and repr(res) == exp[1])
    if k == 'qty':
        return isinstance(res, SObj) and res.cls.name == 'BasicQuantity' and res.fields['value'] == Conv('float', exp[1]) and _same(res.fields['unit'], exp[2])
    if k == 'ref':
        if not (isinstance(res, SObj) and res.cls.name == 'Ref' and _same(res.fields['name'], exp[1])):
            return False
        if exp[2] is None:
            return res.fields['value'] is None and res.fields['has_value'] is False
        return _same(res.fields['value'], exp[2]) and res.fields['has_value'] is True
    if k == 'date':
        return res == Conv('date', Conv('int', exp[1]), Conv('int', exp[2]), Conv('int', exp[3]))
    if k == 'time':
        h, m, s, us = exp[1:]
        sec = Conv('int', s) if s is not None else 0
        usv = 0 if us is None else Conv('int', us)
        return res == Conv('time', Conv('int', h), Conv('int', m), sec, usv)
    if k == 'datetime':
        if exp[2] is None:
            return isinstance(res, ParsedDT) and _same(res.text, exp[1])
        return res == Conv('astimezone', exp[1], Conv('tz', exp[2]))
    if k == 'coord':
        return isinstance(res, SObj) and res.cls.name == 'Coordinate' and res.fields['latitude'] == Conv('float', exp[1]) and res.fields['longitude'] == Conv('float', exp[2])
    if k == 'xstr':
        return isinstance(res, SObj) and res.cls.name == 'XStr' and _same(res.fields['encoding'], exp[1]) and _same(res.fields['data'], exp[2])
    if k == 'list':
        return isinstance(res, list) and len(res) == len(exp[1]) and all(result_matches(r, e, w) for r, e in zip(res, exp[1]))
    if k == 'dict':
        return isinstance(res, dict) and list(res.keys()) == [kk for kk, _ in exp[1]] and all(result_matches(res[kk], e, w) for kk, e in exp[1])
    return False


def sh(*parts):
    return Shape([Lit(p) if isinstance(p, str) else p for p in parts])


# ---------------------------------------------------------------- the spelling table (reference encodings, Appendix B)
def spellings(include_core=True):
    """-> list of (name, builder) ; builder() -> (input, expected, only_v3)"""
    T = []

    def add(name, fn, v3=False):
        T.append((name, fn, v3))
    add('null', lambda: (None, ('none',)))
    add('true', lambda: (True, ('bool', True)))
    add('false', lambda: (False, ('bool', False)))
    add('marker', lambda: (sh('m:'), ('singleton', 'MarkerType')))
    add('na', lambda: (sh('z:'), ('singleton', 'NAType')), v3=True)
    add('remove2', lambda: (sh('x:'), ('singleton', 'RemoveType')))
    add('remove3', lambda: (sh('-:'), ('singleton', 'RemoveType')))

    def num_plain():
        f = F('num', r'-?\d+(\.\d+)?([eE][+-]?\d+)?', 'numtext')
        return sh('n:', f), ('num', Shape([f]))
    add('number', num_plain)

    def num_fmt6():
        f = HV.field('fmt6', 'fmt6', den='x')
        return sh('n:', f), ('num', Shape([f]))
    add('number_writer_form', num_fmt6)
    for lit, c in (('INF', 'inf'), ('-INF', '-inf'), ('NaN', 'nan')):
        add('number_' + lit, (lambda lit=lit, c=c: (sh('n:' + lit), ('num', c))))

    def qty():
        f = F('num', r'-?\d+(\.\d+)?([eE][+-]?\d+)?', 'numtext')
        u = HV.field('unit', 'unit', den='unit')
        return sh('n:', f, ' ', u), ('qty', Shape([f]), Shape([u]))
    add('quantity', qty)

    def s_pref():
        f = HV.field('text', 'text')
        return sh('s:', f), ('str', Shape([f]))
    add('string_prefixed', s_pref)

    def s_bare():
        # an unprefixed string: any text whose second character is not ':'
        f = Field('text', L(r'(?s:(.?|.[^:].*))'), 'text', 'text')
        return sh(f), ('str', Shape([f]))
    if include_core:
        add('string_unprefixed', s_bare)

    def uri():
        f = HV.field('text', 'text')
        return sh('u:', f), ('uri', Shape([f]))
    add('uri', uri)

    def bin_():
        f = HV.field('text', 'text')
        return sh('b:', f), ('bin', Shape([f]))
    add('bin', bin_)

    def ref0():
        n = HV.field('name', 'refname')
        return sh('r:', n), ('ref', Shape([n]), None)
    add('ref', ref0)

    def ref1():
        n = HV.field('name', 'refname')
        d = HV.field('dis', 'text')
        return sh('r:', n, ' ', d), ('ref', Shape([n]), Shape([d]))
    add('ref_with_display', ref1)

    def date():
        y, m, d = F('year', r'\d{4}', 'digits'), F('month', r'\d{2}', 'digits'), F('day', r'\d{2}', 'digits')
        return sh('d:', y, '-', m, '-', d), ('date', Shape([y]), Shape([m]), Shape([d]))
    add('date', date)

    def time(secs, frac):
        def b():
            h, m = F('hour', r'\d{2}', 'digits'), F('minute', r'\d{2}', 'digits')
            parts = ['h:', h, ':', m]
            s = us = None
            if secs:
                s = F('second', r'\d{2}', 'digits')
                parts += [':', s]
                if frac:
                    k1 = min(frac, 6)
                    ds = [Field('frac', L(r'\d{%d}' % k1), 'digits', 'frac', fixed_len=k1)]
                    if frac > 6:
                        ds.append(Field('frac_rest', L(r'\d{%d}' % (frac - 6)), 'digits', 'frac_rest', fixed_len=frac - 6))
                    parts += ['.'] + ds
                    us = Shape(ds[:1] + ([Lit('0' * (6 - frac))] if frac < 6 else []))     # microseconds: the fraction cut/padded to 6 digits
            return sh(*parts), ('time', Shape([h]), Shape([m]), Shape([s]) if s else None, us)
        return b
    add('time', time(True, 0))
    add('time_with_microseconds', time(True, 6))
    if include_core:
        add('time_without_seconds', time(False, 0))
        add('time_with_milliseconds', time(True, 3))
        add('time_with_nanoseconds', time(True, 9))

    def dt(zone):
        def b():
            iso = Field('iso', L(r'\d{4}-\d{2}-\d{2}T\d{2}:\d{2}:\d{2}(\.\d+)?(Z|[+-]\d{2}:\d{2})'), 'iso_datetime', 'iso')
            if zone:
                z = Field('tz', L(r'[A-Z][A-Za-z0-9_+\-]*'), 'tzname', 'tz')      # any zone name of the reference lexical form
                return sh('t:', iso, ' ', z), ('datetime', Shape([iso]), Shape([z]))
            return sh('t:', iso), ('datetime', Shape([iso]), None)
        return b
    add('datetime_with_zone', dt(True))
    if include_core:
        add('datetime_without_zone', dt(False))

    def coord():
        la, lo = F('lat', r'-?\d+(\.\d+)?', 'numtext'), F('lng', r'-?\d+(\.\d+)?', 'numtext')
        return sh('c:', la, ',', lo), ('coord', Shape([la]), Shape([lo]))
    add('coord', coord)

    def xstr():
        e = HV.field('enc', 'xtype')
        d = HV.field('data', 'text')
        return sh('x:', e, ':', d), ('xstr', Shape([e]), Shape([d]))
    add('xstr', xstr, v3=True)
    return T
