"""Token structure and parse actions of the ZINC reader on shape-typed input (C01 / C03 / C08 / C09).

The input is a sequence of atoms (literal characters, fields ranging over regular languages).  For a grammar node g
and atoms[i:j], `consumes` asks E3 whether g - for EVERY string of the shape and every continuation in the follow
language - consumes exactly those atoms; because the compiled semantics is a function of the input, the way the
sub-expressions share the atoms is then forced, and is found by asking the same question for the children.  The
tokens are the consumed sub-shapes; each node's parse actions (the real lambdas / functions, located in the source
by the extraction) are executed on them by E1."""
import z3

from hv.vc.values import Closure, OutOfSubset, PyExc, Sym
from hv.vc.shapes import Shape, Lit, Field
from hv.lang import automata as A
from hv.peg import marked as M
from hv.frontend import extract

MOD = 'hszinc.zincparser'


class Unaligned(OutOfSubset):
    """the token boundaries of the grammar do not fall on atom boundaries of the shape uniformly"""

    def __init__(self, msg, witness=None):
        OutOfSubset.__init__(self, msg)
        self.witness = witness


class CaseVariant(Sym):
    """a token known only up to letter case (caseless literals return their own spelling): .upper()/.lower() are those of
    the consumed text"""

    def __init__(self, shape):
        self.orig = shape


class TokList(list):
    """what a parse action receives (pyparsing ParseResults used as a list; A-pp)"""

    def asList(self):
        return [x.asList() if isinstance(x, TokList) else x for x in self]

    as_list = asList


def atoms_of(shape):
    out = []
    for p in shape.parts:
        if isinstance(p, Lit):
            out += [Lit(c) for c in p.text]
        else:
            out.append(p)
    return out


class TokEval(object):
    def __init__(self, rd, it, world, depth, follow):
        """follow: hv.lang NFA of what may come after the value (must be in the reader's alphabet)"""
        self.rd, self.it, self.w = rd, it, world
        self.comp, self.alg = rd.comp, rd.alg
        self.depth = depth
        self.follow = follow
        self._lang = {}
        self._sem = {}
        self.executed = []        # action qualnames executed

    # ---- languages
    def lang(self, atoms, i, j, tail=False):
        parts = [a.nfa() for a in atoms[i:j]]
        if tail:
            parts.append(self.follow)
        return A.concat(*parts) if parts else A.epsilon()

    def sem(self, g, depth):
        k = (g.uid, depth)
        if k not in self._sem:
            self._sem[k] = self.comp.compile_depth(g, depth) if g.kind != 'forward' else self.comp.compile_depth(g, depth)
        return self._sem[k]

    def consumes(self, g, atoms, i, j, depth):
        s = self.sem(g, depth)
        X = self.comp.lang(A.concat(self.lang(atoms, i, j), A.mark(M.END), self.lang(atoms, j, len(atoms), tail=True)))
        C = self.alg.strip_keep_end(s.cons)
        ok, w = self.alg.included(X, C)
        return ok, w

    def fails(self, g, atoms, i, depth):
        s = self.sem(g, depth)
        X = self.comp.lang(self.lang(atoms, i, len(atoms), tail=True))
        ok, w = self.alg.included(X, s.fail)
        return ok

    def extent(self, g, atoms, i, depth, hi=None):
        """the j such that g consumes atoms[i:j] for every string (None if it does not uniformly)"""
        hi = len(atoms) if hi is None else hi
        for j in range(i, hi + 1):
            ok, _ = self.consumes(g, atoms, i, j, depth)
            if ok:
                return j
        return None

    # ---- tokens
    def eval(self, g, atoms, i, j, depth, in_combine=False):
        """tokens of g on atoms[i:j] (precondition: g consumes exactly those)"""
        toks = self._eval(g, atoms, i, j, depth, in_combine)
        for act in g.actions:
            toks = self.run_action(act, toks)
        return toks

    def run_action(self, act, toks):
        clo = Closure(act.node, None, extract.module(MOD), act.qual.split('.')[-1])
        self.w.note_unit(extract.module(MOD), act.qual.split(MOD + '.')[-1], act.node)
        self.executed.append(act.qual)
        if len(toks) == 1 and isinstance(toks[0], Shape):
            d = deleted_characters(self.it, self.w, act)
            if d is not None:
                return [delete_from_shape(toks[0], d)]
        tl = TokList(toks)
        r = self.it.call_closure(clo, [tl], {}, inline=True)
        if r is None or r is tl:
            return list(tl)
        if isinstance(r, list):
            return list(r)
        return [r]

    def _text(self, atoms, i, j):
        sh = Shape(list(atoms[i:j]))
        c = sh.concrete()
        return c if c is not None else sh

    def _eval(self, g, atoms, i, j, depth, in_combine):
        k = g.kind
        if k in ('regex', 'lit', 'word1'):
            return [self._text(atoms, i, j)]
        if k == 'caseless':
            return [g.ret]
        if k in ('empty', 'end'):
            return []
        if k == 'and':
            out = []
            pos = i
            for n, c in enumerate(g.children):
                m = self.extent(c, atoms, pos, depth, hi=j)
                if m is None:
                    raise Unaligned('child %d of %r does not consume a whole number of atoms at %d' % (n, g, pos))
                out += self.eval(c, atoms, pos, m, depth, in_combine)
                pos = m
            if pos != j:
                raise Unaligned('sequence %r stops at atom %d, expected %d' % (g, pos, j))
            return out
        if k in ('or', 'first'):
            for c in g.children:
                ok, _ = self.consumes(c, atoms, i, j, depth)
                if ok:
                    # the earliest alternative that always consumes exactly this extent; an earlier one consuming more
                    # would contradict the precondition, one consuming as much only for some strings is excluded below
                    for e in g.children[:g.children.index(c)]:
                        if not self._never_reaches(e, atoms, i, j, depth):
                            raise Unaligned('an earlier alternative of %r matches the same extent for some strings' % (g,))
                    return self.eval(c, atoms, i, j, depth, in_combine)
            # no uniform winner: fine when every alternative that can produce this extent yields the consumed text itself
            if all(self._never_reaches(c, atoms, i, j, depth) or self._textlike(c, atoms, i, j) for c in g.children):
                return [self._text(atoms, i, j)]
            raise Unaligned('no single alternative of %r consumes atoms %d..%d for every string' % (g, i, j))
        if k == 'opt':
            c = g.children[0]
            if i == j:
                if self.fails(c, atoms, i, depth):
                    return []
                ok, _ = self.consumes(c, atoms, i, j, depth)
                if ok:
                    return self.eval(c, atoms, i, j, depth, in_combine)
                raise Unaligned('optional %r: neither always absent nor always empty' % (g,))
            return self.eval(c, atoms, i, j, depth, in_combine)
        if k in ('star', 'plus'):
            c = g.children[0]
            if i == j:
                return []
            if in_combine and self._plain(c):
                return [self._text(atoms, i, j)]          # joined by the enclosing Combine: the consumed text
            out = []
            pos = i
            while pos < j:
                m = self.extent(c, atoms, pos, depth, hi=j)
                if m is None or m == pos:
                    raise Unaligned('repetition %r: an iteration does not consume a whole number of atoms at %d' % (g, pos))
                out += self.eval(c, atoms, pos, m, depth, in_combine)
                pos = m
            return out
        if k == 'combine':
            try:
                toks = self.eval(g.children[0], atoms, i, j, depth, True)
            except Unaligned:
                t = self._lexical_token(g, atoms, i, j)
                if t is not None:
                    return [t]
                raise
            parts = []
            for t in toks:
                if isinstance(t, str):
                    parts.append(Lit(t))
                elif isinstance(t, Shape):
                    parts += list(t.parts)
                else:
                    raise OutOfSubset('Combine of a non-string token %r' % (t,))
            sh = Shape(parts)
            return [sh.concrete() if sh.concrete() is not None else sh]
        if k == 'suppress':
            if any(x.actions for x in _walk(g.children[0])):
                self.eval(g.children[0], atoms, i, j, depth, in_combine)
            return []
        if k == 'group':
            return [TokList(self.eval(g.children[0], atoms, i, j, depth, False))]
        if k == 'forward':
            t = self.comp.target(g)
            if t.uid in self.comp.nest:
                if depth <= 0:
                    raise OutOfSubset('nesting deeper than the unrolling')
                return self.eval(t, atoms, i, j, depth - 1, in_combine)
            return self.eval(g.children[0], atoms, i, j, depth, in_combine)
        if k == 'pass':
            return self.eval(g.children[0], atoms, i, j, depth, in_combine)
        raise OutOfSubset('token structure of %s' % k)

    def _never_reaches(self, e, atoms, i, j, depth):
        """alternative e never consumes atoms[i:j] or more (for no string of the shape)"""
        s = self.sem(e, depth)
        # strings on which e consumes at least the whole extent: X_pre . Sigma* # ...  -> check the intersection is empty
        X = self.comp.lang(A.concat(self.lang(atoms, i, j), A.mark(M.END), self.lang(atoms, j, len(atoms), tail=True)))
        C = self.alg.strip_keep_end(s.cons)
        I = self.alg._intersect(X, C)
        if I.finals:
            return False
        # longer extents: END somewhere inside the tail
        return True

    def _lexical_token(self, g, atoms, i, j):
        """The single token of this Combine when its inner structure does not fall on atom boundaries.  With no suppressed
        part below it the token is the consumed text, except that (a) parse actions below it that delete a set D of characters
        delete them - sound when no other leaf below can consume a character of D, so that deleting D from the whole text is
        the same as deleting it inside those leaves; (b) caseless literals return their own spelling - then only the
        case-insensitive reading of the token is known (CaseVariant).  None if the token cannot be described."""
        from hv.lang.charset import CS
        deleted = CS()
        others = CS()
        caseless = CS()
        for x in _walk(g.children[0]):
            if x.kind in ('suppress', 'group', 'forward'):
                return None
            dx = CS()
            for a in x.actions:
                d = deleted_characters(self.it, self.w, a)
                if d is None:
                    return None
                dx = dx | d
            deleted = deleted | dx
            if x.kind in ('regex', 'lit', 'word1') and not dx:
                for cs in self.comp._sets_of(x):
                    others = others | cs
            if x.kind == 'caseless':
                for ch, r in zip(x.text, x.ret):
                    for alt in {ch.lower(), ch.upper()} - {r}:
                        caseless = caseless | CS.of(alt)
                    others = others | CS.of(ch.lower(), ch.upper())
        lang = self.lang(atoms, i, j)

        def occurs(cs):
            return bool(cs) and A.intersect_witness(lang, A.concat(A.sigma_star(), A.cset(cs), A.sigma_star())) is not None
        text = self._text(atoms, i, j)
        if occurs(deleted):
            if deleted & others:
                return None
            text = delete_from_shape(text if isinstance(text, Shape) else Shape([Lit(text)]), deleted)
        if occurs(caseless):
            return CaseVariant(text if isinstance(text, Shape) else Shape([Lit(text)]))
        return text

    def _lexical_ok(self, g, atoms, i, j):
        t = self._lexical_token(g, atoms, i, j)
        return t is not None and not isinstance(t, CaseVariant) and JR_same(t if isinstance(t, Shape) else Shape([Lit(t)]), Shape(list(atoms[i:j])))

    def _textlike(self, c, atoms, i, j):
        """the alternative's only token is the text it consumed"""
        if c.actions:
            return False
        if c.kind in ('regex', 'lit', 'word1'):
            return True
        if c.kind == 'combine':
            return self._lexical_ok(c, atoms, i, j)
        return False

    def _plain(self, g):
        """subtree made of plain leaves only (no suppress / caseless / actions): its joined tokens are the consumed text"""
        for x in _walk(g):
            if x.actions or x.kind in ('suppress', 'caseless', 'group', 'forward'):
                return False
        return True


def _walk(g, seen=None):
    seen = set() if seen is None else seen
    if g.uid in seen:
        return
    seen.add(g.uid)
    yield g
    for c in g.children:
        for x in _walk(c, seen):
            yield x


_DEL = {}


def deleted_characters(it, w, act):
    """If the action is `lambda toks: [''.join([f(t) for t in toks[0]])]` with f mapping every character to itself or to ''
    (decided by executing f on one symbolic character per class), return the set of deleted characters; else None."""
    import ast
    from hv.lang.charset import CS, minterms
    from hv.vc.shapes import CharField
    if act.qual in _DEL:
        return _DEL[act.qual]
    n = act.node
    res = None
    try:
        body = n.body if isinstance(n, ast.Lambda) else None
        ok = isinstance(body, ast.List) and len(body.elts) == 1 and isinstance(body.elts[0], ast.Call) and isinstance(body.elts[0].func, ast.Attribute) \
            and body.elts[0].func.attr == 'join' and isinstance(body.elts[0].func.value, ast.Constant) and body.elts[0].func.value.value == '' \
            and len(body.elts[0].args) == 1 and isinstance(body.elts[0].args[0], (ast.ListComp, ast.GeneratorExp))
        if ok:
            comp = body.elts[0].args[0]
            gen = comp.generators[0]
            param = n.args.args[0].arg
            ok = len(comp.generators) == 1 and not gen.ifs and isinstance(gen.target, ast.Name) and ast.unparse(gen.iter) == '%s[0]' % param
        if ok:
            consts = [ord(c.value) for c in ast.walk(comp.elt) if isinstance(c, ast.Constant) and isinstance(c.value, str) and len(c.value) == 1]
            classes = minterms([CS.rng(c, c) for c in consts])
            fn = ast.Lambda(args=ast.arguments(posonlyargs=[], args=[ast.arg(arg=gen.target.id)], kwonlyargs=[], kw_defaults=[], defaults=[]), body=comp.elt)
            ast.fix_missing_locations(ast.Expression(fn))
            deleted = CS()
            for cs in classes:
                if cs.size() == 1:
                    inp = Shape([Lit(chr(cs.iv[0][0]))])
                else:
                    inp = Shape([CharField('t', cs, z3.Int('t!cp'))])
                clo = Closure(fn, None, extract.module(MOD), '<per-character map>')
                r = it.call_closure(clo, [inp], {}, inline=True)
                if isinstance(r, str):
                    r = Shape([Lit(r)])
                if isinstance(r, Shape) and len(r.parts) == 0:
                    deleted = deleted | cs
                elif isinstance(r, Shape) and JR_same(r, inp):
                    pass
                else:
                    ok = False
                    break
            if ok:
                res = deleted
    except (OutOfSubset, PyExc):
        res = None
    _DEL[act.qual] = res
    return res


def JR_same(a, b):
    if len(a.parts) != len(b.parts):
        return False
    for p, q in zip(a.parts, b.parts):
        if isinstance(p, Lit) and isinstance(q, Lit):
            if p.text != q.text:
                return False
        elif p is not q:
            return False
    return True


def delete_from_shape(sh, cs):
    """the per-character deletion map applied to a shape (R-ind-str: a per-character map acts part by part)"""
    from hv.lang.charset import CS
    parts = []
    for p in sh.parts:
        if isinstance(p, Lit):
            parts.append(Lit(''.join(c for c in p.text if ord(c) not in cs)))
            continue
        bad = A.concat(A.sigma_star(), A.cset(cs), A.sigma_star())
        if A.intersect_witness(p.nfa(), bad) is None:
            parts.append(p)
            continue
        n = A.NFA()
        src = p.nfa()
        n.n, n.start, n.finals = src.n, src.start, set(src.finals)
        for a, l, b in src.trans:
            if isinstance(l, CS):
                keep = l - cs
                if keep:
                    n.add(a, keep, b)
                if l & cs:
                    n.add(a, None, b)
            else:
                n.add(a, l, b)
        parts.append(Field(p.name + '~', n, 'deleted', ('deleted', p)))
    r = Shape(parts)
    return r.concrete() if r.concrete() is not None else r
