"""C09 bounded stand-in / replay: arbitrary and mutated texts against the real reader.
For every text: grid parsing returns grids or raises ZincParseException (a ValueError) with line/col inside the text; scalar parsing
raises only ValueError-family exceptions; a text the independent reference reader (spec/zinc_ref.py) rejects as structurally broken
is never accepted unless it is one of the listed leniencies.  BOUNDED."""
import random
import signal

from props import valuecat as VC

ALPH = list('abzNTFMRC0159_.-+:,;@"`\\$[]{}<>() \n\r\tueEZ') + ['é', '\x00', '\U0001F600', '٠']


def judge_grid(text):
    import hszinc
    from hszinc.zincparser import ZincParseException
    try:
        g = hszinc.parse(text, mode=hszinc.MODE_ZINC, single=False)
        return None, 'accepted', g
    except ZincParseException as e:
        lines = text.replace('\r\n', '\n').split('\n')
        line, col = e.line, e.col
        if not isinstance(e, ValueError):
            return 'ZincParseException is not a ValueError', 'rejected', None
        if line == 0 and col == 0:
            msg = str(e).split('\n')[0][:120]
            if 'Could not determine version' in msg or 'Expected' in msg:
                # a missing header / a grammar mismatch has a known position: (0, 0) there is not the recorded finding
                return 'line 0 / column 0 for a failure whose position is known: %s' % msg, 'rejected', None
            return ('line0', 'line 0 / column 0 reported: %s' % msg), 'rejected', None
        # the end-of-text position (one past the last line end, which parse() supplies when it is missing) counts as inside
        if not ((1 <= line <= max(1, len(lines)) and 1 <= col <= len(max(lines, key=len)) + 2) or (line == len(lines) + 1 and col == 1)):
            return 'position (%r, %r) outside the text %r' % (line, col, text[:80]), 'rejected', None
        return None, 'rejected', None
    except RecursionError:
        return None, 'rejected', None
    except Exception as e:
        return 'grid parsing raised %s: %s' % (type(e).__name__, str(e)[:80]), 'crash', None


def judge_scalar(text, ver):
    import hszinc
    try:
        hszinc.parse_scalar(text, mode=hszinc.MODE_ZINC, version=ver)
        return None
    except ValueError:
        return None
    except RecursionError:
        return None
    except Exception as e:
        return 'scalar parsing raised %s: %s' % (type(e).__name__, str(e)[:80])


def mutations(rnd, text, k):
    out = []
    for _ in range(k):
        t = text
        for _ in range(rnd.choice([1, 1, 1, 2, 3])):
            if not t:
                t = rnd.choice(ALPH)
                continue
            i = rnd.randrange(len(t) + 1)
            op = rnd.choice('idrst')
            if op == 'i':
                t = t[:i] + rnd.choice(ALPH) + t[i:]
            elif op == 'd':
                t = t[:i] + t[i + 1:]
            elif op == 'r':
                t = t[:i] + rnd.choice(ALPH) + t[i + 1:]
            elif op == 's':
                j = rnd.randrange(len(t) + 1)
                t = t[:i] + text[min(i, j):max(i, j)] + t[i:]
            else:
                t = t[:i]
        out.append(t)
    return out


class Timeout(Exception):
    pass


def later_grid_cases():
    """a well-formed first grid followed, after a blank line, by broken text: broken documents, whatever the call mode of hszinc.parse"""
    import hszinc
    from hszinc.zincparser import ZincParseException
    good = 'ver:"3.0"\nid,dis\n@a,"first"\n'
    tails = ['ver:"3.0"\nb\n"unterminated\n', '@a,"first"\n', 'ver:"3.0"\nb\n[1,2\n', 'ver:"2.0"\nb\n[1,2]\n', 'b\n1\n', 'ver:"3.0"\n1bad\n1\n', 'ver:"3.0"\nb\n"\\q"\n']
    bad = []
    for t in tails:
        doc = good + '\n' + t
        for kw in ({}, {'single': True}, {'single': False}):
            try:
                r = hszinc.parse(doc, mode=hszinc.MODE_ZINC, **kw)
                bad.append((doc, 'parse(%s) accepted a document whose second grid is broken and returned %s' % (kw or 'default', type(r).__name__)))
            except ZincParseException:
                pass
            except Exception as e:
                bad.append((doc, 'parse(%s) raised %s instead of ZincParseException' % (kw or 'default', type(e).__name__)))
    return bad, len(tails) * 3


LONG = 'the quick brown fox jumps over the lazy dog 0123456789'      # a long run of plain characters


def long_literal_cases():
    """malformed documents whose fault comes after a long run of plain characters inside a literal (a matcher that backtracks over the ways of
    splitting the run needs 2^n steps): each parsed in its own process with a hard limit"""
    docs = []
    for ver in ('2.0', '3.0'):
        head = 'ver:"%s"\nid,dis\n' % ver
        docs += [head + '@a,"%s\n@b,"x"\n' % LONG, head + '@a,`%s\n@b,"x"\n' % LONG, head + '@a,"%s\\q"\n' % LONG, head + '@a,"%s\x01"\n' % LONG,
                 head + '@a,`%s\\q`\n' % LONG, head + '@a,"%s' % LONG,
                 'ver:"%s" dis:"%s\nid\n' % (ver, LONG)]
    return docs


_LONG_CODE = r'''
import sys, io, contextlib
sys.path.insert(0, sys.argv[1])
text = sys.stdin.read()
buf = io.StringIO()
with contextlib.redirect_stdout(buf):
    import hszinc
    try:
        hszinc.parse(text, mode=hszinc.MODE_ZINC)
        r = 'ACCEPTED'
    except hszinc.zincparser.ZincParseException as e:
        r = 'REJECTED'
    except Exception as e:
        r = 'OTHER %s' % type(e).__name__
print('RES ' + r)
'''


def run_long(text, limit=15):
    import os
    import subprocess
    import sys
    repo = os.environ.get('HV_REPO', '/repo')
    try:
        p = subprocess.run([sys.executable, '-c', _LONG_CODE, repo], input=text, capture_output=True, text=True, timeout=limit)
    except subprocess.TimeoutExpired:
        return 'parsing a malformed document with a long literal did not terminate within %d s' % limit
    res = [ln[4:] for ln in p.stdout.splitlines() if ln.startswith('RES ')]
    if res != ['REJECTED']:
        return 'malformed document with a long literal: %s' % (res or p.stderr[-200:])
    return None


def bounded(tier, seed):
    import hszinc
    rnd = random.Random(seed)
    fails, known, cases = [], {}, 0

    def alarm(sig, frm):
        raise Timeout()
    signal.signal(signal.SIGALRM, alarm)
    docs = []
    for label, g in VC.grids('quick', seed):
        try:
            docs.append(hszinc.dump(g, mode=hszinc.MODE_ZINC))
        except Exception:
            pass
    per = 6 if tier != 'thorough' else 60
    lb, ln = later_grid_cases()
    cases += ln
    for doc, what in lb[:4]:
        fails.append({'id': 'C09/later-grid', 'what': what + ': %r' % doc[:90], 'input': {'kind': 'later_grid'}})
    from concurrent.futures import ThreadPoolExecutor
    ldocs = long_literal_cases()
    with ThreadPoolExecutor(10) as ex:
        lres = list(ex.map(run_long, ldocs))
    cases += len(ldocs)
    for t, r in zip(ldocs, lres):
        if r and len(fails) < 6:
            fails.append({'id': 'C09/long-literal', 'what': r + ': %r' % t[:90], 'input': {'kind': 'long', 'text': t}})
    if any(r and 'terminate' in r for r in lres):
        # the in-process sweeps below would hang on the same fault: report what was found
        return {'cases': cases, 'failures': fails, 'bound': 'long-literal documents only: the remaining sweeps were skipped because parsing does not terminate'}

    def run(text, what):
        nonlocal cases
        cases += 1
        signal.alarm(20)
        try:
            r, verdict, g = judge_grid(text)
        except Timeout:
            r, verdict = 'parsing did not terminate within 20 s', 'hang'
        finally:
            signal.alarm(0)
        if isinstance(r, tuple) and r[0] == 'line0':
            known.setdefault('C09/line0/' + what, (r[1], text))
        elif r and len(fails) < 15:
            fails.append({'id': 'C09/' + what, 'what': r, 'input': {'kind': 'text', 'text': text}})
    # every position of small documents: insert / delete / replace / truncate
    small = ['ver:"3.0"\na\n1\n', 'ver:"2.0" m:"x"\na dis:"d",b\n"s",`u`\n@r "d",2020-01-01\n', 'ver:"3.0"\na\n[1,{k:"v"},<<ver:"3.0"\nx\nN\n>>]\n']
    for doc in small:
        for i in range(len(doc) + 1):
            run(doc[:i], 'truncate')
            run(doc[:i] + doc[i + 1:], 'delete')
            for ch in ('"', '\\', ',', '\n', ']', '}', '>', 'A', ' ', '\t') if tier != 'thorough' else ALPH:
                run(doc[:i] + ch + doc[i:], 'insert')
                run(doc[:i] + ch + doc[i + 1:], 'replace')
    for doc in docs[:: (7 if tier != 'thorough' else 1)]:
        for t in mutations(rnd, doc, per):
            run(t, 'mutated')
    for _ in range(300 if tier != 'thorough' else 5000):
        run(''.join(rnd.choice(ALPH) for _ in range(rnd.randint(0, 30))), 'random')
        run('ver:"3.0"\n' + ''.join(rnd.choice(ALPH) for _ in range(rnd.randint(0, 30))), 'random-after-header')
    # scalars
    for _ in range(2000 if tier != 'thorough' else 30000):
        t = ''.join(rnd.choice(ALPH) for _ in range(rnd.randint(0, 14)))
        for ver in ('2.0', '3.0'):
            cases += 1
            r = judge_scalar(t, ver)
            if r and len(fails) < 15:
                fails.append({'id': 'C09/scalar', 'what': r + ' on %r' % t, 'input': {'kind': 'scalar', 'text': t, 'ver': ver}})
    for t in ['2020-01-01T00:00:00 UTC', '2020-01-01T00:00:00 New_York', '2020-01-01t00:00:00 Paris', '2020-01-01T00:00:00.5 UTC', '2020-13-45', '25:00:00', 'hex("zz")', 'b64("@")', 'C(-,1)', '2020-01-01T00:00:00+99:99 UTC', '0001-01-01T00:00:00+00:00 Los_Angeles', '1e999', '@', 'X("\\ud800")',
              '9999-12-31T23:59:59+00:00 Kiritimati', '<<ver:"x"\na\n>>', '{a a}', '[' * 50]:
        for ver in ('2.0', '3.0'):
            cases += 1
            r = judge_scalar(t, ver)
            if r:
                fails.append({'id': 'C09/scalar', 'what': r + ' on %r' % t, 'input': {'kind': 'scalar', 'text': t, 'ver': ver}})
    out = {'cases': cases, 'failures': fails,
           'bound': 'insert/delete/replace/truncate at every position of 3 small documents; %d random mutations of each catalogue document; random texts; random scalar texts up to 14 characters; nesting depth <= 3' % per}
    # known-finding candidates are reported as failures with their own id class (the runner matches them against known_findings.json)
    for k, (why, text) in sorted(known.items())[:3]:
        out['failures'].append({'id': k, 'what': why, 'input': {'kind': 'line0', 'text': text}})
    return out


def replay(inp):
    k = inp.get('kind')
    if k == 'later_grid':
        lb, _ = later_grid_cases()
        return {'reproduced': bool(lb), 'detail': [w for _, w in lb[:3]]}
    if k == 'long':
        r = run_long(inp['text'])
        return {'reproduced': bool(r), 'detail': r or ''}
    if k in ('text', 'zinc_accepts') and inp.get('text') is not None and inp.get('what', 'grid') != 'scalar' and k == 'text':
        r, verdict, g = judge_grid(inp['text'])
        return {'reproduced': bool(r), 'detail': r if not isinstance(r, tuple) else r[1]}
    if k == 'scalar':
        r = judge_scalar(inp['text'], inp.get('ver', '3.0'))
        return {'reproduced': bool(r), 'detail': r or ''}
    if k == 'zinc_accepts' and inp.get('text') is not None:
        # a text the deductive part says is accepted although it is outside the (lenient) reference grammar
        import hszinc
        try:
            if inp.get('what') == 'grid':
                hszinc.parse(inp['text'], mode=hszinc.MODE_ZINC)
            else:
                hszinc.parse_scalar(inp['text'], mode=hszinc.MODE_ZINC, version='3.0' if inp.get('ver3', True) else '2.0')
            return {'reproduced': True, 'detail': 'accepted %r' % inp['text']}
        except Exception as e:
            return {'reproduced': False, 'detail': 'rejected with %s' % type(e).__name__}
    if k == 'line0':
        text = inp.get('text') or 'ver:"3.0"\na\n2020-13-45\n'
        r, verdict, g = judge_grid(text)
        return {'reproduced': isinstance(r, tuple) and r[0] == 'line0', 'detail': r[1] if isinstance(r, tuple) else str(r)}
    if k == 'raises':
        fails = []
        for t in ['2020-01-01T00:00:00 UTC', '2020-01-01T00:00:00 New_York', '2020-13-45', 'hex("zz")', 'C(-,1)', '0001-01-01T00:00:00+00:00 Los_Angeles', '9999-12-31T23:59:59+00:00 Kiritimati', '{a a}', '[1,2]']:
            r = judge_scalar(t, '3.0')
            if r:
                fails.append(r)
        return {'reproduced': bool(fails), 'detail': fails[:3]}
    return {'reproduced': None, 'detail': 'unknown'}
