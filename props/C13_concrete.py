"""C13 bounded stand-in / replay: cache eviction histories and forced two-thread schedules on the real code."""
import gc
import sys
import threading


def mk_grid():
    from hszinc import Grid
    g = Grid(columns={'id': {}, 'n': {}})
    for i in range(6):
        g.append({'id': 'r%d' % i, 'n': float(i)})
    return g


def expect(i):
    return ['r%d' % (i % 6)]


def history(n_filters, reuse_every):
    """compile n distinct filters (around / beyond the cache capacity), re-using some early ones; every evaluation must give its own rows"""
    g = mk_grid()
    bad = []
    kept = {}
    for i in range(n_filters):
        f = 'n == %d and n >= %d' % (i % 6, -i)       # distinct text, selects row i % 6
        got = [r['id'] for r in g.filter(f)]
        if got != expect(i):
            bad.append('filter #%d %r -> %r, expected %r' % (i, f, got, expect(i)))
        if i < 20:
            from hszinc.grid_filter import filter_function
            kept[i] = (f, filter_function(f))
        if reuse_every and i % reuse_every == 0:
            for j, (fj, fn) in list(kept.items())[:5]:
                got = [r['id'] for r in g.filter(fj)]
                if got != expect(j):
                    bad.append('after %d compilations, early filter %r -> %r, expected %r' % (i, fj, got, expect(j)))
                rows = [r['id'] for r in g if fn(g, r)]
                if rows != expect(j):
                    bad.append('after %d compilations, previously obtained function of %r -> %r' % (i, fj, rows))
        if len(bad) > 5:
            break
    gc.collect()
    return bad


FRAMES = ('_filter_function', 'filter_function', '__init__', 'get', '__del__')      # the functions that touch the shared counter / globals


def forced_schedule(k, j=None):
    """two threads compile different filters. Thread A runs k line events inside grid_filter, then B runs j line events (or to completion
    if j is None), then A runs to completion, then B finishes: deterministic preemption at source-line granularity (2 context switches)"""
    import hszinc.grid_filter as gf
    g = mk_grid()
    a_paused, b_paused, a_done = threading.Event(), threading.Event(), threading.Event()
    cnt = {'a': 0, 'b': 0}
    res = {}
    tag = '%d_%s' % (k, j)
    fa, fb = 'n == 1 and n > -%d' % (100000 + k * 1000 + (j or 0)), 'n == 2 and n > -%d' % (200000 + k * 1000 + (j or 0))

    def tracer_a(frame, event, arg):
        if frame.f_code.co_filename.endswith('grid_filter.py') and event == 'line' and frame.f_code.co_name in FRAMES:
            cnt['a'] += 1
            if cnt['a'] == k:
                a_paused.set()
                b_paused.wait(10)
        return tracer_a

    def tracer_b(frame, event, arg):
        if frame.f_code.co_filename.endswith('grid_filter.py') and event == 'line' and frame.f_code.co_name in FRAMES:
            cnt['b'] += 1
            if j is not None and cnt['b'] == j:
                b_paused.set()
                a_done.wait(10)
        return tracer_b

    def run_a():
        sys.settrace(tracer_a)
        try:
            res['a'] = [r['id'] for r in g.filter(fa)]
        except Exception as e:
            res['a'] = 'ERR %r' % (e,)
        finally:
            sys.settrace(None)
            a_paused.set()
            a_done.set()

    def run_b():
        a_paused.wait(10)
        sys.settrace(tracer_b)
        try:
            res['b'] = [r['id'] for r in g.filter(fb)]
        except Exception as e:
            res['b'] = 'ERR %r' % (e,)
        finally:
            sys.settrace(None)
            b_paused.set()
    ta, tb = threading.Thread(target=run_a), threading.Thread(target=run_b)
    ta.start(); tb.start(); ta.join(30); tb.join(30)
    bad = []
    if res.get('a') != ['r1']:
        bad.append('thread A (%r) got %r under schedule A:%d lines / B:%s lines / A finishes / B finishes' % (fa, res.get('a'), k, j))
    if res.get('b') != ['r2']:
        bad.append('thread B (%r) got %r under schedule A:%d lines / B:%s lines / A finishes / B finishes' % (fb, res.get('b'), k, j))
    return bad


# ------------------------------------------------------------------ order independence over literals that Python treats as equal
ORDER_FILTERS = ['(' * 20 + 'v', '(' * 10 + 'w', '(v and', '(((w == 1)))', '(v == 1) or (w)', '((v))', '(v) and (w', '(' * 40 + 'v', '(((v != 1)))', 'v == true', 'v == 1', 'v == 1.0', 'v != true', 'v != 1', 'v == false', 'v == 0', 'v != 0', 'v != false', 'v >= 1', 'v >= true',
                 'v < 1', 'v < true', 'v == "a"', 'v == `a`', 'v == @a', 'v != "a"', 'v != `a`', 'v == 1m', 'v != 1m', 'v == "1"', 'v == 2020-01-01',
                 'v == 1 and w == true', 'v == true and w == 1', 'w == 1 or v == true', 'not v', 'v', 'v == 0.0', 'v == -0.0', 'v == 1e0']

_ORDER_CODE = r'''
import sys, json, io, contextlib
sys.path.insert(0, sys.argv[1])
buf = io.StringIO()
with contextlib.redirect_stdout(buf):
    import hszinc
    from hszinc import Grid, Uri, Ref, Quantity
    import datetime
    g = Grid(version='3.0', columns={'id': {}, 'v': {}, 'w': {}})
    vals = [True, 1, 1.0, 0, False, 0.0, 'a', Uri('a'), Ref('a'), Quantity(1, 'm'), '1', datetime.date(2020, 1, 1), 2.0, None]
    for i, v in enumerate(vals):
        row = {'id': 'r%d' % i, 'w': vals[(i + 1) % 6]}
        if v is not None:
            row['v'] = v
        g.append(row)
    out = []
    for f in json.loads(sys.argv[2]):
        try:
            out.append([r['id'] for r in g.filter(f)])
        except Exception as e:
            out.append('ERR %s' % type(e).__name__)
print('RES ' + json.dumps(out))
'''


def _run_order(filters):
    import json
    import os
    import subprocess
    repo = os.environ.get('HV_REPO', '/repo')
    p = subprocess.run([sys.executable, '-c', _ORDER_CODE, repo, json.dumps(filters)], capture_output=True, text=True, timeout=120)
    for line in p.stdout.splitlines():
        if line.startswith('RES '):
            return json.loads(line[4:])
    raise RuntimeError('order run failed: %s' % p.stderr[-400:])


def order_independence(seed):
    """each filter alone in a fresh process (= the first filter ever used) against the same filter after the others, in three orders"""
    import random
    from concurrent.futures import ThreadPoolExecutor
    with ThreadPoolExecutor(8) as ex:
        alone = list(ex.map(lambda f: _run_order([f])[0], ORDER_FILTERS))
    bad, cases = [], len(ORDER_FILTERS)
    rnd = random.Random(seed)
    orders = [list(range(len(ORDER_FILTERS))), list(reversed(range(len(ORDER_FILTERS))))]
    o = list(range(len(ORDER_FILTERS)))
    rnd.shuffle(o)
    orders.append(o)
    for order in orders:
        seq = [ORDER_FILTERS[i] for i in order] * 2            # second pass: everything is cached by then
        got = _run_order(seq)
        cases += len(seq)
        for pos, f in enumerate(seq):
            want = alone[ORDER_FILTERS.index(f)]
            if got[pos] != want:
                bad.append({'filter': f, 'before': seq[:pos][-6:], 'what': 'filter %r selects %r as the first filter ever used but %r after %d other filters (last: %r)'
                            % (f, want, got[pos], pos, seq[:pos][-3:])})
    return bad, cases


def bounded(tier, seed):
    failures, cases = [], 0
    bad, n0 = order_independence(seed)
    cases += n0
    for b in bad[:4]:
        failures.append({'id': 'C13/order/%s' % b['filter'], 'what': b['what'], 'input': {'kind': 'order', 'seed': seed}})
    n = 1200 if tier == 'quick' else 1600
    cases += n
    bad = history(n, 97)
    for b in bad[:3]:
        failures.append({'id': 'C13/history', 'what': b, 'input': {'kind': 'history', 'n': n, 'reuse_every': 97}})
    import random
    rnd = random.Random(seed)
    ks = range(1, 16)
    pairs = [(k, j) for k in ks for j in [None] + list(range(1, 16))]
    for k, j in pairs:
        cases += 1
        bad = forced_schedule(k, j)
        for b in bad[:1]:
            if len(failures) < 10:
                failures.append({'id': 'C13/schedule/%d/%s' % (k, j), 'what': b, 'input': {'kind': 'schedule', 'k': k, 'j': j}})
    return {'cases': cases, 'failures': failures,
            'bound': 'order independence: %d filters over literals that Python treats as equal (true/1/1.0, false/0/0.0/-0.0, "a"/`a`/@a, 1/1m), each alone in a fresh process vs after the others in three orders, twice; ' % len(ORDER_FILTERS) + '%d distinct filters across the cache capacity with re-use of early ones; two threads under forced schedules A:k lines / B:j lines / A finishes / B finishes (k, j < 16 line events inside the functions touching the shared state: every such schedule)' % n}


def replay(inp):
    if inp.get('kind') == 'history':
        bad = history(inp.get('n', 1200), inp.get('reuse_every', 97))
        return {'reproduced': bool(bad), 'detail': bad[:2]}
    if inp.get('kind') == 'order':
        bad, _ = order_independence(inp.get('seed', 0))
        return {'reproduced': bool(bad), 'detail': [b['what'] for b in bad[:2]]}
    if inp.get('kind') == 'schedule':
        bad = forced_schedule(inp.get('k', inp.get('switch_after', 1)), inp.get('j'))
        return {'reproduced': bool(bad), 'detail': bad[:2]}
    out = bounded('quick', 0)
    return {'reproduced': bool(out['failures']), 'detail': [f['what'] for f in out['failures'][:2]]}
