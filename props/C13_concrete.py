"""C13 bounded stand-in / replay: cache eviction histories and forced two-thread schedules on the real code."""
import gc
import sys
import threading


def mk_grid():
    from hszinc import Grid
    g = Grid(columns={'id': {}, 'n': {}})
    for i in range(6):
        g.append({'id': 'r%d' % i, 'n': float(i)})
    return g


def expect(i):
    return ['r%d' % (i % 6)]


def history(n_filters, reuse_every):
    """compile n distinct filters (around / beyond the cache capacity), re-using some early ones; every evaluation must give its own rows"""
    g = mk_grid()
    bad = []
    kept = {}
    for i in range(n_filters):
        f = 'n == %d and n >= %d' % (i % 6, -i)       # distinct text, selects row i % 6
        got = [r['id'] for r in g.filter(f)]
        if got != expect(i):
            bad.append('filter #%d %r -> %r, expected %r' % (i, f, got, expect(i)))
        if i < 20:
            from hszinc.grid_filter import filter_function
            kept[i] = (f, filter_function(f))
        if reuse_every and i % reuse_every == 0:
            for j, (fj, fn) in list(kept.items())[:5]:
                got = [r['id'] for r in g.filter(fj)]
                if got != expect(j):
                    bad.append('after %d compilations, early filter %r -> %r, expected %r' % (i, fj, got, expect(j)))
                rows = [r['id'] for r in g if fn(g, r)]
                if rows != expect(j):
                    bad.append('after %d compilations, previously obtained function of %r -> %r' % (i, fj, rows))
        if len(bad) > 5:
            break
    gc.collect()
    return bad


FRAMES = ('_filter_function', 'filter_function', '__init__', 'get', '__del__')      # the functions that touch the shared counter / globals


def forced_schedule(k, j=None):
    """two threads compile different filters. Thread A runs k line events inside grid_filter, then B runs j line events (or to completion
    if j is None), then A runs to completion, then B finishes: deterministic preemption at source-line granularity (2 context switches)"""
    import hszinc.grid_filter as gf
    g = mk_grid()
    a_paused, b_paused, a_done = threading.Event(), threading.Event(), threading.Event()
    cnt = {'a': 0, 'b': 0}
    res = {}
    tag = '%d_%s' % (k, j)
    fa, fb = 'n == 1 and n > -%d' % (100000 + k * 1000 + (j or 0)), 'n == 2 and n > -%d' % (200000 + k * 1000 + (j or 0))

    def tracer_a(frame, event, arg):
        if frame.f_code.co_filename.endswith('grid_filter.py') and event == 'line' and frame.f_code.co_name in FRAMES:
            cnt['a'] += 1
            if cnt['a'] == k:
                a_paused.set()
                b_paused.wait(10)
        return tracer_a

    def tracer_b(frame, event, arg):
        if frame.f_code.co_filename.endswith('grid_filter.py') and event == 'line' and frame.f_code.co_name in FRAMES:
            cnt['b'] += 1
            if j is not None and cnt['b'] == j:
                b_paused.set()
                a_done.wait(10)
        return tracer_b

    def run_a():
        sys.settrace(tracer_a)
        try:
            res['a'] = [r['id'] for r in g.filter(fa)]
        except Exception as e:
            res['a'] = 'ERR %r' % (e,)
        finally:
            sys.settrace(None)
            a_paused.set()
            a_done.set()

    def run_b():
        a_paused.wait(10)
        sys.settrace(tracer_b)
        try:
            res['b'] = [r['id'] for r in g.filter(fb)]
        except Exception as e:
            res['b'] = 'ERR %r' % (e,)
        finally:
            sys.settrace(None)
            b_paused.set()
    ta, tb = threading.Thread(target=run_a), threading.Thread(target=run_b)
    ta.start(); tb.start(); ta.join(30); tb.join(30)
    bad = []
    if res.get('a') != ['r1']:
        bad.append('thread A (%r) got %r under schedule A:%d lines / B:%s lines / A finishes / B finishes' % (fa, res.get('a'), k, j))
    if res.get('b') != ['r2']:
        bad.append('thread B (%r) got %r under schedule A:%d lines / B:%s lines / A finishes / B finishes' % (fb, res.get('b'), k, j))
    return bad


def bounded(tier, seed):
    failures, cases = [], 0
    n = 1200 if tier == 'quick' else 1600
    cases += n
    bad = history(n, 97)
    for b in bad[:3]:
        failures.append({'id': 'C13/history', 'what': b, 'input': {'kind': 'history', 'n': n, 'reuse_every': 97}})
    import random
    rnd = random.Random(seed)
    ks = range(1, 16)
    pairs = [(k, j) for k in ks for j in [None] + list(range(1, 16))]
    for k, j in pairs:
        cases += 1
        bad = forced_schedule(k, j)
        for b in bad[:1]:
            if len(failures) < 10:
                failures.append({'id': 'C13/schedule/%d/%s' % (k, j), 'what': b, 'input': {'kind': 'schedule', 'k': k, 'j': j}})
    return {'cases': cases, 'failures': failures,
            'bound': '%d distinct filters across the cache capacity with re-use of early ones; two threads under forced schedules A:k lines / B:j lines / A finishes / B finishes (k, j < 16 line events inside the functions touching the shared state: every such schedule)' % n}


def replay(inp):
    if inp.get('kind') == 'history':
        bad = history(inp.get('n', 1200), inp.get('reuse_every', 97))
        return {'reproduced': bool(bad), 'detail': bad[:2]}
    if inp.get('kind') == 'schedule':
        bad = forced_schedule(inp.get('k', inp.get('switch_after', 1)), inp.get('j'))
        return {'reproduced': bool(bad), 'detail': bad[:2]}
    out = bounded('quick', 0)
    return {'reproduced': bool(out['failures']), 'detail': [f['what'] for f in out['failures'][:2]]}
