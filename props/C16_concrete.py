"""C16 bounded stand-in and witness replay: real SortableDict/MetadataObject lock-step with the PyOMap oracle."""
import itertools
import random

from spec.omap_model import PyOMap


def _mk(initial, cls='SortableDict'):
    from hszinc.sortabledict import SortableDict
    from hszinc.metadata import MetadataObject
    c = MetadataObject if cls == 'MetadataObject' else SortableDict
    d = c()
    for k, v in initial:
        d[k] = v
    return d


def _state(d):
    return [[k, d[k]] for k in list(d)]


def _wf(d):
    ks = list(d)
    return len(set(ks)) == len(ks) and set(ks) == set(d._values.keys()) and len(d) == len(ks)


def apply_op(d, m, op):
    """Apply one operation to the real map d and the oracle m; return failure text or None."""
    kind = op['op']
    before = _state(d)
    exc = None
    want_exc = None
    try:
        if kind == 'add_item':
            kw = {a: op[a] for a in ('after', 'index', 'pos_key', 'replace') if a in op and op[a] is not None}
            want_exc = m.add(op['key'], op['value'], **kw)
            if want_exc == 'unspecified':
                m.items = [list(x) for x in before]
                return None
            d.add_item(op['key'], op['value'], **kw)
        elif kind == 'setitem':
            m.store(op['key'], op['value'])
            d[op['key']] = op['value']
        elif kind in ('__delitem__', 'pop', 'pop_default'):
            want_exc = m.delete(op['key'])
            if kind == '__delitem__':
                del d[op['key']]
            elif kind == 'pop':
                d.pop(op['key'])
            else:
                want_exc = None
                d.pop(op['key'], 'DEFAULT')
        elif kind == 'pop_at':
            i = op['index']
            if -len(m.items) <= i < len(m.items):
                del m.items[i]
            else:
                want_exc = 'IndexError'
            d.pop_at(i)
        elif kind == 'reverse':
            m.items.reverse()
            d.reverse()
        elif kind == 'sort':
            kf = {None: None, 'const': (lambda k: 0), 'last': (lambda k: k[-1:]), 'len': len}[op.get('key')]
            rv = bool(op.get('reverse', False))
            m.items.sort(key=(lambda kv: kv[0]) if kf is None else (lambda kv: kf(kv[0])), reverse=rv)
            kw = {}
            if 'key' in op:
                kw['key'] = kf
            if 'reverse' in op:
                kw['reverse'] = rv
            d.sort(**kw)
        elif kind == 'append':
            v = op.get('value', 'MARKER')
            if m._idx(op['key']) is not None and not op.get('replace', True):
                want_exc = 'KeyError'
            else:
                m.store(op['key'], v)
            if v == 'MARKER':
                from hszinc.datatypes import MARKER
                d.append(op['key'], replace=op.get('replace', True))
                for it in m.items:
                    if it[1] == 'MARKER':
                        it[1] = MARKER
            else:
                d.append(op['key'], v, replace=op.get('replace', True))
        elif kind == 'extend':
            for k, v in op['items']:
                m.store(k, v)
            d.extend(op['items'])
        elif kind in ('getitem', 'len_iter', 'at', 'value_at', 'index'):
            return None
        else:
            return None
    except (KeyError, ValueError, IndexError) as e:
        exc = type(e).__name__
    except Exception as e:
        return 'op %r raised unexpected %r' % (op, e)
    if want_exc is not None:
        if exc is None:
            return 'op %r should have been rejected (%s) but was accepted: %r' % (op, want_exc, _state(d))
        if exc != want_exc:
            return 'op %r raised %s where the model prescribes %s' % (op, exc, want_exc)
        if _state(d) != before:
            return 'rejected op %r changed the map: %r -> %r' % (op, before, _state(d))
        m.items = [list(x) for x in before]
        return None
    if exc is not None:
        return 'op %r raised %s but the model accepts it' % (op, exc)
    if not _wf(d):
        return 'op %r broke the representation: order %r values %r' % (op, list(d), sorted(d._values))
    if _state(d) != [list(x) for x in m.items]:
        return 'op %r: got %r, model %r (from %r)' % (op, _state(d), m.items, before)
    return None


def _ops_alphabet(keys, n):
    ops = []
    for k in keys:
        ops.append({'op': 'setitem', 'key': k, 'value': 'v'})
        ops.append({'op': '__delitem__', 'key': k})
        for rep in (True, False):
            ops.append({'op': 'add_item', 'key': k, 'value': 'w', 'replace': rep})
            for i in range(0, n + 1):
                for af in (False, True):
                    ops.append({'op': 'add_item', 'key': k, 'value': 'w', 'index': i, 'after': af, 'replace': rep})
            for p in keys + ['zz']:
                for af in (False, True):
                    ops.append({'op': 'add_item', 'key': k, 'value': 'w', 'pos_key': p, 'after': af, 'replace': rep})
        ops.append({'op': 'add_item', 'key': k, 'value': 'w', 'pos_key': keys[0], 'index': 0})
        ops.append({'op': 'append', 'key': k})
        ops.append({'op': 'append', 'key': k, 'value': 'x', 'replace': False})
    ops.append({'op': 'setitem', 'key': keys[0], 'value': None})
    ops.append({'op': 'add_item', 'key': keys[1], 'value': None, 'index': 0})
    for i in range(-1, n + 1):
        ops.append({'op': 'pop_at', 'index': i})
    ops += [{'op': 'sort', 'reverse': True}, {'op': 'sort', 'key': 'const'}, {'op': 'sort', 'key': 'const', 'reverse': True},
            {'op': 'sort', 'key': 'last', 'reverse': True}, {'op': 'sort', 'key': 'len', 'reverse': True}, {'op': 'sort', 'key': None, 'reverse': False}]
    ops += [{'op': 'reverse'}, {'op': 'sort'}, {'op': 'extend', 'items': [[keys[-1], 'e1'], [keys[0], 'e2']]},
            # one extend() argument naming the same key twice (a new one, a present one): each pair is stored in turn
            {'op': 'extend', 'items': [['zz', 'n1'], ['zz', 'n2']]}, {'op': 'extend', 'items': [[keys[0], 'p1'], ['zz', 'n1'], [keys[0], 'p2'], ['zz', 'n3']]}]
    return ops


def run_history(initial, ops, cls='MetadataObject'):
    d = _mk(initial, cls)
    m = PyOMap([list(x) for x in initial])
    for i, op in enumerate(ops):
        f = apply_op(d, m, op)
        if f:
            return i, f
    return None


def bounded(tier, seed):
    keys = ['a', 'b', 'c']
    alpha = _ops_alphabet(keys, 3)
    failures, cases = [], 0
    depth = 2 if tier == 'quick' else 3
    inits = [[], [['a', 1]], [['a', 1], ['b', 2], ['c', 3]], [['c', 3], ['a', 1]],
             [['a', None], ['b', 0], ['c', '']]]        # null / falsy values are values: a key holding None is present
    rnd = random.Random(seed)
    for init in inits:
        seqs = itertools.product(alpha, repeat=depth) if (tier != 'quick' or True) else []
        for seq in seqs:
            if (depth == 3 and rnd.random() > 0.08) or (tier == 'quick' and rnd.random() > 0.3):
                continue
            cases += 1
            r = run_history(init, [dict(o) for o in seq])
            if r and len(failures) < 10:
                failures.append({'id': 'C16/history/%s' % __import__('hashlib').md5(repr((init, seq)).encode()).hexdigest()[:10], 'what': r[1],
                                 'input': {'kind': 'history', 'initial': init, 'ops': list(seq)}})
    for _ in range(300 if tier == 'quick' else 5000):
        init = rnd.choice(inits)
        seq = [dict(rnd.choice(alpha)) for _ in range(rnd.randint(4, 12))]
        cases += 1
        r = run_history(init, seq)
        if r and len(failures) < 10:
            failures.append({'id': 'C16/history/rnd%d' % cases, 'what': r[1], 'input': {'kind': 'history', 'initial': init, 'ops': seq[:r[0] + 1]}})
    return {'cases': cases, 'failures': failures, 'bound': 'all operation sequences of depth %d over 3 keys x all position arguments from 5 initial maps (one holding None / falsy values); random sequences of length 4..12' % depth}


def replay(inp):
    if inp['kind'] == 'omap':
        op = dict(inp['op'])
        r = run_history(inp['initial'], [op], cls='MetadataObject' if op.get('op') in ('append', 'extend') else 'SortableDict')
    else:
        r = run_history(inp['initial'], inp['ops'])
    return {'reproduced': bool(r), 'detail': r[1] if r else ''}
