"""C16 - ordered metadata maps keep dict content and documented order (sortabledict.py, metadata.py)."""
import itertools

import z3

from hv.vc import smt
from hv.vc.kit import Task
from hv.vc.world import World, LoopSpec
from hv.vc.values import SObj, SKey, SVal, SInt, SBool, SSeq, SView, PyExc, OutOfSubset
from contracts import sortabledict as CS
from spec import omap_model as OM

HAS_CONCRETE = True
CONCRETE_TIMEOUT = {'quick': 300, 'thorough': 2400}
TRUSTED_BASE = ['A-py', 'A-bi-list (index/insert clamping/remove/append/reverse, exceptions)', 'A-bi-dict (get/set/del/in)',
                'A-bi-sort (list.sort yields a permutation)', 'stdlib _collections_abc.MutableMapping source (pop) is extracted and executed, not assumed',
                'R-ind-hist (invariant + per-operation refinement => all histories)', 'R-loop']
ASSUMPTIONS = ['keys compare by value equality (an equivalence) and are hashable', 'validate_fn is None in C16 (its effect is C10)',
               'positioning a key relative to itself (pos_key == key) and negative indices are outside the statement']
EXPLANATION = ('Every public operation of SortableDict/MetadataObject is symbolically executed from a well-formed symbolic state '
               '(symbolic length) and its final state is proved equal to the reference model operation; the model operations are '
               'proved to preserve well-formedness (unique keys, order = key set); rejected operations are proved to leave the state unchanged.')


def task_names(tier):
    return ['add_item', 'basic', 'positional', 'reorder', 'metadata', 'lemmas', 'init']


def run_task(name, tier):
    T = Task(name)
    globals()['t_' + name](T, tier)
    return T.result()


IS_NONE = z3.Function('value_is_None', smt.VAL, z3.BoolSort())


def _world():
    w = World()
    CS.install(w)
    # a stored value may be None (a null metadata value is legitimate): `v is None` on an opaque value is decided by a predicate of the value,
    # both ways are explored
    w.hooks['is_none'] = lambda it, v: it.wrap(IS_NONE(v.term)) if isinstance(v, SVal) else False
    return w


def _witness(it, m, extra):
    """model -> replay input: initial items + the operation."""
    def fn(model):
        n = model.eval(m.n, model_completion=True).as_long()
        n = max(0, min(n, 7))
        names = {}

        def kname(t):
            s = str(model.eval(t, model_completion=True))
            if s not in names:
                names[s] = 'k%d' % len(names)
            return names[s]

        def vname(t):
            return 'v' + ''.join(ch for ch in str(model.eval(t, model_completion=True)) if ch.isalnum())[-6:]
        items = []
        for i in range(n):
            kt = z3.Select(m.ord, i)
            items.append([kname(kt), vname(z3.Select(m.val, kt))])
        op = {}
        for a, v in extra.items():
            if isinstance(v, z3.ExprRef):
                if v.sort() == smt.KEY:
                    op[a] = kname(v)
                elif v.sort() == smt.VAL:
                    op[a] = vname(v)
                elif v.sort() == z3.IntSort():
                    op[a] = model.eval(v, model_completion=True).as_long()
                else:
                    op[a] = str(model.eval(v, model_completion=True))
            else:
                op[a] = v
        return {'kind': 'omap', 'initial': items, 'op': op}
    return fn


def _unchanged(it, obj, m):
    return OM.same(CS.view(it, obj), m)


# ------------------------------------------------------------------ add_item: all argument shapes
def t_add_item(T, tier):
    modes = ['none', 'index', 'poskey', 'poskey_absent', 'both']
    for existing, mode, after, replace in itertools.product((False, True), modes, (False, True), (True, False)):
        case = 'existing=%d/%s/after=%d/replace=%d' % (existing, mode, after, replace)
        w = _world()
        w.under_verification = CS.MOD + '.SortableDict.add_item'
        rejected = (mode in ('both', 'poskey_absent')) or (existing and not replace)

        def run(it, existing=existing, mode=mode, after=after, replace=replace, rejected=rejected):
            d, m = CS.sym_sdict(it, w, 'd')
            k = it.ctx.fresh('key', smt.KEY)
            v = it.ctx.fresh('value', smt.VAL)
            it.ctx.assume(z3.Select(m.dom, k) if existing else z3.Not(z3.Select(m.dom, k)))
            kwargs = {'after': after, 'replace': replace}
            extra = {'op': 'add_item', 'key': k, 'value': v, 'after': after, 'replace': replace}
            idx = P = None
            if mode in ('index', 'both'):
                idx = it.ctx.fresh('index', z3.IntSort())
                it.ctx.assume(idx >= 0)
                kwargs['index'] = SInt(idx)
                extra['index'] = idx
            if mode in ('poskey', 'poskey_absent', 'both'):
                P = it.ctx.fresh('pos_key', smt.KEY)
                it.ctx.assume(P != k)
                if mode == 'poskey':
                    it.ctx.assume(z3.Select(m.dom, P))
                elif mode == 'poskey_absent':
                    it.ctx.assume(z3.Not(z3.Select(m.dom, P)))
                kwargs['pos_key'] = SKey(P)
                extra['pos_key'] = P
            it.ctx.witness_fn = _witness(it, m, extra)
            it.frames_d = (d, m)
            r = it.call_method(d, 'add_item', [SKey(k), SVal(v)], kwargs)
            if rejected:
                it.ctx.oblige('add_item/raises.rejected_must_raise', z3.BoolVal(False), kind='raises')
                return
            if mode == 'none':
                spec = OM.add(m, k, v, existing, 'none')
            elif mode == 'index':
                spec = OM.add(m, k, v, existing, 'index', idx + 1 if after else idx)
            else:
                spec = OM.add(m, k, v, existing, 'after' if after else 'before', P)
            it.ctx.oblige('add_item/ensures.view_equals_model', OM.same(CS.view(it, d), spec))
            it.ctx.oblige('add_item/ensures.order_list_length', d.fields['_order'].length == spec.n)

        def on_raise(it, e, rejected=rejected, mode=mode, existing=existing, replace=replace):
            d, m = it.frames_d
            allowed = set()
            if mode == 'both':
                allowed.add('ValueError')
            if mode == 'poskey_absent':
                allowed.add('KeyError')
            if existing and not replace:
                allowed.add('KeyError')
            it.ctx.oblige('add_item/raises.only_documented(%s)' % e.cls, z3.BoolVal(rejected and e.cls in allowed), kind='raises')
            it.ctx.oblige('add_item/raises.state_unchanged', _unchanged(it, d, m), kind='raises')
        T.explore(w, run, case, allow_raise=on_raise)


# ------------------------------------------------------------------ basic mapping protocol
def t_basic(T, tier):
    # __setitem__
    for existing in (False, True):
        w = _world()

        def run(it, existing=existing):
            d, m = CS.sym_sdict(it, w, 'd')
            k, v = it.ctx.fresh('key', smt.KEY), it.ctx.fresh('value', smt.VAL)
            it.ctx.assume(z3.Select(m.dom, k) if existing else z3.Not(z3.Select(m.dom, k)))
            it.ctx.witness_fn = _witness(it, m, {'op': 'setitem', 'key': k, 'value': v})
            it.world.ops.setitem(it, d, SKey(k), SVal(v))
            it.ctx.oblige('__setitem__/ensures.view_equals_model', OM.same(CS.view(it, d), OM.store(m, k, v, existing)))
        T.explore(w, run, '__setitem__/existing=%d' % existing)
    # __getitem__, __contains__, get
    for existing in (False, True):
        w = _world()

        def run(it, existing=existing):
            d, m = CS.sym_sdict(it, w, 'd')
            k = it.ctx.fresh('key', smt.KEY)
            it.ctx.assume(z3.Select(m.dom, k) if existing else z3.Not(z3.Select(m.dom, k)))
            it.ctx.witness_fn = _witness(it, m, {'op': 'getitem', 'key': k})
            it.frames_d = (d, m)
            c = it.world.ops.contains(it, d, SKey(k))
            it.ctx.oblige('__contains__/ensures', (it.truth_term(c) if not isinstance(c, bool) else z3.BoolVal(c)) == z3.BoolVal(existing))
            g = it.call_method(d, 'get', [SKey(k), 'DEFAULT'])
            if existing:
                it.ctx.oblige('get/ensures.value', z3.BoolVal(isinstance(g, SVal)) if not isinstance(g, SVal) else g.term == z3.Select(m.val, k))
            else:
                it.ctx.oblige('get/ensures.default', z3.BoolVal(g == 'DEFAULT' if isinstance(g, str) else False))
            r = it.world.ops.getitem(it, d, SKey(k))
            it.ctx.oblige('__getitem__/ensures.value', z3.BoolVal(existing) if not isinstance(r, SVal) else z3.And(z3.BoolVal(existing), r.term == z3.Select(m.val, k)))
            it.ctx.oblige('__getitem__/frame.unchanged', _unchanged(it, d, m))

        def on_raise(it, e, existing=existing):
            d, m = it.frames_d
            it.ctx.oblige('__getitem__/raises.KeyError_iff_absent', z3.BoolVal(e.cls == 'KeyError' and not existing), kind='raises')
            it.ctx.oblige('__getitem__/raises.state_unchanged', _unchanged(it, d, m), kind='raises')
        T.explore(w, run, '__getitem__/existing=%d' % existing, allow_raise=on_raise)
    # __delitem__ and pop (stdlib mixin source)
    for meth in ('__delitem__', 'pop'):
        for existing in (False, True):
            w = _world()

            def run(it, existing=existing, meth=meth):
                d, m = CS.sym_sdict(it, w, 'd')
                k = it.ctx.fresh('key', smt.KEY)
                it.ctx.assume(z3.Select(m.dom, k) if existing else z3.Not(z3.Select(m.dom, k)))
                it.ctx.witness_fn = _witness(it, m, {'op': meth, 'key': k})
                it.frames_d = (d, m)
                if meth == 'pop':
                    r = it.call_method(d, 'pop', [SKey(k)])
                    it.ctx.oblige('pop/ensures.returns_value', z3.BoolVal(False) if not isinstance(r, SVal) else r.term == z3.Select(m.val, k))
                else:
                    it.world.ops.delitem(it, d, SKey(k))
                it.ctx.oblige('%s/ensures.view_equals_model' % meth, z3.And(z3.BoolVal(existing), OM.same(CS.view(it, d), OM.remove(m, k))))

            def on_raise(it, e, existing=existing, meth=meth):
                d, m = it.frames_d
                it.ctx.oblige('%s/raises.KeyError_iff_absent' % meth, z3.BoolVal(e.cls == 'KeyError' and not existing), kind='raises')
                it.ctx.oblige('%s/raises.state_unchanged' % meth, _unchanged(it, d, m), kind='raises')
            T.explore(w, run, '%s/existing=%d' % (meth, existing), allow_raise=on_raise)
    # pop with default
    for existing in (False, True):
        w = _world()

        def run(it, existing=existing):
            d, m = CS.sym_sdict(it, w, 'd')
            k = it.ctx.fresh('key', smt.KEY)
            it.ctx.assume(z3.Select(m.dom, k) if existing else z3.Not(z3.Select(m.dom, k)))
            it.ctx.witness_fn = _witness(it, m, {'op': 'pop_default', 'key': k})
            r = it.call_method(d, 'pop', [SKey(k), 'DEFAULT'])
            if existing:
                it.ctx.oblige('pop(default)/ensures.removed', z3.And(z3.BoolVal(isinstance(r, SVal)), OM.same(CS.view(it, d), OM.remove(m, k))))
            else:
                it.ctx.oblige('pop(default)/ensures.default_unchanged', z3.And(z3.BoolVal(isinstance(r, str) and r == 'DEFAULT'), _unchanged(it, d, m)))
        T.explore(w, run, 'pop_default/existing=%d' % existing)
    # __len__, __iter__
    w = _world()

    def run(it):
        d, m = CS.sym_sdict(it, w, 'd')
        it.ctx.witness_fn = _witness(it, m, {'op': 'len_iter'})
        n = it.call(w.builtins['len'], [d])
        it.ctx.oblige('__len__/ensures', it.as_term(n) == m.n)
        v = it.world.ops.iter_view(it, d)
        ok = isinstance(v, (SSeq, SView))
        it.ctx.oblige('__iter__/ensures.iterates_order', z3.BoolVal(False) if not ok else z3.And(v.length == m.n))
        if isinstance(v, SSeq):
            i = z3.Int('i!it')
            it.ctx.oblige('__iter__/ensures.elements', z3.ForAll([i], z3.Implies(z3.And(i >= 0, i < m.n), z3.Select(v.arr, i) == z3.Select(m.ord, i))))
        it.ctx.oblige('__iter__/frame.unchanged', _unchanged(it, d, m))
    T.explore(w, run, 'len_iter')


# ------------------------------------------------------------------ positional access
def t_positional(T, tier):
    for meth in ('at', 'value_at', 'pop_at'):
        w = _world()

        def run(it, meth=meth):
            d, m = CS.sym_sdict(it, w, 'd')
            i = it.ctx.fresh('index', z3.IntSort())
            it.ctx.witness_fn = _witness(it, m, {'op': meth, 'index': i})
            it.frames_d = (d, m, i)
            r = it.call_method(d, meth, [SInt(i)])
            idx = z3.If(i < 0, i + m.n, i)
            inr = z3.And(idx >= 0, idx < m.n)
            kk = z3.Select(m.ord, idx)
            if meth == 'at':
                it.ctx.oblige('at/ensures.key', z3.And(inr, z3.BoolVal(isinstance(r, SKey)), (r.term == kk) if isinstance(r, SKey) else z3.BoolVal(False)))
                it.ctx.oblige('at/frame.unchanged', _unchanged(it, d, m))
            elif meth == 'value_at':
                it.ctx.oblige('value_at/ensures.value', z3.And(inr, (r.term == z3.Select(m.val, kk)) if isinstance(r, SVal) else z3.BoolVal(False)))
                it.ctx.oblige('value_at/frame.unchanged', _unchanged(it, d, m))
            else:
                it.ctx.oblige('pop_at/ensures.value', z3.And(inr, (r.term == z3.Select(m.val, kk)) if isinstance(r, SVal) else z3.BoolVal(False)))
                it.ctx.oblige('pop_at/ensures.view_equals_model', OM.same(CS.view(it, d), OM.remove(m, kk)))

        def on_raise(it, e, meth=meth):
            d, m, i = it.frames_d
            idx = z3.If(i < 0, i + m.n, i)
            it.ctx.oblige('%s/raises.IndexError_iff_out_of_range' % meth, z3.And(z3.BoolVal(e.cls == 'IndexError'), z3.Not(z3.And(idx >= 0, idx < m.n))), kind='raises')
            it.ctx.oblige('%s/raises.state_unchanged' % meth, _unchanged(it, d, m), kind='raises')
        T.explore(w, run, meth, allow_raise=on_raise)
    for existing in (False, True):
        w = _world()

        def run(it, existing=existing):
            d, m = CS.sym_sdict(it, w, 'd')
            k = it.ctx.fresh('key', smt.KEY)
            it.ctx.assume(z3.Select(m.dom, k) if existing else z3.Not(z3.Select(m.dom, k)))
            it.ctx.witness_fn = _witness(it, m, {'op': 'index', 'key': k})
            it.frames_d = (d, m)
            r = it.call_method(d, 'index', [SKey(k)])
            it.ctx.oblige('index/ensures.position', z3.And(z3.BoolVal(existing), it.as_term(r) == z3.Select(m.pos, k)))
            it.ctx.oblige('index/frame.unchanged', _unchanged(it, d, m))

        def on_raise(it, e, existing=existing):
            d, m = it.frames_d
            it.ctx.oblige('index/raises.ValueError_iff_absent', z3.BoolVal(e.cls == 'ValueError' and not existing), kind='raises')
            it.ctx.oblige('index/raises.state_unchanged', _unchanged(it, d, m), kind='raises')
        T.explore(w, run, 'index/existing=%d' % existing, allow_raise=on_raise)


# ------------------------------------------------------------------ reverse / sort
def t_reorder(T, tier):
    F = CS.sort_key_function('keyfn')
    fid = CS.SORT_KEY_FUNCTIONS['keyfn']
    cases = [('reverse', 'reverse', {}, OM.reverse)]
    for label, kw, f, r in (('sort', {}, 0, False), ('sort(key=f)', {'key': F}, fid, False), ('sort(reverse=True)', {'reverse': True}, 0, True),
                            ('sort(key=f,reverse=True)', {'key': F, 'reverse': True}, fid, True), ('sort(key=None,reverse=False)', {'key': None, 'reverse': False}, 0, False)):
        cases.append((label, 'sort', kw, (lambda m, f=f, r=r: OM.sort(m, f, r))))
    for label, meth, kw, spec in cases:
        w = _world()

        def run(it, meth=meth, spec=spec, kw=kw, label=label):
            d, m = CS.sym_sdict(it, w, 'd')
            it.ctx.witness_fn = _witness(it, m, {'op': meth, 'args': sorted(kw)})
            it.call_method(d, meth, [], dict(kw))
            it.ctx.oblige('%s/ensures.view_equals_model(list.%s_with_the_same_arguments)' % (label, meth), OM.same(CS.view(it, d), spec(m)))
        T.explore(w, run, label)


# ------------------------------------------------------------------ MetadataObject.append / extend
MARKER_VAL = z3.Const('MARKER', smt.VAL)


def t_metadata(T, tier):
    from hv.frontend import extract
    for existing, replace, with_value in itertools.product((False, True), (True, False), (True, False)):
        w = _world()
        w.global_overrides[(CS.MMOD, 'MARKER')] = SVal(MARKER_VAL)

        def run(it, existing=existing, replace=replace, with_value=with_value):
            d, m = CS.sym_sdict(it, w, 'd', cls='MetadataObject')
            k, v = it.ctx.fresh('key', smt.KEY), it.ctx.fresh('value', smt.VAL)
            it.ctx.assume(z3.Select(m.dom, k) if existing else z3.Not(z3.Select(m.dom, k)))
            it.ctx.witness_fn = _witness(it, m, {'op': 'append', 'key': k, 'value': v if with_value else 'MARKER', 'replace': replace})
            it.frames_d = (d, m)
            args = [SKey(k)] + ([SVal(v)] if with_value else [])
            it.call_method(d, 'append', args, {'replace': replace})
            vv = v if with_value else MARKER_VAL
            it.ctx.oblige('append/ensures.view_equals_model', z3.And(z3.BoolVal(not (existing and not replace)), OM.same(CS.view(it, d), OM.store(m, k, vv, existing))))

        def on_raise(it, e, existing=existing, replace=replace):
            d, m = it.frames_d
            it.ctx.oblige('append/raises.KeyError_iff_duplicate_no_replace', z3.BoolVal(e.cls == 'KeyError' and existing and not replace), kind='raises')
            it.ctx.oblige('append/raises.state_unchanged', _unchanged(it, d, m), kind='raises')
        T.explore(w, run, 'append/existing=%d/replace=%d/value=%d' % (existing, replace, with_value), allow_raise=on_raise)

    # extend(items): loop rule -- one iteration from F(i) yields F(i+1) := store(F(i), k_i, v_i)
    w = _world()
    w.global_overrides[(CS.MMOD, 'MARKER')] = SVal(MARKER_VAL)
    Fn = z3.Function('F_n', z3.IntSort(), z3.IntSort())
    Ford = z3.Function('F_ord', z3.IntSort(), z3.ArraySort(z3.IntSort(), smt.KEY))
    Fdom = z3.Function('F_dom', z3.IntSort(), z3.ArraySort(smt.KEY, z3.BoolSort()))
    Fval = z3.Function('F_val', z3.IntSort(), z3.ArraySort(smt.KEY, smt.VAL))
    Fpos = z3.Function('F_pos', z3.IntSort(), z3.ArraySort(smt.KEY, z3.IntSort()))
    ks = z3.Array('items_k', z3.IntSort(), smt.KEY)
    vs = z3.Array('items_v', z3.IntSort(), smt.VAL)

    def F(i):
        return OM.M(Fn(i), Ford(i), Fdom(i), Fval(i), Fpos(i))

    def inv(it, env, i, seq):
        d = env['self']
        return z3.And(OM.same(CS.view(it, d), F(i)), F(i).wf())

    def havoc(it, env):
        d = env['self']
        m2 = OM.fresh_M(it.ctx, 'h')
        d.fields['_values'] = type(d.fields['_values'])(m2.dom, m2.val, m2.n, smt.KEY, smt.VAL)
        d.fields['_order'] = SSeq(m2.n, m2.ord, smt.KEY, mutable=True, kind='list')
    def unfold(it, env, i):
        # ground instance at i of the model's recursive definition F(i+1) = store(F(i), k_i, v_i)
        ex = z3.Select(Fdom(i), z3.Select(ks, i))
        nxt_new = OM.store(F(i), z3.Select(ks, i), z3.Select(vs, i), False)
        nxt_old = OM.store(F(i), z3.Select(ks, i), z3.Select(vs, i), True)
        return z3.If(ex, z3.And(OM.same(F(i + 1), nxt_old), Fpos(i + 1) == nxt_old.pos),
                     z3.And(OM.same(F(i + 1), nxt_new), Fpos(i + 1) == nxt_new.pos))
    w.loop_specs[(CS.MMOD + '.MetadataObject.extend', 0)] = LoopSpec(inv, havoc, unfold=unfold)

    def run(it):
        d, m = CS.sym_sdict(it, w, 'd', cls='MetadataObject')
        n = it.ctx.fresh('n_items', z3.IntSort())
        it.ctx.assume(n >= 0)
        # F(0) = the initial state
        it.ctx.assume(z3.And(OM.same(F(z3.IntVal(0)), m), Fpos(0) == m.pos))
        items = SView(n, lambda it2, j: (SKey(z3.Select(ks, j)), SVal(z3.Select(vs, j))))
        it.call_method(d, 'extend', [items])
        it.ctx.oblige('extend/ensures.view_equals_fold_of_store', OM.same(CS.view(it, d), F(n)))
    T.explore(w, run, 'extend/list_of_pairs')


# ------------------------------------------------------------------ the model operations preserve well-formedness (R-ind-hist step)
def t_lemmas(T, tier):
    class C(object):
        n = 0

        def fresh(self, base, sort):
            return z3.Const(base, sort)
    ctx = C()
    m = OM.fresh_M(ctx, 'm')
    k, P = z3.Const('k', smt.KEY), z3.Const('P', smt.KEY)
    v = z3.Const('v', smt.VAL)
    i = z3.Int('i')
    h = [m.wf()]
    T.cover('cover/wf_nonempty', h + [m.n >= 2])
    T.lemma('model/remove/preserves_wf', h + [z3.Select(m.dom, k)], OM.remove(m, k).wf())
    T.lemma('model/insert_at/preserves_wf', h + [z3.Not(z3.Select(m.dom, k)), i >= 0, i <= m.n], OM.insert_at(m, k, v, i).wf())
    for existing in (False, True):
        pre = h + [z3.Select(m.dom, k) if existing else z3.Not(z3.Select(m.dom, k))]
        T.lemma('model/store/existing=%d/preserves_wf' % existing, pre, OM.store(m, k, v, existing).wf())
        T.lemma('model/add_index/existing=%d/preserves_wf' % existing, pre + [i >= 0], OM.add(m, k, v, existing, 'index', i).wf())
        r = OM.add(m, k, v, existing, 'index', i)
        T.lemma('model/add_index/existing=%d/key_lands_at_min(index,last)' % existing, pre + [i >= 0],
                z3.And(z3.Select(r.pos, k) == z3.If(i > r.n - 1, r.n - 1, i), z3.Select(r.ord, z3.Select(r.pos, k)) == k))
        for mode in ('before', 'after'):
            pre2 = pre + [z3.Select(m.dom, P), P != k]
            r = OM.add(m, k, v, existing, mode, P)
            T.lemma('model/add_%s/existing=%d/preserves_wf' % (mode, existing), pre2, r.wf())
            T.lemma('model/add_%s/existing=%d/lands_adjacent' % (mode, existing), pre2,
                    z3.Select(r.pos, k) == z3.Select(r.pos, P) + (1 if mode == 'after' else -1))
    T.lemma('model/reverse/preserves_wf', h, OM.reverse(m).wf())
    T.lemma('model/sort/preserves_wf', h + OM.sort_axioms(m.ord, m.n), OM.sort(m).wf())


# ------------------------------------------------------------------ __init__ establishes wf
def t_init(T, tier):
    for kind in ('none', 'pairs_distinct', 'pairs_repeated', 'dict'):
        w = _world()

        def run(it, kind=kind):
            cls = CS.cls_ref(w)
            if kind == 'none':
                d = it.call(cls, [])
                it.ctx.oblige('__init__/ensures.empty', z3.BoolVal(isinstance(d.fields['_order'], list) and d.fields['_order'] == [] and d.fields['_values'] == {}))
            else:
                # __init__(initial) is a loop of item stores (each covered by __setitem__ above); run it on concrete
                # key patterns (distinct / repeated) with symbolic values, as list of pairs and as dict
                v1, v2 = it.ctx.fresh('v1', smt.VAL), it.ctx.fresh('v2', smt.VAL)
                if kind == 'pairs_distinct':
                    d = it.call(cls, [[('a', SVal(v1)), ('b', SVal(v2))]])
                    exp_o, exp_v = ['a', 'b'], {'a': v1, 'b': v2}
                elif kind == 'pairs_repeated':
                    d = it.call(cls, [[('a', SVal(v1)), ('a', SVal(v2))]])
                    exp_o, exp_v = ['a'], {'a': v2}
                else:
                    d = it.call(cls, [{'b': SVal(v1), 'a': SVal(v2)}])
                    exp_o, exp_v = ['b', 'a'], {'b': v1, 'a': v2}
                o, vals = d.fields['_order'], d.fields['_values']
                ok = isinstance(o, list) and o == exp_o and isinstance(vals, dict) and set(vals) == set(exp_v)
                it.ctx.oblige('__init__/ensures.items_stored_in_order', z3.BoolVal(ok))
                if ok:
                    it.ctx.oblige('__init__/ensures.values', z3.And(*[vals[k].term == t for k, t in exp_v.items()]))
        T.explore(w, run, '__init__/' + kind)
