"""C02 bounded stand-in / replay: real JSON round trip over the value catalogue x versions x input forms."""
import json

from spec import hval as HV
from props import valuecat as VC

TOL = 5e-7


def roundtrip(g, form):
    import hszinc
    text = hszinc.dump(g, mode=hszinc.MODE_JSON)
    if form == 'text':
        src = text
    elif form == 'bytes':
        src = text.encode('utf-8')
    else:
        src = json.loads(text)
    return hszinc.parse(src, mode=hszinc.MODE_JSON)


def check_grid(g, form='text'):
    try:
        back = roundtrip(g, form)
    except Exception as e:
        return 'round trip raised %r' % (e,)
    a, b = HV.abs_grid(g), HV.abs_grid(back)
    if not HV.same(a, b, TOL):
        return 'round trip changed the grid: %r -> %r' % (a, b)
    r = remove_spelling(g)
    if r:
        return r
    return None


def remove_spelling(g):
    """2.0 grids spell Remove "x:", 3.0 grids "-:" - wherever it stands (grid metadata, column metadata, cells, inside collections)"""
    import hszinc
    doc = json.loads(hszinc.dump(g, mode=hszinc.MODE_JSON))
    ver = str(doc.get('meta', {}).get('ver'))
    wrong = '-:' if ver.startswith('2') else 'x:'
    found = []

    def walk(x, where):
        if isinstance(x, dict):
            for k, v in x.items():
                walk(v, where + '/' + str(k))
        elif isinstance(x, list):
            for i, v in enumerate(x):
                walk(v, where + '/%d' % i)
        elif x == wrong:
            found.append(where)
    walk(doc, '')
    if found:
        return 'a ver %s grid spells Remove %r at %s' % (ver, wrong, ', '.join(found[:3]))
    return None


def bounded(tier, seed):
    import hszinc
    failures, cases = [], 0
    for i, (label, g) in enumerate(VC.grids(tier, seed)):
        form = ('text', 'bytes', 'dict')[i % 3]
        cases += 1
        r = check_grid(g, form)
        if r and len(failures) < 15:
            failures.append({'id': 'C02/' + label, 'what': r, 'input': {'kind': 'catalogue', 'label': label, 'seed': seed, 'tier': tier, 'form': form}})
    gs = [g for _, g in list(VC.grids('quick', seed))[:4]]
    cases += 2
    try:
        back = hszinc.parse(hszinc.dump(gs, mode=hszinc.MODE_JSON), mode=hszinc.MODE_JSON, single=False)
        if len(back) != 4 or not all(HV.same(HV.abs_grid(a), HV.abs_grid(b), TOL) for a, b in zip(gs, back)):
            failures.append({'id': 'C02/array', 'what': 'array of grids does not round trip', 'input': {'kind': 'array'}})
        first = hszinc.parse(hszinc.dump(gs, mode=hszinc.MODE_JSON), mode=hszinc.MODE_JSON, single=True)
        if not HV.same(HV.abs_grid(first), HV.abs_grid(gs[0]), TOL):
            failures.append({'id': 'C02/array-single', 'what': 'single=True does not give the first grid', 'input': {'kind': 'array'}})
    except Exception as e:
        failures.append({'id': 'C02/array', 'what': 'array round trip raised %r' % (e,), 'input': {'kind': 'array'}})
    return {'cases': cases, 'failures': failures, 'bound': 'value catalogue x versions x positions x {text, bytes, pre-decoded dict}; JSON array of grids'}


def replay(inp):
    import hszinc
    if inp.get('kind') == 'catalogue':
        for label, g in VC.grids(inp.get('tier', 'quick'), inp.get('seed', 0)):
            if label == inp['label']:
                r = check_grid(g, inp.get('form', 'text'))
                return {'reproduced': bool(r), 'detail': r or ''}
        return {'reproduced': None, 'detail': 'label not found'}
    if inp.get('kind') == 'json_roundtrip' and isinstance(inp.get('text'), str):
        # witness text emitted by the writer for some value of that kind: decode and re-encode must give the same text's value
        ver = '3.0' if inp.get('ver3', True) else '2.0'
        try:
            v = hszinc.parse_scalar(json.dumps(inp['text']), mode=hszinc.MODE_JSON, version=ver)
            t2 = hszinc.dump_scalar(v, mode=hszinc.MODE_JSON, version=ver)
            t2 = json.loads(t2) if isinstance(t2, str) and t2[:1] in '"[{' else t2
        except Exception as e:
            return {'reproduced': True, 'detail': 'decoding the emitted text %r raised %r' % (inp['text'], e)}
        from spec import json_ref as JR
        try:
            same = HV.same(JR.decode_value(inp['text']), HV.abs_value(v), TOL)
        except Exception as e:
            return {'reproduced': None, 'detail': 'reference reader rejects the witness: %r' % (e,)}
        return {'reproduced': not same, 'detail': 'text %r decodes to %r' % (inp['text'], v)}
    fails = []
    for i, (label, g) in enumerate(VC.grids('quick', 0)):
        r = check_grid(g, ('text', 'bytes', 'dict')[i % 3])
        if r:
            fails.append(label + ': ' + r)
    return {'reproduced': bool(fails), 'detail': fails[:5]}
