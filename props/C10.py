"""C10 - version gating: a 2.0 grid never carries 3.0-only data (grid.py, sortabledict.py, both dumpers, both readers)."""
import itertools

import z3

from hv.vc import smt
from hv.vc.kit import Task
from hv.vc.world import World, LoopSpec
from hv.vc.symex import Obligation
from hv.vc.values import (SObj, SKey, SVal, SInt, SBool, SSeq, SMap, SView, PyExc, OutOfSubset, AbstractCallable, Closure,
                          BoundMethod, unmap)
from hv.frontend import extract
from contracts import version as CV, kinds as KD, sortabledict as CS, grid as CG
from spec import version_order as VO, omap_model as OM

HAS_CONCRETE = True
CONCRETE_TIMEOUT = {'quick': 300, 'thorough': 1800}
V, K, I, B = smt.VAL, smt.KEY, z3.IntSort(), z3.BoolSort()
TRUSTED_BASE = ['A-py', 'A-bi', 'Version._cmp / Version.nearest by their C18 contracts (nearest executed from source against the _cmp contract)',
                'kind lattice of isinstance (contracts/kinds.py); 3.0-only kind set transcribed from the statement',
                'leaf dump_* writers and decode branches by contract (their text is C04/C06/C02); only the gating decision is verified here',
                'A-pp structural reading of the live ZINC grammar object graph (which alternatives hs_scalar_2_0 has)',
                'R-ind-hist']
ASSUMPTIONS = ['column metadata stored through grid.column[name] = {...} (a plain dict, README-documented) bypasses validation: known finding',
               'declared versions strictly between two official versions: known finding (deciders disagree)']
EXPLANATION = ('The grid decision (_detect_or_validate/_assert_version), its wiring into every entry path (SortableDict.add_item calls validate_fn '
               'before any change; row stores validate every value), the writer ladders and the JSON decode cascade are symbolically executed for all '
               'versions (symbolic Version objects) and all value kinds; the five accept/refuse deciders are compared for all versions.')

GMOD = 'hszinc.grid'


def task_names(tier):
    return ['detect:1:0', 'detect:1:1', 'detect:0:0', 'detect:0:1', 'wiring_additem', 'wiring_rows', 'wiring_ctor', 'writers:zinc', 'writers:json',
            'json_reader', 'zinc_reader', 'agreement']


def run_task(name, tier):
    T = Task(name)
    parts = name.split(':')
    globals()['t_' + parts[0]](T, tier, *parts[1:])
    return T.result()


def _vstr(model, v):
    ln = max(1, min(model.eval(v.ln, model_completion=True).as_long(), 60))
    s = '.'.join(str(max(0, model.eval(z3.Select(v.arr, i), model_completion=True).as_long())) for i in range(ln))
    return s + ('a' if v.extra is not None else '')


def _base_world():
    w = World()
    CV.install(w, use_cmp_contract=True)
    KD.install(w)
    w.hooks['as_term'] = CV.as_term_hook
    return w


def _axioms(it):
    for ax in VO.strorder_axioms() + KD.axioms():
        it.ctx.assume(ax)


def V3(it):
    return VO.V(z3.IntVal(2), z3.Store(z3.Store(z3.K(I, z3.IntVal(0)), 0, 3), 1, 0), None)


# ------------------------------------------------------------------ Grid._detect_or_validate / _assert_version bodies
def mk_grid(it, w, given, extra):
    ver, vv = CV.sym_version(it, w, 'ver', extra)
    g = SObj(w.class_ref(extract.module(GMOD), 'Grid'), {'_version': ver, '_version_given': given,
                                                           '_row': [], '_index': None, 'metadata': None, 'column': None})
    return g, ver, vv


def t_detect(T, tier, given_s='1', extra_s='0'):
    for given, extra in [(given_s == '1', extra_s == '1')]:
        w = _base_world()
        KD.singleton_overrides(w, [GMOD])
        w.under_verification = GMOD + '.Grid._detect_or_validate'

        def run(it, given=given, extra=extra):
            _axioms(it)
            g, ver, vv = mk_grid(it, w, given, extra)
            val = it.ctx.fresh('val', V)
            it.ctx.assume(KD.kind(val) != KD.KID['sdict'])       # dict-like helper objects are outside the statement
            it.ctx.witness_fn = lambda model: {'kind': 'detect', 'version': _vstr(model, vv), 'given': given,
                                               'value_kind': KD.KINDS[model.eval(KD.kind(val), model_completion=True).as_long() % len(KD.KINDS)]}
            # D_grid(version): the grid refuses / upgrades iff nearest(version) < 3.0 (nearest: C18)
            near = it.call(it.getattr(CV.version_class(w), 'nearest'), [ver])
            D = VO.LT(CV.abstract(it, near), V3(it))
            it.st = (g, ver, vv, val, D)
            it.call_method(g, '_detect_or_validate', [SVal(val)])
            now = g.fields['_version']
            changed = now is not ver
            need = z3.And(KD.is30(val), D)
            if changed:
                it.ctx.oblige('_detect_or_validate/ensures.upgrade_only_when_needed', z3.And(need, z3.BoolVal(not given)))
                nv = CV.abstract(it, now)
                it.ctx.oblige('_detect_or_validate/ensures.upgraded_version_at_least_3.0', z3.Not(VO.LT(nv, V3(it))))
            else:
                it.ctx.oblige('_detect_or_validate/ensures.no_change_iff_not_needed', z3.Not(need))
            it.ctx.oblige('_detect_or_validate/frame.given_flag', z3.BoolVal(g.fields['_version_given'] is given))

        def on_raise(it, e, given=given):
            g, ver, vv, val, D = it.st
            it.ctx.oblige('_detect_or_validate/raises.ValueError_iff_3.0_kind_and_given_pre3(%s)' % e.cls,
                          z3.And(z3.BoolVal(e.cls == 'ValueError' and given), KD.is30(val), D), kind='raises')
            it.ctx.oblige('_detect_or_validate/raises.state_unchanged', z3.BoolVal(g.fields['_version'] is ver), kind='raises')
        T.explore(w, run, 'given=%d/extra=%d' % (given, extra), allow_raise=on_raise)


# ------------------------------------------------------------------ wiring: add_item validates before any change
def t_wiring_additem(T, tier):
    modes = ['none', 'index', 'poskey', 'poskey_absent', 'both']
    for existing, mode, replace in itertools.product((False, True), modes, (True, False)):
        w = World()
        CS.install(w)

        def run(it, existing=existing, mode=mode, replace=replace):
            calls = []
            st = {}

            def validate(it2, args, kw):
                calls.append((args, OM.same(CS.view(it2, st['d']), st['m'])))
                if it2.ctx.branch(it2.ctx.fresh('validate_refuses', B)):
                    it2.raise_('ValueError', 'Data type requires version')
                return None
            d, m = CS.sym_sdict(it, w, 'd', cls='MetadataObject', validate=AbstractCallable('validate_fn', validate))
            st['d'], st['m'] = d, m
            k, v = it.ctx.fresh('key', K), it.ctx.fresh('value', V)
            it.ctx.assume(z3.Select(m.dom, k) if existing else z3.Not(z3.Select(m.dom, k)))
            kwargs = {'replace': replace}
            if mode in ('index', 'both'):
                idx = it.ctx.fresh('index', I)
                it.ctx.assume(idx >= 0)
                kwargs['index'] = SInt(idx)
            if mode in ('poskey', 'poskey_absent', 'both'):
                P = it.ctx.fresh('pos_key', K)
                it.ctx.assume(P != k)
                it.ctx.assume(z3.Select(m.dom, P) if mode != 'poskey_absent' else z3.Not(z3.Select(m.dom, P)))
                kwargs['pos_key'] = SKey(P)
            it.st = (d, m, calls, v)
            it.call_method(d, 'add_item', [SKey(k), SVal(v)], kwargs)
            _check_calls(it, calls, v)

        def on_raise(it, e):
            d, m, calls, v = it.st
            _check_calls(it, calls, v)
            if e.cls == 'ValueError' and calls and e.args_ and e.args_[0] == 'Data type requires version':
                it.ctx.oblige('add_item/raises.validation_refusal_leaves_map_unchanged', OM.same(CS.view(it, d), m), kind='raises')
        T.explore(w, run, 'existing=%d/%s/replace=%d' % (existing, mode, replace), allow_raise=on_raise)
    # __setitem__ and MetadataObject.append / extend reach add_item (so they validate too)
    for meth in ('__setitem__', 'append'):
        w = World()
        CS.install(w)

        def run2(it, meth=meth):
            calls = []
            st = {}

            def validate(it2, args, kw):
                calls.append((args, OM.same(CS.view(it2, st['d']), st['m'])))
                return None
            d, m = CS.sym_sdict(it, w, 'd', cls='MetadataObject', validate=AbstractCallable('validate_fn', validate))
            st['d'], st['m'] = d, m
            k, v = it.ctx.fresh('key', K), it.ctx.fresh('value', V)
            if meth == '__setitem__':
                it.world.ops.setitem(it, d, SKey(k), SVal(v))
            else:
                it.call_method(d, 'append', [SKey(k), SVal(v)])
            _check_calls(it, calls, v)
        T.explore(w, run2, meth)


def _check_calls(it, calls, v):
    ok = len(calls) >= 1 and len(calls[0][0]) == 1 and isinstance(calls[0][0][0], SVal)
    it.ctx.oblige('add_item/ensures.validate_fn_called_with_the_value', z3.And(z3.BoolVal(ok), calls[0][0][0].term == v) if ok else z3.BoolVal(False))
    if ok:
        it.ctx.oblige('add_item/ensures.validated_before_any_change', calls[0][1])


# ------------------------------------------------------------------ wiring: row stores keep Inv (no 3.0-only value below 3.0)
def t_wiring_rows(T, tier):
    ops = {'insert': lambda it, g, i, v: it.call_method(g, 'insert', [SInt(i), SVal(v)]),
           '__setitem__': lambda it, g, i, v: it.world.ops.setitem(it, g, SInt(i), SVal(v)),
           'append': lambda it, g, i, v: it.call_method(g, 'append', [SVal(v)]),
           'extend': lambda it, g, i, v: it.call_method(g, 'extend', [[SVal(v)]]),
           '__iadd__': lambda it, g, i, v: it.call_method(g, '__iadd__', [[SVal(v)]])}
    for name, op in ops.items():
        for index in ('none', 'map'):
            w = World()
            CG.install(w)
            w.contracts[CG.MOD + '.Grid.reindex'] = CG.reindex_contract
            CG.install_extend_spec(w)

            def run(it, op=op, index=index, name=name):
                g, s0 = CG.sym_grid(it, w, 'g', index=index)
                g.fields['$entry'] = s0
                i, v = it.ctx.fresh('index', I), it.ctx.fresh('value', V)
                it.st = (g, s0)
                op(it, g, i, v)
                _inv_rows(it, g, name)

            def on_raise(it, e, name=name):
                g, s0 = it.st
                _inv_rows(it, g, name + '/raises')
            T.explore(w, run, '%s/index=%s' % (name, index), allow_raise=on_raise)


def _inv_rows(it, g, name):
    r = g.fields['_row']
    lt = it.truth_term(g.fields['$lt30'])
    lt = z3.BoolVal(lt) if isinstance(lt, bool) else lt
    j = z3.Int('j!inv')
    it.ctx.oblige('Grid.%s/ensures.Inv_rows(no 3.0-only value while version < 3.0)' % name,
                  z3.Implies(lt, z3.ForAll([j], z3.Implies(z3.And(j >= 0, j < r.length), z3.Not(CG.has30(z3.Select(r.arr, j)))))))


# ------------------------------------------------------------------ wiring: the constructor installs the callback everywhere
def t_wiring_ctor(T, tier):
    w = World()
    CS.install(w)
    KD.install(w)
    w.hooks['as_term'] = CV.as_term_hook
    KD.singleton_overrides(w, [GMOD, 'hszinc.metadata'])
    seen = []

    def detect(it, args, kw):
        seen.append(args)
        return None
    w.contracts[GMOD + '.Grid._detect_or_validate'] = detect
    w.class_ctor['Version'] = lambda it, cls, args, kw: args[0]

    def run(it):
        del seen[:]
        v1, v2, v3 = (it.ctx.fresh(n, V) for n in ('mv', 'cv1', 'cv2'))
        cls = w.class_ref(extract.module(GMOD), 'Grid')
        g = it.call(cls, [], {'version': 'VERSION', 'metadata': {'m': SVal(v1)},
                              'columns': [('c1', {'t': SVal(v2)}), ('c2', [('u', SVal(v3))])]})
        md = g.fields['metadata']
        ok_md = isinstance(md, SObj) and isinstance(md.fields.get('_validate_fn'), BoundMethod) and md.fields['_validate_fn'].selfv is g \
            and md.fields['_validate_fn'].closure.name == '_detect_or_validate'
        it.ctx.oblige('Grid.__init__/ensures.metadata_validates_through_the_grid', z3.BoolVal(ok_md))
        cols = g.fields['column']
        ok_cols = True
        vals = unmap(cols.fields['_values']) if isinstance(cols, SObj) else None
        if not isinstance(vals, dict) or list(cols.fields['_order']) != ['c1', 'c2']:
            ok_cols = False
        else:
            for c in ('c1', 'c2'):
                mo = vals[c]
                f = mo.fields.get('_validate_fn') if isinstance(mo, SObj) else None
                if not (isinstance(f, BoundMethod) and f.selfv is g and f.closure.name == '_detect_or_validate'):
                    ok_cols = False
        it.ctx.oblige('Grid.__init__/ensures.every_column_metadata_validates_through_the_grid', z3.BoolVal(ok_cols))
        got = [a[1].term for a in seen if len(a) == 2 and isinstance(a[1], SVal)]
        it.ctx.oblige('Grid.__init__/ensures.every_initial_value_validated',
                      z3.And(*[z3.Or(*[t == x for t in got]) if got else z3.BoolVal(False) for x in (v1, v2, v3)]))
    T.explore(w, run, '__init__')

    def run2(it):
        # metadata / columns handed over from ANOTHER grid (bound metadata objects, as slices, filter() and callers copying a header do): what was
        # checked against that grid's version must be checked again against this one's
        del seen[:]
        v1, v2 = (it.ctx.fresh(n, V) for n in ('mv', 'cv1'))
        cls = w.class_ref(extract.module(GMOD), 'Grid')
        g0 = it.call(cls, [], {'version': 'OTHER', 'metadata': {'m': SVal(v1)}, 'columns': [('c1', {'t': SVal(v2)})]})
        del seen[:]
        for label, kw in (('the_objects', {'metadata': g0.fields['metadata'], 'columns': g0.fields['column']}),):
            g = it.call(cls, [], dict(kw, version='VERSION'))
            got = [a[1].term for a in seen if len(a) == 2 and isinstance(a[1], SVal) and a[0] is g]
            it.ctx.oblige('Grid.__init__/ensures.values_taken_over_from_another_grid_are_validated_by_this_grid',
                          z3.And(*[z3.Or(*[t == x for t in got]) if got else z3.BoolVal(False) for x in (v1, v2)]))
            md = g.fields['metadata']
            it.ctx.oblige('Grid.__init__/ensures.own_metadata_object(not_shared_with_the_other_grid)',
                          z3.BoolVal(isinstance(md, SObj) and md is not g0.fields['metadata'] and md.fields['_validate_fn'].selfv is g))
    T.explore(w, run2, '__init__/from-another-grid')

    def run3(it):
        # the ZINC reader's grid builder (parse action of every grid, nested ones included - a nested grid may declare a LOWER version than the
        # document around it, whose grammar admitted its cells): header values and every row cell go through the new grid's validation
        del seen[:]
        v1, v2, v3, v4 = (it.ctx.fresh(n, V) for n in ('mv', 'cmv', 'cell1', 'cell2'))
        zp = extract.module('hszinc.zincparser')
        w.note_unit(zp, '_gen_grid', zp.functions['_gen_grid'])
        import collections
        col_meta = collections.OrderedDict([('c1', {'t': SVal(v2)}), ('c2', {})])
        toks = [{'ver': 'VERSION', 'm': SVal(v1)}, col_meta, [[SVal(v3), SVal(v4)]]]
        g = it.call(w.function('hszinc.zincparser', '_gen_grid'), [toks])
        ok = isinstance(g, SObj) and g.cls.name == 'Grid'
        it.ctx.oblige('_gen_grid/ensures.returns_grid', z3.BoolVal(ok))
        if not ok:
            return
        got = [a[1].term for a in seen if len(a) == 2 and isinstance(a[1], SVal) and a[0] is g]
        rows_seen = [a[1] for a in seen if len(a) == 2 and a[0] is g and isinstance(a[1], dict)]
        cells = []
        for r in rows_seen:
            cells += [x.term for x in r.values() if isinstance(x, SVal)]
        it.ctx.oblige('_gen_grid/ensures.header_values_validated_by_the_new_grid', z3.And(*[z3.Or(*[t == x for t in got]) if got else z3.BoolVal(False) for x in (v1, v2)]))
        it.ctx.oblige('_gen_grid/ensures.every_row_cell_validated_by_the_new_grid',
                      z3.And(*[z3.Or(*[t == x for t in got + cells]) if (got + cells) else z3.BoolVal(False) for x in (v3, v4)]))
        rws = g.fields['_row']
        it.ctx.oblige('_gen_grid/ensures.one_row_stored', z3.BoolVal(isinstance(rws, list) and len(rws) == 1))
    T.explore(w, run3, '_gen_grid')


# ------------------------------------------------------------------ writers: refuse 3.0-only kinds iff version < 3.0
LEAVES = ['dump_bool', 'dump_ref', 'dump_bin', 'dump_xstr', 'dump_uri', 'dump_str', 'dump_date_time', 'dump_time', 'dump_date', 'dump_coord',
          'dump_quantity', 'dump_decimal', 'dump_grid', '_dump_grid_to_json']


def t_writers(T, tier, which='zinc'):
    for mod in ('hszinc.%sdumper' % which,):
        for kname in KD.KINDS:
            if kname in KD.DICT_LIKE:
                continue
            for extra in (False, True):
                w = _base_world()
                KD.singleton_overrides(w, [mod])
                for lf in LEAVES:
                    w.contracts['%s.%s' % (mod, lf)] = (lambda it, args, kw: '<text>')
                w.hooks['iter'] = lambda it, v: [] if isinstance(v, SVal) else None
                w.hooks['val_getattr'] = lambda it, obj, name: (AbstractCallable('items', lambda it2, a, k: [])
                                                                if isinstance(obj, SVal) and name in ('items', 'keys', 'values') else NotImplemented)
                w.under_verification = mod + '.dump_scalar'

                def run(it, mod=mod, kname=kname, extra=extra):
                    _axioms(it)
                    ver, vv = CV.sym_version(it, w, 'ver', extra)
                    val = it.ctx.fresh('val', V)
                    it.ctx.assume(KD.kind(val) == KD.KID[kname])
                    it.ctx.witness_fn = lambda model: {'kind': 'writer', 'module': mod, 'value_kind': kname, 'version': _vstr(model, vv)}
                    it.st = (vv, val)
                    f = w.function(mod, 'dump_scalar')
                    it.call(f, [SVal(val)], {'version': ver})
                    D = VO.LT(vv, V3(it))
                    it.ctx.oblige('dump_scalar/ensures.emits_only_if_allowed', z3.Not(z3.And(z3.BoolVal(kname in KD.THREE_ONLY), D)))

                def on_raise(it, e, kname=kname):
                    vv, val = it.st
                    D = VO.LT(vv, V3(it))
                    if kname == 'other' and e.cls == 'NotImplementedError':
                        it.ctx.oblige('dump_scalar/raises.unhandled_kind', z3.BoolVal(True), kind='raises')
                        return
                    it.ctx.oblige('dump_scalar/raises.ValueError_iff_3.0_kind_below_3.0(%s)' % e.cls,
                                  z3.And(z3.BoolVal(e.cls == 'ValueError' and kname in KD.THREE_ONLY), D), kind='raises')
                T.explore(w, run, '%s/kind=%s/extra=%d' % (mod.split('.')[-1], kname, extra), allow_raise=on_raise)


# ------------------------------------------------------------------ JSON reader: refuses the 3.0-only encodings iff version < 3.0
def t_json_reader(T, tier):
    mod = 'hszinc.jsonparser'
    samples = {'list': (lambda: [], True), 'dict': (lambda: {}, True), 'grid': (lambda: {'meta': {'ver': '3.0'}, 'cols': [], 'rows': []}, True),
               'na': (lambda: 'z:', True), 'xstr': (lambda: 'x:hex:00', True),
               'marker': (lambda: 'm:', False), 'remove2': (lambda: 'x:', False), 'remove3': (lambda: '-:', False), 'null': (lambda: None, False),
               'bool': (lambda: True, False), 'str': (lambda: 's:x', False)}
    for name, (mk, three) in samples.items():
        for extra in (False, True):
            w = _base_world()
            KD.singleton_overrides(w, [mod])
            w.contracts[mod + '.parse_grid'] = lambda it, args, kw: '<grid>'
            w.class_ctor['XStr'] = lambda it, cls, args, kw: '<xstr>'
            w.under_verification = mod + '.parse_embedded_scalar'

            def run(it, mk=mk, three=three, extra=extra, name=name):
                _axioms(it)
                ver, vv = CV.sym_version(it, w, 'ver', extra)
                it.ctx.witness_fn = lambda model: {'kind': 'json_reader', 'sample': name, 'version': _vstr(model, vv)}
                it.st = vv
                f = w.function(mod, 'parse_embedded_scalar')
                it.call(f, [mk()], {'version': ver})
                it.ctx.oblige('parse_embedded_scalar/ensures.accepts_only_if_allowed', z3.Not(z3.And(z3.BoolVal(three), VO.LT(vv, V3(it)))))

            def on_raise(it, e, three=three):
                vv = it.st
                it.ctx.oblige('parse_embedded_scalar/raises.ValueError_iff_3.0_encoding_below_3.0(%s)' % e.cls,
                              z3.And(z3.BoolVal(e.cls == 'ValueError' and three), VO.LT(vv, V3(it))), kind='raises')
            T.explore(w, run, 'sample=%s/extra=%d' % (name, extra), allow_raise=on_raise)


# ------------------------------------------------------------------ ZINC reader: structural obligations on the live grammar
def t_zinc_reader(T, tier):
    import subprocess
    import sys
    import json
    import os
    code = r'''
import sys, json, io, contextlib
sys.path.insert(0, %r)
with contextlib.redirect_stdout(io.StringIO()):
    import hszinc.zincparser as zp
import pyparsing as pp
table = {}
for n, o in vars(zp).items():
    if n.startswith('hs_') and isinstance(o, pp.ParserElement):
        table.setdefault(str(o.copy().leaveWhitespace()), n)
for cache_name in ('hs_list', 'hs_dict', 'hs_inner_grid'):
    c = getattr(zp, cache_name)
    for o in list(getattr(c, '_known_grammars', {}).values()):
        table[str(o)] = cache_name
def names(e):
    inner = getattr(e, 'expr', e)
    return [table.get(str(x), 'UNNAMED:' + str(x)[:40]) for x in getattr(inner, 'exprs', [])]
print('HVJSON ' + json.dumps({'2.0': names(zp.hs_scalar_2_0), '3.0': names(zp.hs_scalar_3_0),
    'cache_keys': sorted(str(k) for k in zp.hs_scalar._known_grammars)}))
''' % extract.REPO
    out = subprocess.run([sys.executable, '-c', code], capture_output=True, text=True, timeout=120)
    info = None
    for l in out.stdout.splitlines():
        if l.startswith('HVJSON '):
            info = json.loads(l[7:])
    w = World()
    m = extract.module('hszinc.zincparser')
    w.note_unit(m, 'NearestMatch.__getitem__', m.classes['NearestMatch'].methods['__getitem__'])
    T.world = w
    if info is None:
        T._add(Obligation('grammar/introspection', 'unknown', 'hv', 0.0, 'x', reason='could not import the live grammar: ' + out.stderr[-300:], kind='structure'))
        return
    banned = {'hs_na', 'hs_list', 'hs_dict', 'hs_inner_grid', 'hs_xstr'}
    unnamed = [n for n in info['2.0'] + info['3.0'] if n.startswith('UNNAMED')]
    T._add(Obligation('grammar/every_alternative_identified', 'proved' if not unnamed and len(info['2.0']) >= 5 else 'unknown', 'ir', 0.0,
                      'ir', reason='unidentified alternatives: %s' % unnamed, kind='structure'))
    bad = sorted(banned & set(info['2.0']))
    T._add(Obligation('grammar/hs_scalar_2_0/has_no_3.0-only_alternative', 'proved' if not bad else 'refuted', 'ir', 0.0,
                      'ir:' + ','.join(info['2.0']), reason='alternatives: %s; offending: %s' % (info['2.0'], bad), kind='structure'))
    missing = sorted(banned - set(info['3.0']))
    T._add(Obligation('grammar/hs_scalar_3_0/has_every_3.0-only_alternative', 'proved' if not missing else 'refuted', 'ir', 0.0,
                      'ir:' + ','.join(info['3.0']), reason='alternatives: %s; missing: %s' % (info['3.0'], missing), kind='structure'))
    # NearestMatch.__getitem__: returns the grammar of nearest(ver)  (E1, Version.nearest by contract)
    ww = _base_world()

    def run(it):
        _axioms(it)
        ver, vv = CV.sym_version(it, ww, 'ver', False)
        cls = ww.class_ref(m, 'NearestMatch')
        v2 = ww.global_lookup(it, extract.module(CV.MOD), 'VER_2_0')
        v3 = ww.global_lookup(it, extract.module(CV.MOD), 'VER_3_0')
        nm = SObj(cls, {'_known_grammars': {v2: 'GRAMMAR_2_0', v3: 'GRAMMAR_3_0'}})
        ww.hooks['hash'] = CV.hash_hook
        r = it.call_method(nm, '__getitem__', [ver])
        near = it.call(it.getattr(CV.version_class(ww), 'nearest'), [ver])
        D = VO.LT(CV.abstract(it, near), V3(it))
        it.ctx.oblige('NearestMatch.__getitem__/ensures.grammar_of_nearest_version', z3.If(D, z3.BoolVal(r == 'GRAMMAR_2_0'), z3.BoolVal(r == 'GRAMMAR_3_0')))
    T.explore(ww, run, 'NearestMatch')


# ------------------------------------------------------------------ the deciders agree for every version
def t_agreement(T, tier):
    from hv.report.runner import open_findings
    kf = [f for f in open_findings('C10') if f.get('id') == 'C10-between-officials']
    for extra in (False, True):
        w = _base_world()

        def run(it, extra=extra):
            _axioms(it)
            ver, vv = CV.sym_version(it, w, 'ver', extra)
            it.ctx.witness_fn = lambda model: {'kind': 'agreement', 'version': _vstr(model, vv)}
            near = it.call(it.getattr(CV.version_class(w), 'nearest'), [ver])
            D_grid = VO.LT(CV.abstract(it, near), V3(it))      # Grid._assert_version, ZINC grammar choice
            D_wr = VO.LT(vv, V3(it))                            # both writers, JSON reader
            V2 = VO.V(z3.IntVal(2), z3.Store(z3.Store(z3.K(I, z3.IntVal(0)), 0, 2), 1, 0), None)
            between = z3.And(VO.LT(V2, vv), VO.LT(vv, V3(it)))
            if kf:
                it.ctx.oblige('deciders/agree_outside_the_recorded_region(2.0<v<3.0)', z3.Implies(z3.Not(between), D_grid == D_wr))
                it.ctx.oblige('deciders/agree_for_all_versions', D_grid == D_wr)
            else:
                it.ctx.oblige('deciders/agree_for_all_versions', D_grid == D_wr)
        T.explore(w, run, 'extra=%d' % extra)
