"""C11 bounded stand-in / replay: real Grid.filter against the reference filter semantics (spec/filter_ref.py)."""
import itertools
import random
import re

from spec import filter_ref as FR, zinc_ref as ZR


def literal(tok):
    from hszinc import Ref, Uri, Quantity
    if tok.startswith('"'):
        p = ZR._P(tok, True)
        return p.quoted('"', ZR.STR_ESC)
    if tok.startswith('`'):
        p = ZR._P(tok, True)
        return Uri(p.quoted('`', ZR.URI_ESC))
    if tok.startswith('@'):
        return Ref(tok[1:])
    if tok in ('INF', '-INF', 'NaN'):
        return float(tok)           # numbers are spelled as in ZINC: positive / negative infinity, not-a-number
    return float(tok.replace('_', ''))


def compare(op, v, lit):
    import operator
    f = {'==': operator.eq, '!=': operator.ne, '<': operator.lt, '<=': operator.le, '>': operator.gt, '>=': operator.ge}[op]
    num = lambda x: isinstance(x, (int, float)) and not isinstance(x, bool)
    if isinstance(v, bool) != isinstance(lit, bool):
        return op == '!='          # Bool and any other kind: different values, never ordered (Python would take True for 1)
    if op in ('<', '<=', '>', '>='):
        if not ((num(v) and num(lit)) or (isinstance(v, str) and isinstance(lit, str) and type(v) is type(lit))):
            return False
    try:
        return bool(f(v, lit))
    except TypeError:
        return False


def mk_grid(rows):
    from hszinc import Grid
    cols = sorted({k for r in rows for k in r})
    g = Grid(version='3.0', columns={c: {} for c in (cols or ['id'])})
    for r in rows:
        g.append(dict(r))
    return g


def rows_catalogue():
    from hszinc import MARKER, Ref, Uri
    return [
        {'id': 'r0'},
        {'id': 'r1', 'a': MARKER, 'b': MARKER, 'c': MARKER, 'n': 5.0, 's': 'abc', 'notes': 'x', 'order': 1.0},
        {'id': 'r2', 'a': MARKER, 'n': 10.0, 's': 'abd', 'siteRef': Ref('r1'), 'android': MARKER},
        {'id': 'r3', 'b': MARKER, 'n': 'text', 's': 7.0, 'siteRef': Ref('nope')},
        {'id': 'r4', 'c': MARKER, 'n': 0.0, 's': '', 'siteRef': 'r1', 'u': Uri('http://x')},
        {'id': 'r5', 'a': MARKER, 'b': MARKER, 'n': -1.5, 'es': MARKER, 'siteRef': Ref('r2'), 'd': {'x': 1.0}},
        {'id': 'r6', 'a': False, 'b': 0.0, 'c': '', 's': 'a"b', 'n': True},
        {'id': 'r7', 's': 'two  spaces', 'dis': ' lead'},
        {'id': 'r8', 's': 'two spaces', 'dis': 'lead'},
        {'id': 'r9', 'n': float('inf'), 's': 'INF'}, {'id': 'r10', 'n': float('-inf'), 's': '-INF'}, {'id': 'r11', 'n': float('nan'), 's': 'NaN'},
    ]


ATOMS = ['a', 'b', 'c', 'notes', 'not a', 'not notes', 'not es', 'order', 'android', 'n == 5', 'n != 5', 'n < 5', 'n <= 5', 'n > 5', 'n >= 5', 'n < 3kW' if False else 'n >= 0',
         's == "abc"', 's != "abc"', 's < "abd"', 's == "a\\"b"', 's == ""', 'siteRef->a', 'not siteRef->a', 'siteRef->n == 5', 'siteRef->siteRef->n == 5', 'siteRef->n > 1',
         'siteRef == @r1', 'u == `http://x`', 'd->x == 1', 'n == true', 'zzz', 'not zzz', 'zzz == 1', 'zzz != 1', 'zzz < 1', 's == "two  spaces"', 's != "two  spaces"', 'dis == " lead"', 's == "two spaces"',
         'zzz != true', 'zzz == true', 'zzz != false', 'zzz < true', 'zzz != "x"', 'zzz != @r1', 'n != true', 'a != 1', 'a == false', 'b == 0', 'b != 0', 'n == INF', 'n != INF', 'n < INF', 'n > -INF', 'n == -INF', 'n <= -INF', 's == INF', 'n == NaN', 'n != NaN', 's == "INF"']


def render(expr, rnd):
    """expr: nested tuples ('and'|'or', e1, e2, ...) or atom string -> text with spacing / parenthesis variation"""
    def r(e, parent):
        if isinstance(e, str):
            t = e
            if rnd.random() < 0.2:
                t = '(' + t + ')'
            return t
        op = e[0]
        parts = [r(x, op) for x in e[1:]]
        sp = ' ' * rnd.choice([1, 1, 2])
        t = (sp + op + sp).join(parts)
        need = (parent == 'and' and op == 'or') or (parent == op and rnd.random() < 0.3) or rnd.random() < 0.15
        if parent == op and not need:
            # same operator nested without parentheses would re-associate: a or (b or c) must keep its parentheses only if order matters (it does not for booleans)
            return t
        return '(' + t + ')' if need else t
    t = r(expr, None)
    if rnd.random() < 0.3:
        t = ' ' + t + '  '
    return t


def meaning(expr):
    if isinstance(expr, str):
        return FR.parse(expr, literal)
    op = expr[0]
    parts = [meaning(x) for x in expr[1:]]
    e = parts[0]
    for p in parts[1:]:
        e = FR.And(e, p) if op == 'and' else FR.Or(e, p)
    return e


def check(text, rows, limit=0, expr=None):
    from hszinc import Ref
    g = mk_grid(rows)
    ids_before = [id(r) for r in g._row]
    byid = {str(r['id']): r for r in rows if 'id' in r}
    try:
        ref_ast = meaning(expr) if expr is not None else FR.parse(text, literal)
    except Exception as e:
        return None       # not a filter for the reference either
    want = FR.select(rows, ref_ast, limit, lambda name: byid.get(name), lambda v: isinstance(v, Ref), lambda v: v.name, compare)
    try:
        res = g.filter(text, limit)
    except Exception as e:
        return 'filter(%r) raised %r' % (text, e)
    got = [r.get('id') for r in res]
    if got != [r.get('id') for r in want]:
        return 'filter(%r, limit=%d) -> %r, reference -> %r' % (text, limit, got, [r.get('id') for r in want])
    if [id(r) for r in g._row] != ids_before or len(g) != len(rows):
        return 'filter(%r) modified the source grid' % text
    if str(res.version) != str(g.version) or list(res.column.keys()) != list(g.column.keys()):
        return 'filter(%r) result does not carry version/columns' % text
    return None


def bounded(tier, seed):
    import io, contextlib
    rnd = random.Random(seed)
    rows = rows_catalogue()
    failures, cases = [], 0

    def run(text, limit=0, expr=None):
        nonlocal cases
        cases += 1
        r = check(text, rows, limit, expr)
        if r and len(failures) < 15:
            failures.append({'id': 'C11/' + re.sub(r'\W+', '_', text)[:50], 'what': r, 'input': {'kind': 'filter', 'text': text, 'limit': limit}})
    for a in ATOMS:
        run(a)
        run(a, limit=1)
    exprs = []
    for op in ('and', 'or'):
        for combo in itertools.permutations(['a', 'b', 'c', 'not notes', 'n > 1'], 3):
            exprs.append((op,) + combo)
    for x, y, z in itertools.permutations(['a', 'b', 'c', 'notes', 's == "abc"'], 3):
        exprs += [('or', ('and', x, y), z), ('and', ('or', x, y), z), ('or', x, ('and', y, z)), ('and', x, ('or', y, z))]
    if tier == 'quick':
        exprs = rnd.sample(exprs, 150)
    for e in exprs:
        run(render(e, rnd), expr=e)
        run(render(e, rnd), limit=2, expr=e)
    for _ in range(100 if tier == 'quick' else 2000):
        def gen(d):
            if d == 0 or rnd.random() < 0.3:
                return rnd.choice(ATOMS)
            return (rnd.choice(['and', 'or']),) + tuple(gen(d - 1) for _ in range(rnd.randint(2, 4)))
        e = gen(3)
        run(render(e, rnd), limit=rnd.choice([0, 0, 1, 3]), expr=e)
    for text in ('', '   '):
        cases += 1
        g = mk_grid(rows)
        if [r['id'] for r in g.filter(text)] != [r['id'] for r in rows] or [r['id'] for r in g.filter(text, 2)] != [r['id'] for r in rows[:2]]:
            failures.append({'id': 'C11/blank', 'what': 'blank filter does not return all rows / the first `limit` rows', 'input': {'kind': 'filter', 'text': text, 'limit': 2}})
    return {'cases': cases, 'failures': failures, 'bound': 'atoms x 7 row valuations (absent / marker / below / equal / above / other kind / dangling and valid refs); and-or trees of depth <=3 with spacing and parenthesis variation; limits'}


def replay(inp):
    if inp.get('kind') == 'filter_text' and inp.get('text') is not None:
        # a filter text on which a grammar obligation failed: the real parser against the reference parser / evaluator
        from spec import filter_ref as FR
        import hszinc
        text = inp['text']
        try:
            FR.parse(text)
            ref_ok = True
        except Exception:
            ref_ok = False
        try:
            r = check(text, rows_catalogue(), 0)
            return {'reproduced': bool(r), 'detail': r or ('reference accepts: %s' % ref_ok)}
        except Exception as e:
            return {'reproduced': True, 'detail': '%s: %s' % (type(e).__name__, e)}
    if inp.get('kind') == 'filter':
        r = check(inp['text'], rows_catalogue(), inp.get('limit', 0))
        return {'reproduced': bool(r), 'detail': r or ''}
    if inp.get('kind') == 'ref_id_deref':
        from hszinc import Grid, Ref
        rows = [{'id': Ref('s1'), 'geoCity': 'Chicago'}, {'id': Ref('e1'), 'siteRef': Ref('s1')}]
        g = mk_grid(rows)
        got = [str(r['id']) for r in g.filter('siteRef->geoCity == "Chicago"')]
        return {'reproduced': got != ['@e1'], 'detail': 'rows whose id is a Ref: siteRef->geoCity selects %r' % (got,)}
    if inp.get('kind') == 'history':
        bad = history_cases()
        return {'reproduced': bool(bad), 'detail': bad}
    if inp.get('kind') in ('header', 'rowloop'):
        bad = header_cases()
        if bad or inp.get('kind') == 'header':
            return {'reproduced': bool(bad), 'detail': bad}
    if inp.get('kind') == 'compare':
        # a refuted clause of _compare's contract for one operator: the operator against literals of every kind on rows where the tag is absent /
        # of another kind, judged by the reference semantics
        op = inp.get('op', '==')
        bad = []
        for lit in ('true', 'false', '1', '"abc"', '`http://x`', '@r1', '2020-01-01', 'INF'):
            for tag in (['zzz'] if inp.get('absent') else ['zzz', 'n', 's', 'a', 'siteRef']):
                r = check('%s %s %s' % (tag, op, lit), rows_catalogue(), 0)
                if r:
                    bad.append(r)
        return {'reproduced': bool(bad), 'detail': bad[:3]}
    import json as _json
    import os as _os
    import re as _re
    kf = _json.load(open(_os.path.join(_os.path.dirname(_os.path.dirname(_os.path.abspath(__file__))), 'known_findings.json')))
    pats = [f.get('failure_id') for f in kf.get('findings', []) if f.get('property') == 'C11' and f.get('failure_id')]
    out = bounded('quick', 0)
    fl = [f for f in out['failures'] if not any(_re.search(p_, f.get('id', '')) for p_ in pats)]        # a listed finding is not a reproduction of something else
    return {'reproduced': bool(fl), 'detail': [f['what'] for f in fl[:3]]}


def history_cases():
    """the same rows reached through a history (replace, delete, swap, reverse, insert at the front) select the same rows as a freshly built grid"""
    from hszinc import Grid, Ref, MARKER
    def rows():
        return [{'id': 's1', 'site': MARKER, 'geoCity': 'Chicago'}, {'id': 's2', 'site': MARKER, 'geoCity': 'Boston'},
                {'id': 'e1', 'equip': MARKER, 'siteRef': Ref('s1')}, {'id': 'e2', 'equip': MARKER, 'siteRef': Ref('s2')}]
    flts = ['siteRef->geoCity == "Chicago"', 'equip and siteRef->geoCity', 'not siteRef->geoCity', 'siteRef->site or site', 'siteRef->geoCity != "Boston"']

    def fresh(rs):
        g = Grid(version='3.0', columns={'id': {}, 'site': {}, 'equip': {}, 'geoCity': {}, 'siteRef': {}})
        for r in rs:
            g.append(r)
        return g
    bad = []
    hist = {'reverse': lambda g: g.reverse(), 'swap': lambda g: g.__setitem__(0, g[1]) or g.__setitem__(1, dict(id='s1', site=MARKER, geoCity='Chicago')),
            'pop-insert': lambda g: g.insert(0, g.pop(2)), 'replace-same-id': lambda g: g.__setitem__(1, {'id': 's2', 'site': MARKER, 'geoCity': 'Boston'}),
            'delete-append': lambda g: (g.__delitem__(0), g.append({'id': 's1', 'site': MARKER, 'geoCity': 'Chicago'}))}
    for hname, h in hist.items():
        for warm in (True, False):
            g = fresh(rows())
            if warm:
                g.filter('siteRef->site')       # builds the id index before the history
            try:
                h(g)
            except Exception as e:
                bad.append('history %s raised %r' % (hname, e))
                continue
            ref = fresh([dict(r) for r in g])
            for f in flts:
                try:
                    a = [r['id'] for r in g.filter(f)]
                    b = [r['id'] for r in ref.filter(f)]
                except Exception as e:
                    bad.append('after %s: filter(%r) raised %r' % (hname, f, e))
                    continue
                if a != b:
                    bad.append('after %s (index %s before): filter(%r) selects %r, a freshly built grid with the same rows selects %r' % (hname, 'built' if warm else 'not built', f, a, b))
    return bad[:3]


def header_cases():
    """version / metadata / columns of the result are those of the source grid - also when the source's version was detected from its content and
    the content that decided it is not among the selected rows"""
    import hszinc
    from hszinc import Grid, MARKER, NA
    bad = []
    for extra in ([1.0, 2.0], {'k': 1.0}, NA, hszinc.XStr('hex', '00')):
        for flt, limit in (('site', 0), ('site', 1), ('not tags', 1)):
            g = Grid(metadata={'dis': 'sites'}, columns={'id': {}, 'site': {'doc': 'x'}, 'tags': {}})
            g.append({'id': 'r1', 'site': MARKER})
            g.append({'id': 'r2', 'tags': extra})
            g.append({'id': 'r3', 'site': MARKER})
            try:
                res = g.filter(flt, limit)
            except Exception as e:
                bad.append('filter(%r, %d) on a grid whose version was detected raised %r' % (flt, limit, e))
                continue
            if str(res.version) != str(g.version) or list(res.metadata.items()) != list(g.metadata.items()) or list(res.column.keys()) != list(g.column.keys()) \
                    or dict(res.column['site']) != dict(g.column['site']):
                bad.append('filter(%r, %d): source grid is version %s (detected, because of a %s cell in a row that is not selected); the result is version %s'
                           % (flt, limit, g.version, type(extra).__name__, res.version))
    return bad[:3]


_bounded_inner = bounded


def bounded(tier, seed):
    out = _bounded_inner(tier, seed)
    # A-pp / A-pp-ws: the compiled semantics of the filter grammar against the real pyparsing elements
    import random
    from props import filtergram as FG
    from hv.peg import diff as D
    rd = FG.FilterReader()
    rnd = random.Random(seed)
    gf = rd.gf
    n_diff = 0
    for nm in ['hs_str', 'hs_number', 'hs_ref', 'hs_dateTime', 'hs_path', 'hs_cmp', 'hs_missing', 'hs_term', 'hs_condAnd', 'hs_condOr']:
        g = rd.ex.node(getattr(gf, nm))
        sem = rd.comp.compile_depth(g, {0: 1, 1: 1})
        deep = nm in ('hs_cmp', 'hs_term', 'hs_condAnd', 'hs_condOr')
        c, bad = D.compare(rd.comp, g, sem, rnd, 150 if tier != 'thorough' else 1500, mutate=not deep)
        n_diff += c
        for b in bad[:2]:
            out['failures'].append({'id': 'C11/A-pp/' + nm, 'what': 'E3 semantics %r, pyparsing %r on %r' % (b['semantics'], b['pyparsing'], b['text']), 'input': {'kind': 'app', 'element': nm, 'text': b['text']}})
    out['cases'] += n_diff
    out['bound'] = out.get('bound', '') + '; %d generated inputs comparing the compiled filter-grammar semantics with the real pyparsing elements' % n_diff
    for bad in header_cases():
        out['failures'].append({'id': 'C11/header', 'what': bad, 'input': {'kind': 'header'}})
    out['cases'] += 12
    for bad in history_cases():
        out['failures'].append({'id': 'C11/history', 'what': bad, 'input': {'kind': 'history'}})
    out['cases'] += 50
    r = replay({'kind': 'ref_id_deref'})
    out['cases'] += 1
    if r['reproduced']:
        out['failures'].append({'id': 'C11/ref-id-deref', 'what': r['detail'], 'input': {'kind': 'ref_id_deref'}})
    return out
