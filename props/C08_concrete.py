"""C08 bounded stand-in / replay: the real writers and readers of both formats.
thorough: EVERY code point U+0000..U+10FFFF (surrogates excluded for UTF-8 transport) and every string of length <= 3 over
the metacharacter alphabet, in every text-carrying position; quick: all code points below U+0300, every 251st above, strings
of length <= 2.  BOUNDED (exhaustive over those finite sets), never counted as proved."""
import itertools
import multiprocessing

META = ['"', '\\', '$', '`', ',', '\n', '\r', '\t', ' ', '>', '<', '[', ']', '{', '}', ':', 'n', 'u', '0', '\x00', '\x1f', 'é', '\U0001F600', 'N', '(', ')']
LOOKALIKES = ['\nn:1', 'setpoint\nn:21.5 °C', 'a\nd:2020-01-01', '\nh:12:30:00', 'x\nt:2020-01-01T00:00:00Z UTC', 'p\nr:abc dis', '\nm:', '\nz:', '\nx:', '\n-:', 'q\nc:1.0,2.0',
              'k\nu:http://x', 'k\nb:text/plain', 'k\nx:hex:00', 'n:1\nplain', 's:x\nn:2', 'a\n\nver:"3.0"\nx\n1', 'a"\n1,2,3', 'x","y', 'caf\\u00e9', 'C:\\temp\\u1234', '\\\\u0041',
              '\\n', '\\"', '\\$', 'a\\', '\\u', '\\u12', '$\\', '`\\`', 'ver:"2.0"', '<<', '>>', ']', '}', 'N\nN', 'T,F', 'r:x\nr:y z']
META3 = ['"', '\\', '$', '`', ',', '\n', '\r', '>', ']', '}', ':', 'n', 'u', '0', ' ']


def positions():
    """(name, builder(payload) -> (grid, extractor(grid) -> payload read back, shape description))"""
    import hszinc
    from hszinc import Grid, Uri, Ref, XStr, MARKER

    def base(ver='3.0'):
        g = Grid(version=ver, metadata={'before': 'B', 'after': 'A'})
        g.column['left'] = {}
        g.column['mid'] = {'dis': 'D'}
        g.column['right'] = {}
        return g

    def cell(wrap, unwrap):
        def build(s):
            g = base()
            g.append({'left': 'L', 'mid': wrap(s), 'right': 'R'})
            g.append({'left': 'l2', 'mid': 'm2', 'right': 'r2'})
            return g
        return build, lambda g: unwrap(g[0]['mid'])
    P = []
    P.append(('str-cell',) + cell(lambda s: s, lambda v: v if type(v) is str else ('not a str', v)))
    P.append(('uri-cell',) + cell(Uri, lambda v: str.__str__(v) if isinstance(v, Uri) else ('not a Uri', v)))
    P.append(('ref-display',) + cell(lambda s: Ref('r', s), lambda v: v.value if isinstance(v, Ref) and v.name == 'r' else ('not the Ref', v)))
    P.append(('xstr-data',) + cell(lambda s: XStr('Note', s), lambda v: v.data if isinstance(v, XStr) and v.encoding == 'Note' else ('not the XStr', v)))
    P.append(('list-element',) + cell(lambda s: ['a', s, 'z'], lambda v: v[1] if isinstance(v, list) and len(v) == 3 and v[0] == 'a' and v[2] == 'z' else ('list changed', v)))
    P.append(('dict-value',) + cell(lambda s: {'k1': 'a', 'k2': s, 'k3': 'z'}, lambda v: v['k2'] if isinstance(v, dict) and list(v.keys()) == ['k1', 'k2', 'k3'] and v['k1'] == 'a' and v['k3'] == 'z' else ('dict changed', v)))

    def nested(s):
        inner = Grid(version='3.0')
        inner.column['x'] = {}
        inner.column['y'] = {}
        inner.append({'x': s, 'y': 'Y'})
        inner.append({'x': 'x2', 'y': 'y2'})
        g = base()
        g.append({'left': 'L', 'mid': inner, 'right': 'R'})
        g.append({'left': 'l2', 'mid': 'm2', 'right': 'r2'})
        return g

    def un_nested(g):
        v = g[0]['mid']
        if not isinstance(v, Grid) or len(v) != 2 or list(v.column.keys()) != ['x', 'y'] or v[0]['y'] != 'Y' or dict(v[1]) != {'x': 'x2', 'y': 'y2'}:
            return ('nested grid changed', v)
        return v[0]['x']
    P.append(('nested-grid-cell', nested, un_nested))

    def meta(s):
        g = Grid(version='3.0', metadata={'before': 'B', 'payload': s, 'after': 'A'})
        g.column['left'] = {}
        g.column['mid'] = {'dis': 'D'}
        g.column['right'] = {}
        g.append({'left': 'L', 'mid': 'M', 'right': 'R'})
        g.append({'left': 'l2', 'mid': 'm2', 'right': 'r2'})
        return g
    P.append(('grid-metadata', meta, lambda g: g.metadata['payload']))

    def colmeta(s):
        g = base()
        g.column['mid']['payload'] = s
        g.append({'left': 'L', 'mid': 'M', 'right': 'R'})
        g.append({'left': 'l2', 'mid': 'm2', 'right': 'r2'})
        return g
    P.append(('column-metadata', colmeta, lambda g: g.column['mid']['payload']))
    return P


def check(pos, build, extract, payload, modes=None):
    import hszinc
    out = []
    g = build(payload)
    for mode in (modes or (hszinc.MODE_ZINC, hszinc.MODE_JSON)):
        mname = 'zinc' if mode == hszinc.MODE_ZINC else 'json'
        try:
            text = hszinc.dump(g, mode=mode)
            back = hszinc.parse(text, mode=mode, single=False)
        except Exception as e:
            out.append('%s/%s: %s raised on payload %r' % (pos, mname, type(e).__name__, payload))
            continue
        if len(back) != 1:
            out.append('%s/%s: %d grids read back for payload %r' % (pos, mname, len(back), payload))
            continue
        b = back[0]
        if len(b) != 2 or list(b.column.keys()) != ['left', 'mid', 'right']:
            out.append('%s/%s: shape %d rows x %r for payload %r' % (pos, mname, len(b), list(b.column.keys()), payload))
            continue
        if b[0].get('left') != 'L' and pos != 'never' or b[0].get('right') != 'R' or dict(b[1]) != {'left': 'l2', 'mid': 'm2', 'right': 'r2'} \
                or b.metadata.get('before') != 'B' or b.metadata.get('after') != 'A' or b.column['mid'].get('dis') != 'D':
            out.append('%s/%s: a neighbour changed for payload %r' % (pos, mname, payload))
            continue
        try:
            got = extract(b)
        except Exception as e:
            got = ('extract failed', repr(e))
        if got != payload:
            out.append('%s/%s: payload %r came back as %r' % (pos, mname, payload, got))
    return out


def _job(args):
    lo, hi, step = args[:3]
    sparse = args[3] if len(args) > 3 else 1
    P = positions()
    fails = []
    n = 0
    for cp in range(lo, hi, step):
        if 0xD800 <= cp <= 0xDFFF:
            continue
        s = 'a' + chr(cp) + 'b'
        for pos, build, extract in P:
            if sparse > 1 and pos not in ('str-cell', 'uri-cell') and cp % sparse and cp >= 0x300:
                continue
            n += 2
            fails += check(pos, build, extract, s)
            if len(fails) > 5:
                return n, fails[:6]
    return n, fails


def _job_strings(strings):
    P = positions()
    fails = []
    n = 0
    for s in strings:
        for pos, build, extract in P:
            n += 2
            fails += check(pos, build, extract, s)
            if len(fails) > 5:
                return n, fails[:6]
    return n, fails


def bounded(tier, seed):
    import random
    thorough = tier == 'thorough'
    jobs = []
    if thorough:
        for lo in range(0, 0x110000, 0x1000):
            jobs.append((lo, min(lo + 0x1000, 0x110000), 1, 17))
    else:
        jobs.append((0, 0x300, 1))
        for lo in range(0x300, 0x110000, 0x8000):
            jobs.append((lo + (seed % 251), min(lo + 0x8000, 0x110000), 251))
    alphabet = META if not thorough else META
    strings = [''] + [''.join(t) for n in (1, 2) for t in itertools.product(alphabet if n == 1 else META3, repeat=n)]
    if thorough:
        strings += [''.join(t) for t in itertools.product(META3, repeat=3)]
    # payloads that LOOK like another document element further in: a later line that is a complete typed JSON scalar, a ZINC cell, a row, a
    # grid header, an escape the writer itself would produce
    strings += LOOKALIKES
    rnd = random.Random(seed)
    for _ in range(60 if not thorough else 600):
        strings.append(''.join(rnd.choice(META) for _ in range(rnd.randint(4, 12))))
    chunks = [strings[i::28] for i in range(28)]
    cases, fails = 0, []
    with multiprocessing.Pool(min(14, multiprocessing.cpu_count())) as pool:
        for n, f in pool.imap_unordered(_job, jobs):
            cases += n
            fails += f
        for n, f in pool.imap_unordered(_job_strings, chunks):
            cases += n
            fails += f
    fails = sorted(set(fails))
    out = [{'id': 'C08/' + f.split(':')[0], 'what': f, 'input': {'kind': 'payload', 'position': f.split('/')[0], 'payload': f.split('payload ')[1].split(' came back')[0] if 'payload ' in f else None}}
           for f in fails[:15]]
    return {'cases': cases, 'failures': out,
            'bound': ('EVERY code point U+0000..U+10FFFF except surrogates in string and URI cells, every 17th (all below U+0300) in the 7 other positions' if thorough else 'all code points < U+0300 and every 251st above') +
                     ' and %d strings (all of length <= %d over %d metacharacters + random longer) x 9 positions x 2 formats' % (len(strings), 3 if thorough else 2, len(META3))}


def replay(inp):
    import ast
    P = positions()
    k = inp.get('kind')
    fails = []
    if k == 'payload' and inp.get('payload'):
        try:
            s = ast.literal_eval(inp['payload'])
        except Exception:
            s = None
        if isinstance(s, str):
            for pos, build, extract in P:
                fails += check(pos, build, extract, s)
            return {'reproduced': bool(fails), 'detail': fails[:4]}
    if k in ('zstr', 'codepoint') and 'cp' in inp:
        for pos, build, extract in P:
            fails += check(pos, build, extract, 'a' + chr(inp['cp']) + 'b')
        return {'reproduced': bool(fails), 'detail': fails[:4]}
    # generic: a small sweep
    for s in [''] + META + [a + b for a in META3 for b in META3]:
        for pos, build, extract in P:
            fails += check(pos, build, extract, s)
        if len(fails) > 4:
            break
    return {'reproduced': bool(fails), 'detail': fails[:4]}
