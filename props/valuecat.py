"""Catalogue of Haystack-valid values and grids for the bounded stand-ins of C01/C02/C04/C06/C07/C08 (real code, concrete)."""
import datetime
import random

TEXTS = ['', 'x', 'a b', 'n:1', 's:x', 'm:', 'x:y', 'a,b', 'a\nb', 'a\r\nb', '"', '\\', '\\"', '$', '`', '\t', 'café', ' ', '\U0001F600',
         '>>', 'a\n\nb', '[', '{', 'u:x', 'C(1,2)', '1kW', ' lead', 'trail ', '\x1f', '\x00', 'T', 'N', 'NA', 'é́', '￾', ':', 'x:hex:00', 'z:', '-:', 'r:a',
         'd:2020-01-01', 't:x', 'c:1,2', 'b:x', 'h:12:00', 'abc\n', 'a\n', '\nb', 'ab"', 'x\\', 'a$b', 'plain text,\n', 'tab\tend', 'cr\r',
         # a backslash in front of text that looks like the tail of an escape, and look-alikes of typed scalars on a later line
         'caf\\u00e9', 'C:\\temp\\u1234', '\\\\u0041', '\\n', 'x\nn:1', 'a\nd:2020-01-01']
CONTROL = [chr(c) for c in range(0x20)] + ['\x7f']


def scalar_values(tier='quick'):
    import pytz
    import hszinc
    from hszinc import Quantity, Coordinate, Uri, Bin, XStr, Ref, MARKER, NA, REMOVE
    out = [('null', None), ('marker', MARKER), ('remove', REMOVE), ('bool', True), ('bool', False)]
    for f in (0.0, 1.0, -1.5, 100.0, 1e-7, 123456.789012, 1e21, 5e-324, 1.7976931348623157e308, float('inf'), float('-inf'), float('nan'), 3, -7, 0):
        out.append(('num', f))
    for f, u in ((1.5, 'kW'), (-2.0, '%'), (0.0, '$'), (100.0, 'kW/h'), (3.25, '°C'), (1.0, 'kWh_ft'), (7, 'm')):
        out.append(('qty', Quantity(f, u)))
    out.append(('qty', Quantity(2.5, None)))
    for t in TEXTS:
        out.append(('str', t))
        out.append(('uri', Uri(t)))
    for t in ('text/plain', 'application/octet-stream', 'a b'):
        out.append(('bin', Bin(t)))
    for n, d in (('a', None), ('a.b-c:d~e_f', None), ('x', 'dis'), ('x', ''), ('x', 'a "q" b'), ('x', 'l1\nl2'), ('x', 'café \U0001F600')):
        out.append(('ref', Ref(n, d) if d is not None else Ref(n)))
    out += [('date', datetime.date(2020, 2, 29)), ('date', datetime.date(1000, 1, 1)), ('date', datetime.date(9999, 12, 31)),
            ('time', datetime.time(0, 0, 0)), ('time', datetime.time(23, 59, 59, 999999)), ('time', datetime.time(1, 2, 3, 500000)),
            # microsecond values that do not survive binary floating point (0.000029 * 1e6 < 29)
            ('time', datetime.time(12, 34, 56, 29)), ('time', datetime.time(0, 0, 0, 1)), ('time', datetime.time(7, 8, 9, 57)), ('time', datetime.time(1, 1, 1, 123457)),
            ('time', datetime.time(7, 51, 43, 1009)), ('time', datetime.time(0, 0, 59, 249)), ('time', datetime.time(23, 0, 0, 524287)), ('time', datetime.time(9, 9, 9, 493)),
            # years below 1000: four digits with leading zeros (strftime('%Y') does not pad them on every platform)
            ('date', datetime.date(987, 6, 5)), ('date', datetime.date(1, 1, 1))]
    for zn, args in (('UTC', (2020, 1, 2, 3, 4, 5)), ('Europe/Paris', (2020, 7, 1, 12, 0, 0, 250000)), ('America/New_York', (2021, 11, 7, 1, 30, 0)),
                     ('Australia/Adelaide', (2020, 1, 15, 12, 0, 0)), ('Asia/Kolkata', (1999, 12, 31, 23, 59, 59)),
                     ('Australia/Sydney', (2017, 4, 2, 2, 30, 0, 249)), ('UTC', (2001, 2, 3, 4, 5, 43, 1009)), ('Europe/London', (987, 6, 5, 4, 3, 2))):
        out.append(('datetime', pytz.timezone(zn).localize(datetime.datetime(*args))))
    # the repeated hour at the end of DST, on its first pass (still on the DST offset)
    out.append(('datetime', pytz.timezone('America/New_York').localize(datetime.datetime(2021, 11, 7, 1, 30, 0), is_dst=True)))
    out.append(('datetime', pytz.timezone('Europe/Berlin').localize(datetime.datetime(2020, 10, 25, 2, 15, 0, 250000), is_dst=True)))
    out += [('coord', Coordinate(0.0, 0.0)), ('coord', Coordinate(-37.123456, 144.987654)), ('coord', Coordinate(90.0, -180.0)), ('coord', Coordinate(1, 2))]
    return out


def v3_values():
    import hszinc
    from hszinc import XStr, NA, Grid, Ref
    inner = Grid(version='3.0')
    inner.column['x'] = {}
    inner.append({'x': 's'})
    return [('na', NA), ('xstr', XStr('hex', '00ff')), ('xstr', XStr('b64', 'AP8=')), ('xstr', XStr('Mime', 'text')), ('xstr', XStr('Other', '')),
            ('list', []), ('list', [1.0, 'a', None]), ('list', [[1.0], ['x']]), ('dict', {}), ('dict', {'a': 1.0, 'b': 'x', 'm': hszinc.MARKER}),
            ('dict', {'d': {'e': [Ref('r')]}}), ('grid', inner)]


def grid_of(values, ver, meta=None, colmeta=None):
    from hszinc import Grid
    g = Grid(version=ver, metadata=meta or {})
    cols = ['c%d' % i for i in range(len(values))] or ['empty']
    for c in cols:
        g.column[c] = dict(colmeta or {}) if False else {}
    if colmeta:
        from hszinc.metadata import MetadataObject
        for c in cols:
            for k, v in colmeta.items():
                g.column[c][k] = v
    if values:
        g.append(dict(zip(cols, values)))
    return g


def grids(tier, seed):
    """yield (label, grid) over kinds x versions x positions"""
    import hszinc
    rnd = random.Random(seed)
    sv = scalar_values(tier)
    for ver in ('2.0', '3.0'):
        vals = list(sv) + (v3_values() if ver == '3.0' else [])
        for i, (k, v) in enumerate(vals):
            yield ('cell/%s/%s/%d' % (ver, k, i), grid_of([v, 'next'], ver))
        # metadata and column metadata positions
        for i, (k, v) in enumerate(vals):
            if i % 3 == 0:
                yield ('meta/%s/%s/%d' % (ver, k, i), grid_of(['x'], ver, meta={'tag': v, 'after': 'y'}))
                yield ('colmeta/%s/%s/%d' % (ver, k, i), grid_of(['x', 'y'], ver, colmeta={'dis': v}))
        for _ in range(10 if tier == 'quick' else 200):
            row = [rnd.choice(vals)[1] for _ in range(rnd.randint(1, 5))]
            g = grid_of(row, ver)
            for _ in range(rnd.randint(0, 3)):
                cols = list(g.column.keys())
                g.append({c: rnd.choice(vals)[1] for c in cols if rnd.random() < 0.8})
            yield ('random/%s' % ver, g)
        yield ('norows/%s' % ver, grid_of([], ver))
        # version-dependent spellings (Remove) in every position of the document
        from hszinc import REMOVE
        yield ('remove-everywhere/%s' % ver, grid_of([REMOVE, 'x'], ver, meta={'gone': REMOVE, 'kept': 'y'}, colmeta={'old': REMOVE}))
        # row dicts whose key order is not the column order; columns re-ordered after the rows went in; rows with a tag that is no column
        g = grid_of(['n', 10.0, True], ver)
        cols = list(g.column.keys())
        g.append(dict((c, v) for c, v in reversed(list(zip(cols, ['s', 20.0, False])))))
        g.append(dict([(cols[1], 30.0), (cols[0], 'w'), (cols[2], True)]))
        yield ('roworder/%s' % ver, g)
        g = grid_of(['a', 1.0, 'c'], ver)
        g.column.reverse()
        yield ('colreverse/%s' % ver, g)
        g = grid_of(['a', 1.0, 'c'], ver)
        cols = list(g.column.keys())
        g.column.add_item(cols[2], {}, index=0)
        g.append(dict([(cols[0], 'x'), (cols[1], 2.0), (cols[2], 'z')]))
        yield ('colmoved/%s' % ver, g)


def fixed_offset_history():
    """date-times sharing ONE fixed-offset tzinfo object across seasons: the Haystack zone that fits depends on the date"""
    import datetime as dt
    out = []
    for hours in (9.5, -10, -9, -8, 11, 10.5):
        tz = dt.timezone(dt.timedelta(hours=hours))
        out.append([dt.datetime(2016, 7, 15, 12, 0, tzinfo=tz), dt.datetime(2016, 1, 15, 12, 0, tzinfo=tz), dt.datetime(2016, 7, 16, 12, 0, tzinfo=tz)])
    return out


def stamp_consistent(iso, zone_name):
    """the written pair (ISO stamp with offset, Haystack zone name): the named zone has that offset at that instant.
    Independent of hszinc: the Olson zone is found in pytz by its last path component."""
    import datetime as dt
    import pytz
    import iso8601
    d = iso8601.parse_date(iso)
    cands = [z for z in pytz.all_timezones if z == zone_name or z.split('/', 1)[-1] == zone_name]
    if not cands:
        return 'zone %r is not an Olson zone' % zone_name
    for z in cands:
        if d.astimezone(pytz.timezone(z)).utcoffset() == d.utcoffset():
            return None
    return 'stamp %s names zone %s whose offset at that instant is %s' % (iso, zone_name, d.astimezone(pytz.timezone(cands[0])).utcoffset())
