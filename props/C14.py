"""C14 - Grid behaves as a list of row dicts under every sequence of operations (hszinc/grid.py)."""
import z3

from hv.vc import smt
from hv.vc.kit import Task
from hv.vc.world import World, LoopSpec
from hv.vc.values import SObj, SKey, SVal, SInt, SBool, SSeq, SMap, SView, PyExc, OutOfSubset, unmap
from contracts import grid as CG
from spec import list_model as LM

HAS_CONCRETE = True
CONCRETE_TIMEOUT = {'quick': 300, 'thorough': 2400}
V, K, I, B = smt.VAL, smt.KEY, z3.IntSort(), z3.BoolSort()
SEQ = 'stdlib._collections_abc'
TRUSTED_BASE = ['A-py', 'A-bi-list', 'A-bi-dict', 'rows are opaque objects (dict-ness is an uninterpreted predicate)',
                'Grid._detect_or_validate by contract (deterministic in the value kind and the version state; body verified in C10)',
                'Grid.__init__ by contract for sliced grids: same version, metadata, columns, no rows (the bounded run checks it on the real constructor)',
                'stdlib MutableSequence mixins append/pop/extend/__iadd__/reverse/clear executed from their extracted source; '
                'A-bi-seqiter: Sequence.__iter__/__contains__/index/count/remove (generator-based) iterate self[0..len-1]',
                'R-ind-hist, R-loop']
ASSUMPTIONS = ['representation invariant of the pre-state includes C10s: a grid with a given pre-3.0 version holds no 3.0-only value']
EXPLANATION = ('alpha(grid) = grid._row; every MutableSequence primitive and the overridden extend, plus the stdlib mixins built on them, '
               'is symbolically executed from a symbolic grid (unbounded row count) and proved to act on alpha exactly as the Python list model, '
               'with the same result / exception class, and to leave the whole grid unchanged when it refuses.')


def task_names(tier):
    return ['read', 'setitem', 'delitem', 'insert', 'extend', 'extend_any', 'mixins', 'reverse_clear']


def run_task(name, tier):
    T = Task(name)
    globals()['t_' + name](T, tier)
    return T.result()


def grid_ctor_contract(it, cls, args, kwargs):
    """Grid(version=, metadata=, columns=) for a derived grid: fresh grid object carrying those three, no rows, no index."""
    ver = kwargs.get('version')
    md = kwargs.get('metadata')
    col = kwargs.get('columns')
    return SObj(cls, {'_row': [], '_index': None, '_version': ver, '_version_given': True, 'metadata': md, 'column': col,
                      '$lt30': False, '$derived': True})


def _world():
    w = World()
    CG.install(w)
    w.contracts[CG.MOD + '.Grid.reindex'] = CG.reindex_contract
    w.contracts[CG.MOD + '.Grid.insert'] = CG.insert_ghost
    w.class_ctor['Grid'] = grid_ctor_contract
    CG.install_extend_spec(w)
    return w


def _rows(g):
    r = g.fields['_row']
    return r.length, r.arr


def _witness(s0, extra):
    from props.C15 import _witness as w15
    return w15(s0, extra)


def _cases(T, name, body, allowed, under=None):
    """run `body(it, g, s0)` for a grid with / without a built index; body states the ensures; refusals are checked here"""
    for index in ('none', 'map'):
        w = _world()
        if under:
            w.under_verification = under

        def run(it, index=index):
            g, s0 = CG.sym_grid(it, w, 'g', index=index)
            g.fields['$entry'] = s0
            it.st = (g, s0)
            body(it, g, s0)

        def on_raise(it, e):
            g, s0 = it.st
            cond = getattr(it, 'exc_cond', {}).get(e.cls)
            it.ctx.oblige('Grid.%s/raises.only_as_list_or_refusal(%s)' % (name, e.cls), z3.BoolVal(False) if cond is None else cond, kind='raises')
            it.ctx.oblige('Grid.%s/raises.grid_unchanged' % name, CG.unchanged(it, g, s0), kind='raises')
        T.explore(w, run, '%s/index=%s' % (name, index), allow_raise=on_raise)


def _valid_row(v, s0):
    """the row is refused by version gating: some value is 3.0-only while the version is given and pre-3.0"""
    return z3.And(s0.given, s0.lt30, CG.has30(v))


def t_read(T, tier):
    def body(it, g, s0):
        i = it.ctx.fresh('index', I)
        it.ctx.witness_fn = _witness(s0, {'op': 'getitem', 'index': i})
        it.exc_cond = {'IndexError': z3.Not(LM.in_range(i, s0.n))}
        n = it.call(it.world.builtins['len'], [g])
        it.ctx.oblige('Grid.__len__/ensures', it.as_term(n) == s0.n)
        r = it.world.ops.getitem(it, g, SInt(i))
        it.ctx.oblige('Grid.__getitem__(int)/ensures.same_as_list', z3.And(LM.in_range(i, s0.n), r.term == LM.getitem(s0.n, s0.rows, i)) if isinstance(r, SVal) else z3.BoolVal(False))
        it.ctx.oblige('Grid.__getitem__(int)/frame.unchanged', CG.unchanged(it, g, s0))
    _cases(T, '__getitem__(int)', body, ())

    def body2(it, g, s0):
        lo, hi = it.ctx.fresh('lo', I), it.ctx.fresh('hi', I)
        it.ctx.witness_fn = _witness(s0, {'op': 'getslice', 'lo': lo, 'hi': hi})
        it.exc_cond = {}
        r = it.world.ops.getitem(it, g, slice(SInt(lo), SInt(hi), None))
        ok = isinstance(r, SObj) and r.cls.name == 'Grid' and isinstance(r.fields.get('_row'), SSeq)
        if ok:
            n2, a2 = LM.getslice(s0.n, s0.rows, lo, hi)
            rr = r.fields['_row']
            it.ctx.oblige('Grid.__getitem__(slice)/ensures.rows_are_list_slice', LM.equal(rr.length, rr.arr, n2, a2))
            it.ctx.oblige('Grid.__getitem__(slice)/ensures.carries_version_metadata_columns',
                          z3.And(z3.BoolVal(isinstance(r.fields['_version'], SVal) and isinstance(r.fields['metadata'], SVal) and isinstance(r.fields['column'], SVal)),
                                 r.fields['_version'].term == s0.version, r.fields['metadata'].term == s0.metadata, r.fields['column'].term == s0.column))
            it.ctx.oblige('Grid.__getitem__(slice)/ensures.index_not_shared', z3.BoolVal(r.fields['_index'] is None))
        else:
            it.ctx.oblige('Grid.__getitem__(slice)/ensures.returns_grid', z3.BoolVal(False))
        it.ctx.oblige('Grid.__getitem__(slice)/frame.unchanged', CG.unchanged(it, g, s0))
    _cases(T, '__getitem__(slice)', body2, ())


def t_setitem(T, tier):
    def body(it, g, s0):
        i, v = it.ctx.fresh('index', I), it.ctx.fresh('value', V)
        it.ctx.witness_fn = _witness(s0, {'op': 'setitem', 'index': i, 'value': v})
        it.exc_cond = {'TypeError': z3.Not(CG.is_dict(v)), 'IndexError': z3.And(CG.is_dict(v), z3.Not(LM.in_range(i, s0.n))),
                       'ValueError': z3.And(CG.is_dict(v), LM.in_range(i, s0.n), _valid_row(v, s0))}
        it.world.ops.setitem(it, g, SInt(i), SVal(v))
        n1, a1 = _rows(g)
        n2, a2 = LM.setitem(s0.n, s0.rows, i, v)
        it.ctx.oblige('Grid.__setitem__/ensures.same_as_list', z3.And(CG.is_dict(v), LM.in_range(i, s0.n), LM.equal(n1, a1, n2, a2)))
        s1 = CG.snapshot(it, g)
        it.ctx.oblige('Grid.__setitem__/frame.metadata_columns', z3.And(s1.metadata == s0.metadata, s1.column == s0.column))
        it.ctx.oblige('Grid.__setitem__/frame.given_version_kept', z3.Implies(s0.given, s1.version == s0.version))
    _cases(T, '__setitem__', body, (), under=CG.MOD + '.Grid.__setitem__')


def t_delitem(T, tier):
    def body(it, g, s0):
        i = it.ctx.fresh('index', I)
        it.ctx.witness_fn = _witness(s0, {'op': 'delitem', 'index': i})
        it.exc_cond = {'IndexError': z3.Not(LM.in_range(i, s0.n))}
        it.world.ops.delitem(it, g, SInt(i))
        n1, a1 = _rows(g)
        n2, a2 = LM.delitem(s0.n, s0.rows, i)
        it.ctx.oblige('Grid.__delitem__(int)/ensures.same_as_list', z3.And(LM.in_range(i, s0.n), LM.equal(n1, a1, n2, a2)))
        s1 = CG.snapshot(it, g)
        it.ctx.oblige('Grid.__delitem__(int)/frame.rest', z3.And(s1.metadata == s0.metadata, s1.column == s0.column, s1.version == s0.version))
    _cases(T, '__delitem__(int)', body, ())

    def body2(it, g, s0):
        lo, hi = it.ctx.fresh('lo', I), it.ctx.fresh('hi', I)
        it.ctx.witness_fn = _witness(s0, {'op': 'delslice', 'lo': lo, 'hi': hi})
        it.exc_cond = {}
        it.world.ops.delitem(it, g, slice(SInt(lo), SInt(hi), None))
        n1, a1 = _rows(g)
        n2, a2 = LM.delslice(s0.n, s0.rows, lo, hi)
        it.ctx.oblige('Grid.__delitem__(slice)/ensures.same_as_list', LM.equal(n1, a1, n2, a2))
    _cases(T, '__delitem__(slice)', body2, ())


def _ins_body(meth):
    def body(it, g, s0):
        v = it.ctx.fresh('value', V)
        i = it.ctx.fresh('index', I) if meth == 'insert' else s0.n
        it.ctx.witness_fn = _witness(s0, {'op': meth, 'index': i, 'value': v})
        it.exc_cond = {'TypeError': z3.Not(CG.is_dict(v)), 'ValueError': z3.And(CG.is_dict(v), _valid_row(v, s0))}
        if meth == 'insert':
            it.call_method(g, 'insert', [SInt(i), SVal(v)])
        elif meth == 'append':
            it.call_method(g, 'append', [SVal(v)])
        n1, a1 = _rows(g)
        n2, a2 = LM.insert(s0.n, s0.rows, i, v)
        it.ctx.oblige('Grid.%s/ensures.same_as_list' % meth, z3.And(CG.is_dict(v), LM.equal(n1, a1, n2, a2)))
        s1 = CG.snapshot(it, g)
        it.ctx.oblige('Grid.%s/frame.metadata_columns' % meth, z3.And(s1.metadata == s0.metadata, s1.column == s0.column))
    return body


def t_insert(T, tier):
    _cases(T, 'insert', _ins_body('insert'), (), under=CG.MOD + '.Grid.insert')


def t_extend(T, tier):
    for meth in ('extend', '__iadd__'):
        for nv in (0, 1, 2):
            def body(it, g, s0, nv=nv, meth=meth):
                vs = [it.ctx.fresh('value%d' % j, V) for j in range(nv)]
                d = {'op': 'extend' if meth == 'extend' else 'iadd'}
                for j, t in enumerate(vs):
                    d['value%d' % j] = t
                it.ctx.witness_fn = _witness(s0, d)
                # multi-row operations may stop part-way (like a list extended from a failing iterator): the statement
                # guarantees "unchanged" for single-row operations only, so only the exception class is constrained here
                it.exc_cond = {'TypeError': z3.Or(*[z3.Not(CG.is_dict(t)) for t in vs]) if vs else z3.BoolVal(False),
                               'ValueError': z3.And(s0.given, s0.lt30) if vs else z3.BoolVal(False)}
                it.multi = nv > 1
                r = it.call_method(g, meth, [[SVal(t) for t in vs]])
                n1, a1 = _rows(g)
                n2, a2 = s0.n, s0.rows
                for t in vs:
                    n2, a2 = LM.insert(n2, a2, n2, t)
                it.ctx.oblige('Grid.%s/ensures.same_as_list' % meth, LM.equal(n1, a1, n2, a2))
                if meth == '__iadd__':
                    it.ctx.oblige('Grid.__iadd__/ensures.returns_self', z3.BoolVal(r is g))
            for index in ('none', 'map'):
                w = _world()

                def run(it, index=index, body=body):
                    g, s0 = CG.sym_grid(it, w, 'g', index=index)
                    g.fields['$entry'] = s0
                    it.st = (g, s0)
                    body(it, g, s0)

                def on_raise(it, e, meth=meth):
                    g, s0 = it.st
                    cond = it.exc_cond.get(e.cls)
                    it.ctx.oblige('Grid.%s/raises.only_refusals(%s)' % (meth, e.cls), z3.BoolVal(False) if cond is None else cond, kind='raises')
                    if not it.multi:
                        it.ctx.oblige('Grid.%s/raises.grid_unchanged' % meth, CG.unchanged(it, g, s0), kind='raises')
                T.explore(w, run, '%s(%d rows)/index=%s' % (meth, nv, index), allow_raise=on_raise)


def t_extend_any(T, tier):
    """extend(values) for a list of rows of any length (loop rule on the stdlib mixin's loop)"""
    for index in ('none', 'map'):
        w = _world()

        def run(it, index=index):
            g, s0 = CG.sym_grid(it, w, 'g', index=index)
            g.fields['$entry'] = s0
            m = it.ctx.fresh('n_values', I)
            vals = it.ctx.fresh('values', z3.ArraySort(I, V))
            it.ctx.assume(m >= 0)
            it.ctx.witness_fn = _witness(s0, {'op': 'extend', 'value0': z3.Select(vals, 0)})
            it.st = (g, s0)
            it.call_method(g, 'extend', [SSeq(m, vals, V, mutable=True, kind='list')])
            n1, a1 = _rows(g)
            j = z3.Int('j!ea')
            it.ctx.oblige('Grid.extend/ensures.same_as_list', z3.And(n1 == s0.n + m,
                          z3.ForAll([j], z3.Implies(z3.And(j >= 0, j < s0.n), z3.Select(a1, j) == z3.Select(s0.rows, j))),
                          z3.ForAll([j], z3.Implies(z3.And(j >= s0.n, j < n1), z3.Select(a1, j) == z3.Select(vals, j - s0.n)))))

        def on_raise(it, e):
            it.ctx.oblige('Grid.extend/raises.only_refusals(%s)' % e.cls, z3.BoolVal(e.cls in ('TypeError', 'ValueError')), kind='raises')
        T.explore(w, run, 'extend(any length)/index=%s' % index, allow_raise=on_raise)


def t_mixins(T, tier):
    _cases(T, 'append', _ins_body('append'), ())

    def pop(it, g, s0):
        i = it.ctx.fresh('index', I)
        it.ctx.witness_fn = _witness(s0, {'op': 'pop', 'index': i})
        it.exc_cond = {'IndexError': z3.Not(LM.in_range(i, s0.n))}
        r = it.call_method(g, 'pop', [SInt(i)])
        n1, a1 = _rows(g)
        n2, a2 = LM.delitem(s0.n, s0.rows, i)
        it.ctx.oblige('Grid.pop/ensures.same_as_list', z3.And(LM.in_range(i, s0.n), LM.equal(n1, a1, n2, a2),
                                                              (r.term == LM.getitem(s0.n, s0.rows, i)) if isinstance(r, SVal) else z3.BoolVal(False)))
    _cases(T, 'pop', pop, ())

    def pop_default(it, g, s0):
        it.ctx.witness_fn = _witness(s0, {'op': 'pop', 'index': -1})
        it.exc_cond = {'IndexError': s0.n == 0}
        r = it.call_method(g, 'pop', [])
        n1, a1 = _rows(g)
        n2, a2 = LM.delitem(s0.n, s0.rows, z3.IntVal(-1))
        it.ctx.oblige('Grid.pop()/ensures.removes_last', z3.And(s0.n > 0, LM.equal(n1, a1, n2, a2)))
    _cases(T, 'pop()', pop_default, ())


# ---- stdlib MutableSequence.reverse: for i in range(n//2): self[i], self[n-i-1] = self[n-i-1], self[i]
def rev_inv(it, env, i, seq):
    g = env['self']
    s0 = g.fields['$entry']
    n1, a1 = _rows(g)
    n = s0.n
    j = z3.Int('j!rv')
    s1 = CG.snapshot(it, g)
    lt1 = z3.BoolVal(s1.lt30) if isinstance(s1.lt30, bool) else s1.lt30
    return z3.And(n1 == n, it.as_term(env['n']) == n,
                  z3.ForAll([j], z3.Implies(z3.And(j >= 0, j < n),
                                            z3.Select(a1, j) == z3.If(z3.Or(j < i, j >= n - i), z3.Select(s0.rows, n - 1 - j), z3.Select(s0.rows, j)))),
                  s1.version == s0.version, s1.metadata == s0.metadata, s1.column == s0.column, lt1 == s0.lt30)


def rev_havoc(it, env):
    g = env['self']
    c = it.ctx
    g.fields['_row'] = SSeq(c.fresh('rv_n', I), c.fresh('rv_rows', z3.ArraySort(I, V)), V, mutable=True, kind='list')
    if unmap(g.fields['_index']) is not None:
        CG.reindex_contract(it, [g], {})


def clr_inv(it, env, i, seq):
    g = env['self']
    s0 = g.fields['$entry']
    n1, a1 = _rows(g)
    j = z3.Int('j!cl')
    s1 = CG.snapshot(it, g)
    return z3.And(n1 >= 0, n1 <= s0.n, z3.ForAll([j], z3.Implies(z3.And(j >= 0, j < n1), z3.Select(a1, j) == z3.Select(s0.rows, j))),
                  s1.version == s0.version, s1.metadata == s0.metadata, s1.column == s0.column)


def t_reverse_clear(T, tier):
    for index in ('none', 'map'):
        w = _world()
        w.loop_specs[(SEQ + '.MutableSequence.reverse', 0)] = LoopSpec(rev_inv, rev_havoc)

        def run(it, index=index):
            g, s0 = CG.sym_grid(it, w, 'g', index=index)
            g.fields['$entry'] = s0
            it.ctx.witness_fn = _witness(s0, {'op': 'reverse'})
            it.call_method(g, 'reverse', [])
            n1, a1 = _rows(g)
            n2, a2 = LM.reverse(s0.n, s0.rows)
            it.ctx.oblige('Grid.reverse/ensures.same_as_list', LM.equal(n1, a1, n2, a2))
        T.explore(w, run, 'reverse/index=%s' % index)
    for index in ('none', 'map'):
        w = _world()
        w.loop_specs[(SEQ + '.MutableSequence.clear', 0)] = LoopSpec(clr_inv, rev_havoc, variant=lambda it, env: _rows(env['self'])[0])

        def run2(it, index=index):
            g, s0 = CG.sym_grid(it, w, 'g', index=index)
            g.fields['$entry'] = s0
            it.ctx.witness_fn = _witness(s0, {'op': 'clear'})
            it.call_method(g, 'clear', [])
            n1, a1 = _rows(g)
            it.ctx.oblige('Grid.clear/ensures.empty', n1 == 0)
            s1 = CG.snapshot(it, g)
            it.ctx.oblige('Grid.clear/frame.rest', z3.And(s1.version == s0.version, s1.metadata == s0.metadata, s1.column == s0.column))
        T.explore(w, run2, 'clear/index=%s' % index)
