"""C06 bounded stand-in / replay: real hszinc.dump(MODE_JSON) judged by the reference reader (spec/json_ref.py)."""
import json

from spec import json_ref as JR, hval as HV
from props import valuecat as VC

TOL = 5e-7


def check_grid(label, g):
    import hszinc
    try:
        text = hszinc.dump(g, mode=hszinc.MODE_JSON)
    except Exception as e:
        return 'dump raised %r' % (e,)
    try:
        doc = json.loads(text)
    except Exception as e:
        return 'output is not valid JSON: %r' % (e,)
    if not isinstance(doc, dict) or sorted(doc.keys()) != ['cols', 'meta', 'rows']:
        return 'document shape is not {meta, cols, rows}: %r' % (sorted(doc.keys()) if isinstance(doc, dict) else type(doc),)
    try:
        got = JR.decode_grid(doc)
    except Exception as e:
        return 'reference reader rejects the output: %r (text %r)' % (e, text[:200])
    want = HV.abs_grid(g)
    if not HV.same(got, want, TOL):
        return 'reference reader recovers %r, grid is %r' % (got, want)
    # the type prefix of a version-dependent kind is the one of the document's version, wherever the value stands
    from props import C02_concrete
    return C02_concrete.remove_spelling(g)


def bounded(tier, seed):
    import hszinc
    failures, cases = [], 0
    for label, g in VC.grids(tier, seed):
        cases += 1
        r = check_grid(label, g)
        if r and len(failures) < 15:
            failures.append({'id': 'C06/' + label, 'what': r, 'input': {'kind': 'catalogue', 'label': label, 'seed': seed, 'tier': tier}})

    # one fixed-offset tzinfo object across seasons (a history within one process): every stamp must name a zone that fits its date
    import re as _re
    import hszinc as _h
    for hist in VC.fixed_offset_history():
        for ver in ('2.0', '3.0'):
            cases += 1
            g = VC.grid_of(list(hist), ver)
            try:
                text = _h.dump(g, mode=_h.MODE_JSON)
            except ValueError:
                continue
            for iso, zn in _re.findall(r'(\d{4}-\d{2}-\d{2}T[0-9:.]+[+-]\d{2}:\d{2}) ([A-Za-z0-9_+\-]+)', text):
                bad = VC.stamp_consistent(iso, zn)
                if bad and len(failures) < 15:
                    failures.append({'id': 'C06/zone-history', 'what': bad, 'input': {'kind': 'zone_history', 'offset': str(hist[0].utcoffset())}})
    # a list of ONE grid and the empty list are JSON arrays too
    for n in (0, 1, 2):
        cases += 1
        gl = [g for _, g in list(VC.grids('quick', seed))[:n]]
        try:
            arr = json.loads(hszinc.dump(gl, mode=hszinc.MODE_JSON))
            if not isinstance(arr, list) or len(arr) != n:
                failures.append({'id': 'C06/array', 'what': 'a list of %d grid(s) is written as %s, not as a JSON array of %d' % (n, type(arr).__name__, n), 'input': {'kind': 'array'}})
        except Exception as e:
            failures.append({'id': 'C06/array', 'what': 'dump of a list of %d grids failed: %r' % (n, e), 'input': {'kind': 'array'}})
    # list of grids -> JSON array
    gs = [g for _, g in list(VC.grids('quick', seed))[:3]]
    cases += 1
    try:
        arr = json.loads(hszinc.dump(gs, mode=hszinc.MODE_JSON))
        if not isinstance(arr, list) or len(arr) != 3:
            failures.append({'id': 'C06/array', 'what': 'list of grids is not dumped as a JSON array of 3', 'input': {'kind': 'array'}})
        else:
            for d, g in zip(arr, gs):
                if not HV.same(JR.decode_grid(d), HV.abs_grid(g), TOL):
                    failures.append({'id': 'C06/array', 'what': 'array element differs', 'input': {'kind': 'array'}})
    except Exception as e:
        failures.append({'id': 'C06/array', 'what': 'dump of a list of grids failed: %r' % (e,), 'input': {'kind': 'array'}})
    return {'cases': cases, 'failures': failures, 'bound': 'value catalogue (every kind x boundary payloads) x versions 2.0/3.0 x cell/metadata/column-metadata positions + random grids'}


def replay(inp):
    if inp.get('kind') == 'zone_history':
        r = bounded('quick', 0)
        fl = [f for f in r['failures'] if f['id'].endswith('/zone-history')]
        return {'reproduced': bool(fl), 'detail': [f['what'] for f in fl[:3]]}
    import hszinc
    if inp.get('kind') in ('array', 'framing'):
        r = bounded('quick', 0)
        fl = [f for f in r['failures'] if f['id'] == 'C06/array']
        return {'reproduced': bool(fl), 'detail': [f['what'] for f in fl[:3]]}
    if inp.get('kind') == 'catalogue':
        for label, g in VC.grids(inp.get('tier', 'quick'), inp.get('seed', 0)):
            if label == inp['label']:
                r = check_grid(label, g)
                return {'reproduced': bool(r), 'detail': r or ''}
        return {'reproduced': None, 'detail': 'label not found'}
    if inp.get('kind') == 'scalar':
        # witness of a refuted obligation: run the whole catalogue for that kind
        fails = []
        for label, g in VC.grids('quick', 0):
            r = check_grid(label, g)
            if r:
                fails.append(label + ': ' + r)
        return {'reproduced': bool(fails), 'detail': fails[:5]}
    return {'reproduced': None, 'detail': 'unknown'}
