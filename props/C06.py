"""C06 - the JSON writer emits well-formed Haystack JSON that denotes the grid (hszinc/jsondumper.py)."""
import z3

from hv.vc import smt
from hv.vc.kit import Task
from hv.vc.world import World
from hv.vc.symex import Obligation
from hv.vc.values import SObj, SVal, PyExc, OutOfSubset
from hv.vc.shapes import Shape, Lit, Field
from hv.lang import automata as A
from hv.frontend import extract
from contracts import hvalues as HV, kinds as KD, version as CV
from spec import json_ref as JR

HAS_CONCRETE = True
CONCRETE_TIMEOUT = {'quick': 300, 'thorough': 1800}
MOD = 'hszinc.jsondumper'
TRUSTED_BASE = ['A-py', 'A-fl (how CPython spells floats with %f and repr)', 'A-tz (isoformat shapes)', 'A-bi-json (json.dumps escapes every string, preserves dict order)',
                'A-bi-base64 (hex / base64 alphabets)', 'zoneinfo.timezone_name by contract (C17)', 'kind lattice of isinstance',
                'E2 automata (inclusion decided over the full code point range; witnesses re-checked with CPython re)']
ASSUMPTIONS = ['versions: dump_scalar is run under 2.0 and 3.0 objects from the module (gating for all versions is C10)']
EXPLANATION = ('dump_scalar is symbolically executed for every value kind on shape-typed payloads; the produced string is proved to have the '
               'prefix and payload structure of the reference encoding (each field spelling the right part of the value) and its language to be '
               'included in the reference language; the document assembly is executed on a symbolic grid.')


def task_names(tier):
    return ['scalars:2.0', 'scalars:3.0', 'document', 'dumper']


def run_task(name, tier):
    if name == 'dumper':
        # hszinc.dump(): one grid / a list of n grids (C02's framing task: parser.parse and dumper.dump shaping)
        from props import C02
        r = C02.run_task('framing', tier)
        r['task'] = name
        return r
    T = Task(name)
    parts = name.split(':')
    globals()['t_' + parts[0]](T, tier, *parts[1:])
    return T.result()


def world():
    w = World()
    HV.install(w)
    w.contracts['hszinc.datatypes.XStr.data_to_string'] = HV.xstr_data_to_string_contract
    w.contracts['hszinc.zoneinfo.timezone_name'] = HV.timezone_name_contract
    w.global_overrides[('hszinc.datatypes', 'PINT_AVAILABLE')] = False
    w.global_overrides[('hszinc.datatypes', 'MODE_PINT')] = False
    base_isinst = w.hooks['isinstance']

    def isinst(it, v, cls):
        # Quantity is an ABC with BasicQuantity registered
        from hv.vc.values import ClassRef
        if isinstance(v, SObj) and isinstance(cls, ClassRef) and cls.name == 'Quantity':
            return v.cls.name in ('BasicQuantity', 'Qty', 'PintQuantity')
        return base_isinst(it, v, cls)
    w.hooks['isinstance'] = isinst
    return w


def expected_kind(kind, ver3):
    """value kind -> reference encoding kind (or python-level expectation)"""
    if kind.startswith('num_'):
        return 'num'
    if kind in ('qty', 'qty_inf'):
        return 'qty'
    if kind in ('qty_nounit', 'qty_emptyunit'):
        return 'num'          # a Quantity without unit is the number itself
    if kind.startswith('xstr'):
        return 'xstr'
    if kind == 'remove':
        return 'remove3' if ver3 else 'remove2'
    return kind


def check_struct(it, label, res, kind, parts):
    """result shape == prefix + fields spelling the right parts of the value"""
    exp = JR.STRUCT[kind]
    want = []
    for e in exp:
        if isinstance(e, str):
            item = ('lit', e)
        else:
            src = parts.get(e[1])
            item = ('lit', src) if isinstance(src, str) else ('field', e[0], src)
        if item[0] == 'lit' and want and want[-1][0] == 'lit':
            want[-1] = ('lit', want[-1][1] + item[1])
        else:
            want.append(item)
    ok = isinstance(res, Shape) and len(res.parts) == len(want)
    if ok:
        for g, wv in zip(res.parts, want):
            if wv[0] == 'lit':
                ok = ok and isinstance(g, Lit) and g.text == wv[1]
            else:
                fk, src = wv[1], wv[2]
                if isinstance(src, Field):
                    ok = ok and g is src
                elif fk == 'xdata':
                    ok = ok and isinstance(g, Field) and g.kind in ('hex', 'b64') and src is not None and str(g.den) == str(src)
                else:
                    ok = ok and isinstance(g, Field) and g.kind == fk and src is not None and str(g.den) == str(src)
    it.ctx.oblige('%s/ensures.prefix_and_payload_structure' % label, z3.BoolVal(bool(ok)))
    return ok


def t_scalars(T, tier, ver='3.0'):
    ver3 = ver == '3.0'
    for kind in HV.WRITER_KINDS:
        w = world()
        w.under_verification = MOD + '.dump_scalar'

        def run(it, kind=kind):
            for ax in KD.axioms():
                it.ctx.assume(ax)
            v, parts = HV.mk_wvalue(it, w, kind)
            version = w.global_lookup(it, extract.module('hszinc.version'), 'VER_3_0' if ver3 else 'VER_2_0')
            it.ctx.witness_fn = lambda model: {'kind': 'scalar', 'value_kind': kind, 'version': ver}
            it.st = kind
            f = w.function(MOD, 'dump_scalar')
            res = it.call(f, [v], {'version': version})
            label = 'dump_scalar(%s)' % kind
            if kind == 'none':
                it.ctx.oblige(label + '/ensures.null', z3.BoolVal(res is None))
                return
            if kind in ('bool_t', 'bool_f'):
                it.ctx.oblige(label + '/ensures.json_boolean', z3.BoolVal(res is (kind == 'bool_t')))
                return
            ek = expected_kind(kind, ver3)
            if 'value' in parts and 'v' not in parts:
                parts = dict(parts, v=parts['value'])
            if parts.get('class') in ('inf', '-inf', 'nan'):
                parts = dict(parts, v={'inf': 'INF', '-inf': '-INF', 'nan': 'NaN'}[parts['class']])      # the statement's spelling
            if isinstance(res, str):
                res = Shape([Lit(res)])
            check_struct(it, label, res, ek, parts)
            if isinstance(res, Shape):
                ok, wit = A.included(res.base(), JR.hull_language(ek))
                o = it.ctx.oblige(label + '/ensures.language_within_reference_encoding', z3.BoolVal(ok))
                if not ok:
                    o.reason = 'emitted text %r is not a %s encoding' % (wit, ek)
                    o.witness = {'kind': 'scalar', 'value_kind': kind, 'version': ver, 'text': wit}

        def on_raise(it, e, kind=kind):
            allowed = False
            if e.cls == 'ValueError':
                if kind == 'datetime' or (not ver3 and kind in ('na',) or (not ver3 and kind.startswith('xstr'))):
                    allowed = True
            it.ctx.oblige('dump_scalar(%s)/raises.only_documented(%s)' % (kind, e.cls), z3.BoolVal(allowed), kind='raises')
        T.explore(w, run, '%s/ver=%s' % (kind, ver), allow_raise=on_raise)


def t_document(T, tier):
    """_dump_grid_to_json / dump_grid on a symbolic grid: document shape, ver injection, every cell present, same version everywhere"""
    for ver in ('2.0', '3.0'):
        w = world()
        calls = []

        def enc(it, args, kw):
            calls.append((args[0], kw.get('version', args[1] if len(args) > 1 else None)))
            return ('ENC', args[0])
        w.contracts[MOD + '.dump_scalar'] = enc
        w.contracts['hszinc.grid.Grid._detect_or_validate'] = lambda it, a, k: None
        w.global_overrides[(MOD, 'json')] = World.Namespace('json', {'dumps': __import__('hv.vc.values', fromlist=['Builtin']).Builtin('json.dumps', lambda it, a, k: ('JSON', a[0]))})

        def run(it, ver=ver):
            del calls[:]
            vs = [SVal(it.ctx.fresh('v%d' % i, smt.VAL)) for i in range(8)]
            gcls = w.class_ref(extract.module('hszinc.grid'), 'Grid')
            g = it.call(gcls, [], {'version': ver, 'metadata': {'m1': vs[0], 'm2': vs[1]}, 'columns': [('c1', {'u': vs[2]}), ('c2', {})]})
            it.call_method(g, 'append', [{'c1': vs[3], 'c2': vs[4]}])
            it.call_method(g, 'append', [{'c1': vs[5]}])
            it.call_method(g, 'append', [{'c2': vs[6], 'c1': vs[7]}])       # a full row whose key order is not the column order
            it.ctx.witness_fn = lambda model: {'kind': 'document', 'version': ver}
            f = w.function(MOD, 'dump_grid')
            out = it.call(f, [g])
            ok = isinstance(out, tuple) and out[0] == 'JSON' and isinstance(out[1], dict)
            it.ctx.oblige('dump_grid/ensures.is_json_dumps_of_a_dict', z3.BoolVal(ok))
            if not ok:
                return
            doc = out[1]
            it.ctx.oblige('dump_grid/ensures.shape_meta_cols_rows', z3.BoolVal(sorted(doc.keys()) == ['cols', 'meta', 'rows']))
            meta = doc.get('meta', {})
            it.ctx.oblige('dump_grid/ensures.meta_has_ver_and_every_item',
                          z3.BoolVal(isinstance(meta, dict) and meta.get('ver') == ver and meta.get('m1') == ('ENC', vs[0]) and meta.get('m2') == ('ENC', vs[1])
                                     and set(meta) == {'ver', 'm1', 'm2'}))
            cols = doc.get('cols')
            okc = isinstance(cols, list) and len(cols) == 2 and cols[0] == {'u': ('ENC', vs[2]), 'name': 'c1'} and cols[1] == {'name': 'c2'}
            it.ctx.oblige('dump_grid/ensures.one_column_object_per_column_in_order', z3.BoolVal(bool(okc)))
            rows = doc.get('rows')
            # a null cell may be spelled null or left out (the reference reader reads a missing column as null)
            okr = isinstance(rows, list) and len(rows) == 3 and rows[0] == {'c1': ('ENC', vs[3]), 'c2': ('ENC', vs[4])} \
                and rows[1] in ({'c1': ('ENC', vs[5]), 'c2': ('ENC', None)}, {'c1': ('ENC', vs[5])}) and rows[2] == {'c1': ('ENC', vs[7]), 'c2': ('ENC', vs[6])}
            it.ctx.oblige('dump_grid/ensures.one_object_per_row_cells_keyed_by_column', z3.BoolVal(bool(okr)))
            gv = g.fields['_version']
            it.ctx.oblige('dump_grid/ensures.every_value_encoded_under_the_grid_version', z3.BoolVal(bool(calls) and all(v is gv for _, v in calls)))
            it.ctx.oblige('dump_grid/frame.grid_unchanged', z3.BoolVal(len(g.fields['_row']) == 3 and list(g.fields['metadata'].fields['_order']) == ['m1', 'm2']
                                                                           and list(g.fields['column'].fields['_order']) == ['c1', 'c2']))
        T.explore(w, run, 'ver=%s' % ver)
    # composite values: list / dict / nested grid go through dump_scalar recursively with the same version
    for kind in ('list', 'dict'):
        w = world()
        w.under_verification = MOD + '.dump_scalar'

        def run2(it, kind=kind):
            for ax in KD.axioms():
                it.ctx.assume(ax)
            a, pa = HV.mk_wvalue(it, w, 'str')
            version = w.global_lookup(it, extract.module('hszinc.version'), 'VER_3_0')
            f = w.function(MOD, 'dump_scalar')
            val = [a, None] if kind == 'list' else {'k': a, 'n': None}
            res = it.call(f, [val], {'version': version})
            if kind == 'list':
                ok = isinstance(res, list) and len(res) == 2 and isinstance(res[0], Shape) and res[1] is None and res[0].parts[-1] is pa['text']
            else:
                ok = isinstance(res, dict) and list(res.keys()) == ['k', 'n'] and isinstance(res['k'], Shape) and res['n'] is None and res['k'].parts[-1] is pa['text']
            it.ctx.oblige('dump_scalar(%s)/ensures.elementwise_encoding_in_order' % kind, z3.BoolVal(bool(ok)))
        T.explore(w, run2, 'composite=%s' % kind)
