"""C17 bounded stand-in / replay: the host tz database.

Validates, exhaustively on this host, the library contracts the deductive part assumes (A-tz, A-iso, A-tz-distinct)
and runs the real writer + reader in both formats at every tabulated transition of every mapped zone
(+-{0, 1 s, 30 min}, both sides of ambiguous local times, microsecond values) and for fixed-offset tzinfo at every
whole-minute offset -14h..+14h.  BOUNDED: a finite sweep of the installed tz data, never counted as proved."""
import datetime
import random

TD = datetime.timedelta
EPOCH = datetime.datetime(1970, 1, 1)


def _instants(tz, tier):
    """UTC instants to probe for one zone: every tabulated transition +-{0,1s,30min} (thorough) / those from 1965 on and a
    sample of the older ones (quick), plus fixed ordinary instants."""
    out = [datetime.datetime(2020, 1, 15, 12, 0, 0), datetime.datetime(2020, 7, 15, 12, 0, 0, 250000), datetime.datetime(1999, 12, 31, 23, 59, 59, 999999),
           # sub-second parts that binary floating point does not hold exactly (0.000249 * 1e6 < 249, 43.001009 - 43 ...)
           datetime.datetime(2017, 4, 1, 15, 30, 0, 249), datetime.datetime(2017, 4, 1, 15, 30, 43, 1009), datetime.datetime(2020, 3, 8, 6, 59, 59, 524287),
           datetime.datetime(2020, 3, 8, 6, 59, 58, 29), datetime.datetime(2021, 6, 1, 0, 0, 7, 123457)]
    trans = [t for t in getattr(tz, '_utc_transition_times', []) if t.year > 1]
    if tier != 'thorough':
        recent = [t for t in trans if t.year >= 2000]
        old = [t for t in trans if t.year < 2000]
        trans = recent[-24:] + old[::7]
    for t in trans:
        for d in (TD(0), TD(seconds=1), TD(seconds=-1), TD(minutes=30), TD(minutes=-30)):
            try:
                out.append(t + d)
            except OverflowError:
                pass
    return out


class Fixed(datetime.tzinfo):
    def __init__(self, minutes):
        self.m = minutes

    def utcoffset(self, dt):
        return TD(minutes=self.m)

    def dst(self, dt):
        return TD(0)

    def tzname(self, dt):
        return 'F%+d' % self.m


def _roundtrip(hszinc, dt, want_name, fails, ident, inp):
    """dt: aware datetime; writes in both formats, reads back; returns the name written (or None if ValueError)"""
    from hszinc import zoneinfo
    names = []
    for mode, mname in ((hszinc.MODE_ZINC, 'zinc'), (hszinc.MODE_JSON, 'json')):
        try:
            text = hszinc.dump_scalar(dt, mode=mode)
        except ValueError:
            names.append(None)
            continue
        except Exception as e:
            fails.append({'id': ident + '/dump-raises/' + mname, 'what': 'dump_scalar(%r) raised %r (only ValueError is allowed)' % (dt, e), 'input': inp})
            return None
        try:
            back = hszinc.parse_scalar(text, mode=mode)
        except Exception as e:
            fails.append({'id': ident + '/read-raises/' + mname, 'what': 'parse_scalar(%r) raised %r' % (text, e), 'input': inp})
            return None
        ok = isinstance(back, datetime.datetime) and back.tzinfo is not None
        if ok:
            same_instant = back == dt
            same_off = back.utcoffset() == dt.utcoffset()
            try:
                nm = zoneinfo.timezone_name(back)
            except Exception as e:
                nm = repr(e)
            written = text.rsplit(' ', 1)[-1]
            if not (same_instant and same_off and nm == written and (want_name is None or written == want_name)):
                fails.append({'id': ident + '/roundtrip/' + mname,
                              'what': '%r written %r read back %r: same instant %s, same offset %s (%s vs %s), zone name %r (written %r, expected %r)' % (
                                  dt, text, back, same_instant, same_off, back.utcoffset(), dt.utcoffset(), nm, written, want_name), 'input': inp})
                return None
            names.append(written)
        else:
            fails.append({'id': ident + '/roundtrip/' + mname, 'what': '%r written %r read back as %r' % (dt, text, back), 'input': inp})
            return None
    if names[0] != names[1]:
        fails.append({'id': ident + '/formats-disagree', 'what': '%r: ZINC names %r, JSON names %r' % (dt, names[0], names[1]), 'input': inp})
    return names[0]


def check_zone(hszinc, pytz, hname, tier, fails, limit=12):
    from hszinc import zoneinfo
    cases = 0
    tz = zoneinfo.timezone(hname)
    for u in _instants(tz, tier):
        aware = pytz.utc.localize(u).astimezone(tz)
        inp = {'kind': 'zone', 'zone': hname, 'utc': u.isoformat()}
        cases += 1
        # A-tz: astimezone keeps the instant, offset is the zone's
        if aware.replace(tzinfo=None) - aware.utcoffset() != u:
            fails.append({'id': 'C17/A-tz/astimezone/' + hname, 'what': 'astimezone changed the instant at %s' % u, 'input': inp})
        _roundtrip(hszinc, aware, hname, fails, 'C17/zone/' + hname, inp)
        # both readings of an ambiguous local time, and localize() of the wall clock
        naive = aware.replace(tzinfo=None)
        for is_dst in (True, False):
            try:
                loc = tz.localize(naive, is_dst=is_dst)
            except Exception:
                continue
            loc = tz.normalize(loc)
            cases += 1
            _roundtrip(hszinc, loc, hname, fails, 'C17/zone-local/' + hname, dict(inp, is_dst=is_dst, local=naive.isoformat()))
        # A-tz: tz.utcoffset(naive) raises Ambiguous/NonExistent or returns o with zone offset at (naive - o) == o
        try:
            o = tz.utcoffset(naive)
            chk = pytz.utc.localize(naive - o).astimezone(tz)
            if chk.utcoffset() != o:
                fails.append({'id': 'C17/A-tz/utcoffset-local/' + hname, 'what': 'tz.utcoffset(%s)=%s but the zone offset at that instant is %s' % (naive, o, chk.utcoffset()), 'input': inp})
        except pytz.InvalidTimeError:
            pass
        except Exception as e:
            fails.append({'id': 'C17/A-tz/utcoffset-raises/' + hname, 'what': 'tz.utcoffset(%s) raised %r (contract: only pytz.InvalidTimeError)' % (naive, e), 'input': inp})
        if len(fails) > limit:
            break
    # values that carry one of the zone's tzinfo instances with an offset the zone does not have at that instant (wall-clock arithmetic or
    # replace() on a localized value without normalize()): well-defined instants; the name written must be a zone that has THEIR offset then
    for naive, shift in ((datetime.datetime(2020, 1, 15, 12, 0), TD(days=180)), (datetime.datetime(2020, 7, 15, 12, 0), TD(days=170)),
                         (datetime.datetime(2020, 3, 29, 1, 30), TD(hours=1)), (datetime.datetime(2020, 11, 1, 0, 30), TD(hours=1))):
        try:
            stale = tz.localize(naive) + shift
        except Exception:
            continue
        cases += 1
        _roundtrip(hszinc, stale, None, fails, 'C17/zone-stale-offset/' + hname, {'kind': 'zone', 'zone': hname, 'utc': naive.isoformat(), 'stale': True})
        try:
            rep = tz.localize(naive).replace(month=(naive.month + 5) % 12 + 1, day=10)
        except Exception:
            continue
        cases += 1
        _roundtrip(hszinc, rep, None, fails, 'C17/zone-stale-offset/' + hname, {'kind': 'zone', 'zone': hname, 'utc': naive.isoformat(), 'stale': True})
    return cases


def _zone_job(a):
    import hszinc
    import pytz
    fl = []
    c = check_zone(hszinc, pytz, a[0], a[1], fl, limit=3)
    return c, fl[:4]


def check_fixed(hszinc, pytz, minutes, naive, fails):
    from hszinc import zoneinfo
    dt = naive.replace(tzinfo=Fixed(minutes))
    inp = {'kind': 'fixed', 'minutes': minutes, 'local': naive.isoformat()}
    ident = 'C17/fixed/%+d' % minutes
    try:
        name = zoneinfo.timezone_name(dt)
    except ValueError:
        name = None
    except Exception as e:
        fails.append({'id': ident + '/raises', 'what': 'timezone_name(%r) raised %r (only ValueError is allowed)' % (dt, e), 'input': inp})
        return
    if name is not None:
        z = zoneinfo.timezone(name)
        there = dt.astimezone(pytz.utc).astimezone(z)
        if there.utcoffset() != dt.utcoffset():
            fails.append({'id': ident + '/offset', 'what': 'timezone_name(%s%+d min) = %r whose offset at that instant is %s' % (naive, minutes, name, there.utcoffset()), 'input': inp})
            return
    _roundtrip(hszinc, dt, None, fails, ident, inp)


def check_lmt(pytz, zones, fails):
    """un-localised pytz tzinfo (LMT offset): either a name whose zone has that offset at that instant, or ValueError"""
    from hszinc import zoneinfo
    cases = 0
    for hname in zones:
        tz = zoneinfo.timezone(hname)
        dt = datetime.datetime(2020, 1, 1, 12, 0, tzinfo=tz)
        cases += 1
        try:
            name = zoneinfo.timezone_name(dt)
        except ValueError:
            continue
        except Exception as e:
            fails.append({'id': 'C17/lmt/raises/' + hname, 'what': repr(e), 'input': {'kind': 'lmt', 'zone': hname}})
            continue
        there = dt.astimezone(pytz.utc).astimezone(zoneinfo.timezone(name))
        if there.utcoffset() != dt.utcoffset():
            fails.append({'id': 'C17/lmt/offset/' + hname, 'what': 'tzinfo=%s attached without localize(): named %r whose offset at that instant differs (%s vs %s)' % (
                hname, name, there.utcoffset(), dt.utcoffset()), 'input': {'kind': 'lmt', 'zone': hname}})
    return cases


LOCALS = [datetime.datetime(2021, 3, 14, 2, 30), datetime.datetime(2021, 11, 7, 1, 30), datetime.datetime(2021, 10, 31, 1, 30),
          datetime.datetime(2021, 3, 28, 2, 30), datetime.datetime(2021, 4, 4, 2, 30), datetime.datetime(2021, 10, 3, 2, 30),
          datetime.datetime(2019, 1, 15, 12, 0), datetime.datetime(2019, 7, 15, 12, 0, 0, 123456), datetime.datetime(1975, 6, 1, 0, 0)]


def bounded(tier, seed):
    import hszinc
    import pytz
    import iso8601
    from hszinc import zoneinfo
    fails, cases = [], 0
    # the maps on this host
    m, r = zoneinfo.get_tz_map(), zoneinfo.get_tz_rmap()
    cases += 1
    if len(set(pytz.all_timezones)) != len(pytz.all_timezones) or any((not n) or n.endswith('/') for n in pytz.all_timezones):
        fails.append({'id': 'C17/A-tz-distinct', 'what': 'pytz.all_timezones has duplicates / empty names', 'input': {'kind': 'maps'}})
    if len(set(m.values())) != len(m) or {v: k for k, v in m.items()} != r or {v: k for k, v in r.items()} != m:
        fails.append({'id': 'C17/maps-not-inverse', 'what': 'name map (%d) and reverse map (%d) are not mutually inverse' % (len(m), len(r)), 'input': {'kind': 'maps'}})
    if m.get('UTC') is None or any(pytz.timezone(m['UTC']).utcoffset(d) != TD(0) for d in LOCALS):
        fails.append({'id': 'C17/utc-shortcut', 'what': "'UTC' is not mapped to a zero-offset zone (%r)" % (m.get('UTC'),), 'input': {'kind': 'maps'}})
    for hname, oname in sorted(m.items()):
        if not (hname in zoneinfo.HAYSTACK_TIMEZONES_SET and oname in pytz.all_timezones_set and (oname == hname or oname.split('/', 1)[1:] == [hname])):
            fails.append({'id': 'C17/maps-shape/' + hname, 'what': '%r -> %r' % (hname, oname), 'input': {'kind': 'maps'}})
    # A-iso: parse_date(isoformat) keeps instant and offset
    rnd = random.Random(seed)
    for i in range(400 if tier != 'thorough' else 4000):
        mins = rnd.randint(-14 * 60, 14 * 60)
        d = datetime.datetime(rnd.randint(1901, 2099), rnd.randint(1, 12), rnd.randint(1, 28), rnd.randint(0, 23), rnd.randint(0, 59), rnd.randint(0, 59),
                              rnd.choice([0, 0, 1, 999999, rnd.randint(0, 999999)]), tzinfo=Fixed(mins))
        cases += 1
        p = iso8601.parse_date(d.isoformat())
        if p != d or p.utcoffset() != d.utcoffset():
            fails.append({'id': 'C17/A-iso', 'what': 'parse_date(%r) = %r' % (d.isoformat(), p), 'input': {'kind': 'iso', 'text': d.isoformat()}})
            break
    # every mapped zone
    zones = sorted(m)
    if tier == 'maps-only':
        return {'cases': cases, 'failures': fails[:15], 'bound': 'maps + iso8601 only'}
    import multiprocessing
    with multiprocessing.Pool(min(14, multiprocessing.cpu_count())) as pool:
        for c, fl in pool.imap_unordered(_zone_job, [(z, tier) for z in zones], chunksize=4):
            cases += c
            fails.extend(fl)
    fails.sort(key=lambda f: f['id'])
    # fixed offsets: every whole minute -14h..+14h (thorough) / every 15 min + random (quick), at ambiguous/skipped/ordinary local times;
    # interleaved so that the same offset is seen in both seasons within one process (history)
    offs = list(range(-14 * 60, 14 * 60 + 1, 1 if tier == 'thorough' else 15))
    if tier != 'thorough':
        offs += [rnd.randint(-14 * 60, 14 * 60) for _ in range(40)]
    for naive in LOCALS:
        for mn in offs:
            cases += 1
            check_fixed(hszinc, pytz, mn, naive, fails)
            if len(fails) > 20:
                break
    cases += check_lmt(pytz, zones[:: (1 if tier == 'thorough' else 9)], fails)
    return {'cases': cases, 'failures': fails[:15],
            'bound': '%d mapped zones x tabulated transitions (%s) +-{0,1s,30min} x both ambiguous readings x both formats; fixed offsets -14h..+14h step %s at %d local times; '
                     'iso8601 on %d random stamps' % (len(zones), 'all' if tier == 'thorough' else 'last 24 since 2000 + every 7th older', '1 min' if tier == 'thorough' else '15 min + 40 random',
                                                      len(LOCALS), 4000 if tier == 'thorough' else 400)}


def replay(inp):
    import hszinc
    import pytz
    fails = []
    k = inp.get('kind')
    if k == 'zone':
        check_zone(hszinc, pytz, inp['zone'], 'thorough', fails, limit=3)
    elif k == 'fixed':
        # history: the other local times first (a memo keyed by offset only shows after an earlier call)
        for naive in LOCALS:
            check_fixed(hszinc, pytz, inp['minutes'], naive, fails)
    elif k == 'lmt':
        check_lmt(pytz, [inp['zone']], fails)
    elif k in ('maps', 'iso'):
        r = bounded('maps-only', 0)
        fails = [f for f in r['failures'] if f['input'].get('kind') == k]
    elif k == 'raises':
        # witness of a refuted deductive obligation (escaping exception / wrong offset): sweep the fixed offsets
        for naive in LOCALS:
            for mn in range(-14 * 60, 14 * 60 + 1, 30):
                check_fixed(hszinc, pytz, mn, naive, fails)
                if len(fails) > 3:
                    break
        from hszinc import zoneinfo
        check_lmt(pytz, sorted(zoneinfo.get_tz_map())[::40], fails)
    else:
        return {'reproduced': None, 'detail': 'unknown input kind'}
    return {'reproduced': bool(fails), 'detail': [f['what'] for f in fails[:4]]}
