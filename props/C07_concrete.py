"""C07 bounded stand-in / replay on the real code: every grid returned by parse (documents of the C03 speller and the reference JSON
spellings, so values carry parser-made objects) is dumped in both formats, re-parsed and compared; dumping twice gives the same
text and leaves the grid untouched; parse-then-dump is idempotent.  BOUNDED."""
import copy
import random

from spec import hval as HV
from props import valuecat as VC
from props import C03_concrete as S3

TOL = 1e-6


def normalise(text, mode):
    import hszinc
    g = hszinc.parse(text, mode=mode, single=False)
    return hszinc.dump(g if len(g) != 1 else g[0], mode=mode), g


def check_text(text, mode, label):
    """text: a document in `mode`"""
    import hszinc
    out = []
    try:
        grids = hszinc.parse(text, mode=mode, single=False)
    except Exception as e:
        return []         # not this property's business (C03 / C05)
    for g in grids:
        want = HV.abs_grid(g)
        snap = repr(want)
        for m2 in (hszinc.MODE_ZINC, hszinc.MODE_JSON):
            n2 = 'zinc' if m2 == hszinc.MODE_ZINC else 'json'
            try:
                t1 = hszinc.dump(g, mode=m2)
                t2 = hszinc.dump(g, mode=m2)
            except Exception as e:
                kind = 'nozone' if isinstance(e, ValueError) and 'timezone' in str(e) else 'between' if isinstance(e, ValueError) and 'support' in str(e) else 'dump-raises'
                out.append((kind, '%s: a grid parsed from %s cannot be written as %s: %s: %s' % (label, mode, n2, type(e).__name__, str(e)[:80])))
                continue
            if t1 != t2:
                out.append(('impure', '%s: two dumps differ' % label))
            if repr(HV.abs_grid(g)) != snap:
                out.append(('impure', '%s: dumping as %s changed the grid' % (label, n2)))
            try:
                back = hszinc.parse(t1, mode=m2, single=True)
            except Exception as e:
                out.append(('reparse', '%s: the %s dump of a parsed grid does not parse: %s on %r' % (label, n2, type(e).__name__, t1[:200])))
                continue
            if not HV.same(HV.abs_grid(back), want, TOL):
                out.append(('lossy', '%s: via %s: %r became %r' % (label, n2, want, HV.abs_grid(back))))
                continue
            try:
                t3 = hszinc.dump(back, mode=m2)
            except Exception as e:
                out.append(('dump-raises', '%s: second dump raises %s' % (label, type(e).__name__)))
                continue
            if m2 == mode and t3 != t1:
                out.append(('not-idempotent', '%s: normalising twice differs: %r vs %r' % (label, t1[:200], t3[:200])))
            elif m2 != mode:
                # transcode there and back
                try:
                    again = hszinc.parse(hszinc.dump(back, mode=mode), mode=mode, single=True)
                    if not HV.same(HV.abs_grid(again), want, TOL):
                        out.append(('lossy', '%s: %s -> %s -> %s changed the grid' % (label, mode, n2, mode)))
                except Exception as e:
                    out.append(('dump-raises', '%s: transcoding back raises %s' % (label, type(e).__name__)))
    return out


def bounded(tier, seed):
    import hszinc
    import json
    rnd = random.Random(seed)
    fails, cases, known = [], 0, {}
    reps = 1 if tier != 'thorough' else 5
    for label, g in VC.grids(tier, seed):
        for _ in range(reps):
            sp = S3.Speller(rnd, str(g.version) != '2.0')
            try:
                text = sp.grid(g)
            except Exception:
                continue
            cases += 1
            for kind, what in check_text(text, hszinc.MODE_ZINC, label):
                _rec(fails, known, kind, what, {'kind': 'doc', 'mode': 'zinc', 'text': text})
        try:
            jt = hszinc.dump(g, mode=hszinc.MODE_JSON)
        except Exception:
            continue
        cases += 1
        for kind, what in check_text(jt, hszinc.MODE_JSON, label):
            _rec(fails, known, kind, what, {'kind': 'doc', 'mode': 'json', 'text': jt})
    # date-times without a zone name and non-official versions: parser-made objects the writers must cope with
    extra = ['ver:"3.0"\na\n2020-01-01T00:00:00+05:45\n', 'ver:"3.0"\na\n2020-07-01T12:00:00Z\n', 'ver:"3.0"\na\n2020-07-01T12:00:00-04:00\n',
             'ver:"3.0"\na\n2020-01-01T00:00:00+01:23\n',
             # the same fixed offset in both seasons within one process (a zone that fits in July need not fit in January)
             'ver:"3.0"\na\n2019-07-15T12:00:00-09:00\n', 'ver:"3.0"\na\n2019-01-15T12:00:00-09:00\n',
             'ver:"3.0"\na\n2019-01-15T12:00:00+11:00\n', 'ver:"3.0"\na\n2019-07-15T12:00:00+11:00\n',
             'ver:"3.0"\na\n2019-07-15T12:00:00-08:00\n', 'ver:"3.0"\na\n2019-01-15T12:00:00-08:00\n', 'ver:"2.0.0"\na\n1\n', 'ver:"3.0.1"\na\n[1]\n', 'ver:"2.5"\na\n1\n', 'ver:"2.5"\na\n[1]\n']
    # non-official version strings with every ver-2.0 kind (a parsed grid keeps the version it declared)
    body = 'a,b,c,d,e,f,g\nR,M,N,T,1.5kW,"s",`u`\n@r "d",2020-01-01,12:00:00,C(1.0,2.0),2020-01-01T00:00:00+00:00 UTC,-INF,Bin(text/plain)\n'
    for ver in ('3.1', '3.0.0', '2.0.0', '3', '2.0a', '4.0', '2.5'):
        extra.append('ver:"%s"\n%s' % (ver, body.replace('Bin(text/plain)', 'N') if ver[0] != '2' else body))
    # JSON documents whose row objects hold their tags in another order than the columns, omit some, or hold them all
    jdocs = []
    for ver in ('2.0', '3.0'):
        cols = [{'name': 'id'}, {'name': 'dis'}, {'name': 'area'}]
        rows = [{'area': 'n:120 m', 'id': 'r:site1', 'dis': 's:Site One'}, {'dis': 's:Two', 'id': 'r:site2'}, {'id': 'r:site3', 'dis': 's:Three', 'area': 'n:5'},
                {'area': 'n:7', 'dis': 's:Four'}, {'dis': 's:Five', 'area': 'n:1', 'id': 'r:site5'}]
        jdocs.append(json.dumps({'meta': {'ver': ver}, 'cols': cols, 'rows': rows}))
        jdocs.append(json.dumps({'meta': {'ver': ver}, 'cols': list(reversed(cols)), 'rows': rows}))
    for t in jdocs:
        cases += 1
        for kind, what in check_text(t, hszinc.MODE_JSON, 'json-row-order'):
            _rec(fails, known, kind, what, {'kind': 'doc', 'mode': 'json', 'text': t})
    for t in extra:
        cases += 1
        for kind, what in check_text(t, hszinc.MODE_ZINC, 'extra'):
            _rec(fails, known, kind, what, {'kind': 'doc', 'mode': 'zinc', 'text': t})
    out = {'cases': cases, 'failures': fails[:15],
           'bound': 'catalogue grids respelled by the C03 speller (ZINC) and written as JSON, parsed, then dumped in both formats, re-parsed, dumped again, transcoded back; '
                    'plus date-times without zone names and non-official version strings'}
    for k, (what, inp) in sorted(known.items()):
        out['failures'].append({'id': 'C07/%s/' % k, 'what': what, 'input': inp})
    return out


def _rec(fails, known, kind, what, inp):
    if kind in ('nozone', 'between'):
        known.setdefault(kind, (what, inp))
    elif len(fails) < 15:
        fails.append({'id': 'C07/' + kind, 'what': what, 'input': inp})


def replay(inp):
    import hszinc
    k = inp.get('kind')
    if k == 'doc':
        mode = hszinc.MODE_ZINC if inp.get('mode') == 'zinc' else hszinc.MODE_JSON
        r = check_text(inp['text'], mode, 'replay')
        return {'reproduced': bool(r), 'detail': [w for _, w in r[:3]]}
    if k == 'nozone':
        r = check_text('ver:"3.0"\na\n2020-01-01T00:00:00+01:23\n', hszinc.MODE_ZINC, 'nozone')
        return {'reproduced': any(kk == 'nozone' for kk, _ in r), 'detail': [w for _, w in r[:2]]}
    if k == 'redump':
        r = bounded('quick', 0)
        fl = [f for f in r['failures'] if not f['id'].startswith(('C07/nozone', 'C07/between'))]
        return {'reproduced': bool(fl), 'detail': [f['what'] for f in fl[:3]]}
    if k in ('raises', 'maps'):
        from props import C17_concrete
        return C17_concrete.replay(inp)
    return {'reproduced': None, 'detail': 'unknown'}
