"""ZINC document framing (hszinc/parser.py: parse) for C03 / C08 / C01: CRLF normalisation, trailing line ends, splitting of
several grids at blank lines.

The three steps are regular-expression scans (str.replace of a literal, re.sub, re.split).  Ledger A-re-scan: such a scan goes
left to right, at each position takes the pattern's match if there is one (these patterns have a single possible extent at a
position), else moves one character on; matches do not overlap.  That is the recursive-descent expression
(pattern | any-character)*, so E3 (with one bit of left context for the look-behind `(?<=\\n)`) gives the exact set of matches for
EVERY document, and the obligations compare it with the reference document structure."""
import ast
import re

from hv.lang import automata as A, sre2nfa
from hv.lang.charset import CS, minterms
from hv.peg import marked as M, ctx as CX
from hv.frontend import extract
from props import zincread as ZR

try:
    import re._parser as sre_parse
    import re._constants as sre_c
except ImportError:      # pragma: no cover
    import sre_parse
    import sre_constants as sre_c

PMOD = 'hszinc.parser'
LINE = r'[^\r\n]+'


class Scan(object):
    """alphabet + algebra with context "the previous character is a line feed" """

    def __init__(self, nfas):
        sets = [CS.of('\n'), CS.of('\r')]
        for n in nfas:
            sets += n.labels()
        self.classes = minterms(list(dict.fromkeys(sets)))
        nl = [i for i, c in enumerate(self.classes) if ord('\n') in c]
        self.alg = CX.CtxAlgebra(len(self.classes), 0, nl)
        self._cache = {}

    def class_ids(self, cs):
        return tuple(i for i, c in enumerate(self.classes) if (c & cs))

    def lang(self, nfa, kappa=None):
        out, eps = {}, {}
        for s, l, d in nfa.trans:
            if l is None:
                eps.setdefault(s, []).append((None, d))
            elif isinstance(l, CS):
                for c in self.class_ids(l):
                    out.setdefault(s, []).append((c, d))
            else:
                out.setdefault(s, []).append((l, d))
        d = M.build([nfa.start], lambda q: eps.get(q, []) + out.get(q, []), lambda q: q in nfa.finals)
        if kappa is None:
            return d
        e = M.DFA()
        e.delta = [dict(r) for r in d.delta] + [{kappa: d.start}]
        e.start = len(e.delta) - 1
        e.finals = set(d.finals)
        return M.minimize(M.trim(e))

    def pattern(self, pat, flags=0):
        """a scan pattern: optional one-character look-behind, a body, optional `$` -> Sem"""
        tree = list(sre_parse.parse(pat, flags))
        alg = self.alg
        behind = None
        if tree and tree[0][0] is sre_c.ASSERT:
            direction, sub = tree[0][1]
            if direction != -1 or len(sub) != 1 or sub[0][0] is not sre_c.LITERAL or sub[0][1] != 10:
                raise ZR.G.OutOfGrammarSubset('look-behind other than (?<=\\n)')
            behind = True
            tree = tree[1:]
        dollar = False
        if tree and tree[-1][0] is sre_c.AT and tree[-1][1] is sre_c.AT_END and not (flags & re.MULTILINE):
            dollar = True
            tree = tree[:-1]
        sp = sre_parse.SubPattern(sre_parse.State() if hasattr(sre_parse, 'State') else None, tree)
        body, d = sre2nfa.build(tree, flags, ())
        L = self.lang(body)
        for q in L.finals:
            if L.delta[q] and not _greedy_run(tree):
                raise ZR.G.OutOfGrammarSubset('scan pattern whose match extent is not unique')
        sem = alg.from_language(L, kappas=((alg.KI,) if behind else None))
        if dollar:
            # `$` after a greedy run: only the end of the text can follow (a final line feed would have been taken by the run)
            sem = alg.seq(sem, alg.end_of_input())
        return sem

    def scan(self, sem, mark):
        """(pattern | any character)* with every match wrapped in <mark ... >mark, up to the end of the text"""
        alg = self.alg
        anyc = alg.from_language(self.lang(A.cset(CS.full())))
        body = alg.first(alg.wrap(sem, mark), anyc)
        return alg.seq(alg.star(body), alg.end_of_input())


def _greedy_run(tree):
    """the body is one greedy repetition of a single character set (its only match at a position is the maximal run)"""
    return len(tree) == 1 and tree[0][0] is sre_c.MAX_REPEAT and len(tree[0][1][2]) == 1 and tree[0][1][2][0][0] in (sre_c.LITERAL, sre_c.IN)


def expected_branch():
    return ["grid_str = TRAILING_NL_RE.sub('', grid_str.replace('\\r\\n', '\\n'))",
            "if grid_str:\n    grid_data = GRID_SEP.split(grid_str + '\\n')\nelse:\n    grid_data = []"]


def t_framing(T, tier):
    pm = extract.module(PMOD)
    fn = pm.functions['parse']
    # 1. the ZINC branch of parse() is exactly the three-step pipeline
    branch = None
    for node in ast.walk(fn):
        if isinstance(node, ast.If) and ast.unparse(node.test) == 'mode == MODE_JSON':
            branch = node.orelse
    got = [ast.unparse(st) for st in (branch or [])]
    ZR.oblige_fact(T, 'framing/parse/zinc_branch_is_replace_CRLF_then_strip_trailing_line_ends_then_split_at_blank_lines', got == expected_branch(),
                   reason='' if got == expected_branch() else 'found %r' % (got,), witness=None if got == expected_branch() else {'kind': 'framing'})
    tail = ast.unparse(fn).split('grids = list(map(_parse, grid_data))')[-1]
    ok_tail = 'grids = list(map(_parse, grid_data))' in ast.unparse(fn) and \
        ''.join(tail.split()) == ''.join("if single: if grids: return grids[0] else: return None else: return grids".split())
    ZR.oblige_fact(T, 'framing/parse/every_piece_is_parsed_in_order_single_gives_the_first_or_None', ok_tail, witness=None if ok_tail else {'kind': 'framing'})
    dec = "if isinstance(grid_str, six.binary_type): grid_str = grid_str.decode(encoding=charset)"
    stmts = [' '.join(ast.unparse(st).split()) for st in fn.body]
    i_dec = stmts.index(dec) if dec in stmts else -1
    i_branch = [i for i, st in enumerate(fn.body) if isinstance(st, ast.If) and ast.unparse(st.test) == 'mode == MODE_JSON']
    ZR.oblige_fact(T, 'framing/parse/bytes_are_decoded_with_the_given_charset_first', i_dec >= 0 and bool(i_branch) and i_dec < i_branch[0])
    # 2. the regular expressions, from the source
    sep_pat, sep_fl = pm.regex('GRID_SEP')
    trail_pat, trail_fl = pm.regex('TRAILING_NL_RE')
    line = sre2nfa.body(LINE)
    lf = A.lit('\n')
    nl = A.union(A.lit('\n'), A.lit('\r\n'))
    sc = Scan([line])
    alg = sc.alg
    T.extra_units = [{'function': PMOD + '.GRID_SEP / TRAILING_NL_RE (patterns)', 'file': 'hszinc/parser.py', 'lines': 'module level',
                      'ast_sha': ZR.hashlib.sha256((sep_pat + '|' + trail_pat).encode()).hexdigest()[:16]}]
    view = _View(sc)
    # L1: "\r\n" occurs in a reference document only as a line end
    grid_any = A.plus(A.concat(line, nl))
    doc_any = A.concat(grid_any, A.star(A.concat(A.plus(nl), grid_any)), A.star(nl))
    doc_any_nofinal = A.concat(A.star(A.concat(grid_any, A.plus(nl))), A.star(A.concat(line, nl)), line)
    crlf = sc.scan(alg.from_language(sc.lang(A.lit('\r\n'))), 'crlf')
    nlm = A.union(A.lit('\n'), A.concat(A.mark('<crlf'), A.lit('\r\n'), A.mark('>crlf')))
    gridm = A.plus(A.concat(line, nlm))
    docm = A.union(A.concat(gridm, A.star(A.concat(A.plus(nlm), gridm)), A.star(nlm)),
                   A.concat(A.star(A.concat(gridm, A.plus(nlm))), A.star(A.concat(line, nlm)), line))
    C = alg.erase(crlf.cons, keep=('<crlf', '>crlf'))
    ZR.oblige_included(T, 'framing/replace/in_every_reference_document_the_CRLF_occurrences_are_exactly_its_CRLF_line_ends', view, sc.lang(docm, alg.KN), C, witness_kind='framing_doc')
    # L2: after that, TRAILING_NL_RE matches exactly the final run of line feeds (if any)
    grid_lf = A.plus(A.concat(line, lf))
    body_lf = A.concat(A.star(A.concat(grid_lf, A.plus(lf))), A.star(A.concat(line, lf)), line)       # ... ends with a line
    docm2 = A.union(body_lf, A.concat(body_lf, A.mark('<trail'), A.plus(lf), A.mark('>trail')))
    tr = sc.scan(sc.pattern(trail_pat, trail_fl), 'trail')
    C = alg.erase(tr.cons, keep=('<trail', '>trail'))
    ZR.oblige_included(T, 'framing/strip/TRAILING_NL_RE_matches_exactly_the_final_run_of_line_feeds', view, sc.lang(docm2, alg.KN), C, witness_kind='framing_doc')
    # L3: with one line feed appended, GRID_SEP matches exactly the blank-line runs between the grids: the pieces are the grids
    docm3 = A.concat(grid_lf, A.star(A.concat(A.mark('<sep'), A.plus(lf), A.mark('>sep'), grid_lf)))
    sp = sc.scan(sc.pattern(sep_pat, sep_fl), 'sep')
    C = alg.erase(sp.cons, keep=('<sep', '>sep'))
    ZR.oblige_included(T, 'framing/split/GRID_SEP_matches_exactly_the_blank_line_runs_between_grids(each_piece_is_one_grid_ending_in_its_line_end)', view, sc.lang(docm3, alg.KN), C,
                       witness_kind='framing_doc')
    e, w = A.is_empty(docm3)
    ZR.oblige_fact(T, 'framing/cover.reference_documents_nonempty', not e, kind='vacuity')
    # the empty document (nothing, or only line ends): stripped to '' -> no grid
    only_nl = A.concat(A.mark('<trail'), A.plus(lf), A.mark('>trail'))
    ZR.oblige_included(T, 'framing/strip/a_document_of_line_ends_only_is_stripped_to_nothing', view, sc.lang(only_nl, alg.KN), C if False else alg.erase(tr.cons, keep=('<trail', '>trail')),
                       witness_kind='framing_doc')


class _View(object):
    def __init__(self, sc):
        self.alg = sc.alg
        self.comp = self
        self.sc = sc

    def _clean(self, w):
        return [s for s in (w or []) if not (isinstance(s, int) and self.sc.alg.is_kappa(s))]

    def text_of(self, w):
        return ''.join(chr(self.sc.classes[s].sample()) for s in self._clean(w) if isinstance(s, int))

    def sample(self, w):
        return ''.join((chr(self.sc.classes[s].sample()) if isinstance(s, int) else '‹%s›' % s) for s in self._clean(w))
