"""C05 bounded stand-in / replay: documents produced by the reference writer (every spelling) decoded by the real reader."""
import copy
import datetime
import json
import random

from spec import json_ref as JR, hval as HV

TOL = 1e-12


def hvals():
    utc = datetime.datetime(2020, 1, 2, 3, 4, 5)
    vals = [('null',), ('marker',), ('remove',), ('bool', True), ('bool', False), ('num', 0.0), ('num', 12.0), ('num', -1.5), ('num', 1e21), ('num', 1.25e-7),
            ('num', float('inf')), ('num', float('-inf')), ('num', float('nan')), ('qty', 1.5, 'kW'), ('qty', 3.0, '%'), ('qty', -2.0, '°C'),
            ('str', ''), ('str', 'x'), ('str', 'a b'), ('str', 'n:1'), ('str', 'line1\nline2'), ('str', 'm:'), ('str', 'x:y:z'), ('str', 'café'),
            ('uri', 'http://x/y?z=1'), ('uri', ''), ('uri', 'a\nb'), ('bin', 'text/plain'), ('ref', 'a', None), ('ref', 'a.b:c-d~e_f', None),
            ('ref', 'x', 'display name'), ('ref', 'x', ''), ('ref', 'x', 'two\nlines'), ('ref', 'x:', 'dis'),
            ('date', 2020, 2, 29), ('time', 1, 2, 3, 0), ('time', 23, 59, 0, 0), ('time', 1, 2, 3, 500000), ('time', 1, 2, 3, 123456),
            ('datetime', utc, 0, 'UTC'), ('datetime', utc, 3600, 'Paris'), ('datetime', utc, -18000, 'New_York'), ('datetime', utc, 19800, 'Kolkata'),
            ('datetime', utc.replace(microsecond=250000), 0, 'UTC'), ('datetime', utc, 7200, None),
            # the repeated hour at the end of daylight saving, both passes: only the written offset tells them apart
            ('datetime', datetime.datetime(2020, 11, 1, 5, 30, 0), -14400, 'New_York'), ('datetime', datetime.datetime(2020, 11, 1, 6, 30, 0), -18000, 'New_York'),
            ('datetime', datetime.datetime(2020, 10, 25, 0, 15, 0), 7200, 'Berlin'), ('datetime', datetime.datetime(2020, 10, 25, 1, 15, 0), 3600, 'Berlin'),
            ('datetime', datetime.datetime(2021, 4, 3, 14, 45, 0), 39600, 'Lord_Howe'), ('datetime', datetime.datetime(2021, 4, 3, 15, 15, 0), 37800, 'Lord_Howe'),
            ('coord', 1.5, -2.25), ('coord', 0.0, 0.0)]
    v3 = [('na',), ('xstr', 'hex', b'\x00\xff'), ('xstr', 'b64', b'\x00\xff'), ('xstr', 'Mime', 'a:b'), ('list', (('num', 1.0), ('str', 'a'))),
          ('dict', (('a', ('num', 1.0)), ('m', ('marker',)))), ('list', ()), ('dict', ())]
    return vals, v3


def strip_zone(h):
    """what the document denotes: (utc instant, offset)"""
    if isinstance(h, tuple) and h and h[0] == 'datetime':
        return h[:3]
    if isinstance(h, tuple):
        return tuple(strip_zone(x) for x in h)
    return h


def check_doc(doc, want, form):
    import hszinc
    before = copy.deepcopy(doc)
    try:
        if form == 'text':
            g = hszinc.parse(json.dumps(doc), mode=hszinc.MODE_JSON)
        elif form == 'bytes':
            g = hszinc.parse(json.dumps(doc).encode('utf-8'), mode=hszinc.MODE_JSON)
        elif form == 'list':
            g = hszinc.parse([doc], mode=hszinc.MODE_JSON)
        else:
            g = hszinc.parse(doc, mode=hszinc.MODE_JSON)
    except Exception as e:
        return 'reader raised %r on %r' % (e, json.dumps(doc)[:300])
    if doc != before and not (doc != doc):
        if json.dumps(doc, sort_keys=True, default=repr) != json.dumps(before, sort_keys=True, default=repr):
            return 'the caller\'s pre-decoded object was modified'
    got = HV.abs_grid(g)
    if not HV.same(strip_zone(got), strip_zone(want), TOL):
        return 'decoded %r, document denotes %r (doc %r)' % (got, want, json.dumps(doc)[:300])
    return None


def documents(tier, seed):
    rnd = random.Random(seed)
    vals, v3 = hvals()
    for ver in ('2.0', '3.0'):
        pool = vals + (v3 if ver == '3.0' else [])
        for i, h in enumerate(pool):
            sp = JR.spellings_of(h)
            for j, s in enumerate(sp):
                grid = ('grid', ver, (('tag', h),) if i % 4 == 0 else (), (('c0', (('dis', h),) if i % 5 == 0 else ()), ('c1', ())), ((h, ('str', 'next')),))
                pick = (lambda opts, j=j: opts[min(j, len(opts) - 1)])
                yield ('%s/%s/%d/sp%d' % (ver, h[0], i, j), JR.encode_grid(grid, choose=pick), grid)
        for style in ('omit_nulls', 'null', 'missing'):
            grid = ('grid', ver, (), (('a', ()), ('b', ())), ((('num', 1.0), ('null',)),) if style == 'omit_nulls' else ())
            doc = JR.encode_grid(grid, rows_style=style if style != 'missing' else 'omit_nulls')
            yield ('%s/rows_%s' % (ver, style), doc, grid)
        for n in range(10 if tier == 'quick' else 300):
            row = tuple(rnd.choice(pool) for _ in range(3))
            grid = ('grid', ver, (), tuple(('c%d' % i, ()) for i in range(3)), (row, tuple(rnd.choice(pool) for _ in range(3))))
            yield ('%s/random%d' % (ver, n), JR.encode_grid(grid, choose=lambda o: rnd.choice(o)), grid)


def bounded(tier, seed):
    failures, cases = [], 0
    for i, (label, doc, want) in enumerate(documents(tier, seed)):
        form = ('text', 'dict', 'bytes', 'list')[i % 4]
        cases += 1
        r = check_doc(doc, want, form)
        if r and len(failures) < 15:
            failures.append({'id': 'C05/' + label, 'what': r, 'input': {'kind': 'doc', 'label': label, 'seed': seed, 'tier': tier, 'form': form}})
    # the other routes into the JSON grid decoder with a pre-decoded object: never modify the caller's object
    import hszinc
    for label, call in entry_points():
        cases += 1
        obj = nested_doc()
        before = copy.deepcopy(obj)
        try:
            r1 = call(obj)
            same = json.dumps(obj, sort_keys=True) == json.dumps(before, sort_keys=True)
            r2 = call(obj)
            again = repr(_abs(r1)) == repr(_abs(r2))
        except Exception as e:
            failures.append({'id': 'C05/predecoded/' + label, 'what': 'raised %r' % (e,), 'input': {'kind': 'predecoded', 'label': label}})
            continue
        if not same or not again:
            failures.append({'id': 'C05/predecoded/' + label, 'what': 'the caller\'s pre-decoded object was %s' % ('modified' if not same else 'decoded differently the second time'),
                             'input': {'kind': 'predecoded', 'label': label}})
    return {'cases': cases, 'failures': failures, 'bound': 'reference-writer documents: every value kind x every listed spelling x versions x {text, bytes, dict, list of dicts}; rows missing/null/omitting columns; pre-decoded nested grids through parse_scalar / parse_grid / parse'}


def nested_doc():
    inner = {'meta': {'ver': '3.0'}, 'cols': [{'name': 'x'}], 'rows': [{'x': 's:v'}]}
    return {'meta': {'ver': '3.0'}, 'cols': [{'name': 'a'}, {'name': 'b'}], 'rows': [{'a': inner, 'b': [copy.deepcopy(inner), 'n:1']}, {'a': {'k': copy.deepcopy(inner)}}]}


def entry_points():
    import hszinc
    return [('parse(dict)', lambda o: hszinc.parse(o, mode=hszinc.MODE_JSON)),
            ('parse([dict])', lambda o: hszinc.parse([o], mode=hszinc.MODE_JSON)),
            ('parse_grid(dict)', lambda o: hszinc.parser.parse_grid(o, mode=hszinc.MODE_JSON)),
            ('parse_scalar(nested grid)', lambda o: hszinc.parse_scalar(o['rows'][0]['a'], mode=hszinc.MODE_JSON, version='3.0')),
            ('parse_scalar(list holding a grid)', lambda o: hszinc.parse_scalar(o['rows'][0]['b'], mode=hszinc.MODE_JSON, version='3.0')),
            ('parse_scalar(dict holding a grid)', lambda o: hszinc.parse_scalar(o['rows'][1]['a'], mode=hszinc.MODE_JSON, version='3.0'))]


def _abs(v):
    import hszinc
    if isinstance(v, list):
        return [_abs(x) for x in v]
    return HV.abs_grid(v) if isinstance(v, hszinc.Grid) else HV.abs_value(v)


def replay(inp):
    import hszinc
    if inp.get('kind') == 'doc':
        for i, (label, doc, want) in enumerate(documents(inp.get('tier', 'quick'), inp.get('seed', 0))):
            if label == inp['label']:
                r = check_doc(doc, want, inp.get('form', 'text'))
                return {'reproduced': bool(r), 'detail': r or ''}
        return {'reproduced': None, 'detail': 'label not found'}
    if inp.get('kind') == 'predecoded':
        r = bounded('none', 0)
        fl = [f for f in r['failures'] if f['id'].startswith('C05/predecoded/')]
        return {'reproduced': bool(fl), 'detail': [f['what'] for f in fl[:3]]}
    if inp.get('kind') == 'json_scalar' and isinstance(inp.get('text'), str):
        ver = '3.0' if inp.get('ver3', True) else '2.0'
        try:
            want = JR.decode_value(inp['text'])
        except Exception as e:
            return {'reproduced': None, 'detail': 'reference reader rejects the witness text: %r' % (e,)}
        try:
            got = HV.abs_value(hszinc.parse_scalar(json.dumps(inp['text']), mode=hszinc.MODE_JSON, version=ver))
        except Exception as e:
            return {'reproduced': True, 'detail': 'reader raised %r on %r' % (e, inp['text'])}
        return {'reproduced': not HV.same(strip_zone(got), strip_zone(want), TOL), 'detail': '%r -> %r, reference %r' % (inp['text'], got, want)}
    fails = []
    for i, (label, doc, want) in enumerate(documents('quick', 0)):
        r = check_doc(doc, want, ('text', 'dict', 'bytes', 'list')[i % 4])
        if r:
            fails.append(label + ': ' + r)
    return {'reproduced': bool(fails), 'detail': fails[:5]}
