"""C17 - date-times keep instant, offset and zone (hszinc/zoneinfo.py + the date-time branches of the readers)."""
import ast

import z3

from hv.vc import smt
from hv.vc.kit import Task
from hv.vc.world import World
from hv.vc.values import SKey, SVal, SMap, SSet, LazyDict, unmap, PyExc, OutOfSubset, Closure
from hv.frontend import extract
from contracts import zoneinfo as Z

HAS_CONCRETE = True
CONCRETE_TIMEOUT = {'quick': 600, 'thorough': 3000}
MOD = Z.MOD
K = smt.KEY
TRUSTED_BASE = ['A-py', 'A-bi-dict (items() enumerates each key once with its value; dict(pairs) has the first components as keys and a '
                'matching second component as value)', 'A-bi-set (copy/discard/in/bool)',
                'A-str-slash ("/" in s and s.split("/",1) read as contains_slash / split_prefix / split_suffix of an abstract string)',
                'A-tz-distinct (pytz.all_timezones has no duplicate; checked on the host list by the bounded part)',
                'A-tz (pytz: timezone(n) succeeds for n in all_timezones; tz.utcoffset(naive) raises Ambiguous/NonExistentTimeError or returns '
                'the offset o with zone_offset_at(zone, local-o) = o; x.astimezone(tz) keeps the instant and has the zone\'s offset at that instant) '
                '- validated exhaustively on the host tz database by the bounded part, not proved',
                'A-tz-zoneattr (a tzinfo whose .zone attribute names a mapped Olson zone is pytz\'s tzinfo of that zone)',
                'A-iso (iso8601.parse_date(dt.isoformat()) denotes the same instant with the same offset) - validated by the bounded part',
                'A-pp (the date-time parse action receives [parsed ISO value, zone name])', 'R-loop']
ASSUMPTIONS = ['the input of the writer is tz-aware (tzinfo set and utcoffset() not None) or naive; a naive value raises ValueError',
               '"every instant / every transition of every zone" is a statement about the host tz database: decided by the bounded sweep only']
EXPLANATION = ('_map_timezones is executed on ANY duplicate-free zone list and ANY Haystack name set with a loop invariant (injective, values in the '
               'scanned prefix, key/suffix shape, completeness); _gen_map is proved to leave two mutually inverse maps; timezone / timezone_name are '
               'executed on abstract date-times over an uninterpreted tz database: timezone_name returns a mapped name whose zone has the value\'s offset at '
               'that instant or raises ValueError and nothing else; the real ZINC parse action and the JSON reader composition are then proved to give back '
               'the same instant, offset and name.')

FRAME_READS = {  # module-level variables each function may read (frame condition: no hidden state)
    '_map_timezones': {'HAYSTACK_TIMEZONES_SET'},
    '_gen_map': {'_TZ_MAP', '_TZ_RMAP'},
    'get_tz_map': {'_TZ_MAP', 'LATEST_VER'},
    'get_tz_rmap': {'_TZ_RMAP', 'LATEST_VER'},
    'timezone': {'LATEST_VER'},
    'timezone_name': {'LATEST_VER'},
}


def task_names(tier):
    return ['map', 'gen', 'getters', 'timezone', 'name', 'roundtrip', 'inventory']


def run_task(name, tier):
    T = Task(name)
    globals()['t_' + name](T, tier)
    return T.result()


def _world():
    w = World()
    Z.install(w)
    return w


def _frame(T, w, fn, case):
    """obligation: the function read no module-level variable of hszinc.zoneinfo outside its declared frame"""
    reads = {n for (m, n) in w.globals_read if m == MOD}
    extra = sorted(reads - FRAME_READS[fn])
    writes = sorted(n for (m, n) in w.globals_written if m == MOD and n not in ('_TZ_MAP', '_TZ_RMAP'))
    T.lemma('%s/frame.reads_only_declared_module_state%s' % (case, ('(%s)' % ','.join(extra)) if extra else ''), [], z3.BoolVal(not extra))
    T.lemma('%s/frame.writes_no_module_state%s' % (case, ('(%s)' % ','.join(writes)) if writes else ''), [], z3.BoolVal(not writes or fn == '_gen_map'))


# ------------------------------------------------------------------ _map_timezones: loop invariant + post
def t_map(T, tier):
    w = _world()
    w.under_verification = MOD + '._map_timezones'

    def run(it):
        it.ctx.witness_fn = lambda model: {'kind': 'maps'}
        f = w.global_lookup(it, extract.module(MOD), '_map_timezones')
        r = it.call(f, [])
        M = Z.as_smap(it, r)
        wf = Z.wf_map(M)
        it.ctx.oblige('_map_timezones/ensures.keys_are_haystack_names_values_are_host_zones_of_shape_key_or_region_slash_key', wf[0])
        it.ctx.oblige('_map_timezones/ensures.injective(no zone is given to two names)', wf[1])
        it.ctx.oblige('_map_timezones/ensures.complete(an unmapped name has no candidate zone left: each was given to another name)',
                      Z.complete_map(M, lambda k: z3.And(z3.Select(Z.HDOM, k), z3.Not(z3.Select(M.dom, k))), Z.NALL))
    T.explore(w, run, 'map')
    _frame(T, w, '_map_timezones', 'map')
    # vacuity: the invariant is satisfiable with a non-empty map
    k0 = z3.Const('k0', K)
    M = SMap(z3.Const('Md', z3.ArraySort(K, z3.BoolSort())), z3.Const('Mv', z3.ArraySort(K, K)), z3.Int('Ms'), K, K)
    T.cover('map/cover.wf_map_nonempty', Z.all_axioms() + Z.wf_map(M) + [z3.Select(M.dom, k0), Z.NALL > 1])


# ------------------------------------------------------------------ _gen_map: the two maps are mutually inverse
def t_gen(T, tier):
    for have_map in (False, True):
        for have_rmap in (False, True):
            case = 'gen/map_%s/rmap_%s' % ('set' if have_map else 'None', 'set' if have_rmap else 'None')
            w = _world()
            w.under_verification = MOD + '._gen_map'

            def map_contract(it, a, k):
                # the post-condition proved in task "map"
                m = SMap(it.ctx.fresh('new_map_dom', z3.ArraySort(K, z3.BoolSort())), it.ctx.fresh('new_map_val', z3.ArraySort(K, K)),
                         it.ctx.fresh('new_map_size', z3.IntSort()), K, K)
                for ax in Z.all_axioms() + Z.wf_map(m):
                    it.ctx.assume(ax)
                d = LazyDict()
                d.sym = m
                it.new_map = m
                return d
            w.contracts[MOD + '._map_timezones'] = map_contract

            def run(it, have_map=have_map, have_rmap=have_rmap):
                mod = extract.module(MOD)
                it.ctx.witness_fn = lambda model: {'kind': 'maps'}
                old = Z.Maps(it)
                a, b = old.as_dicts()
                w.global_store(it, mod, '_TZ_MAP', a if have_map else None)
                w.global_store(it, mod, '_TZ_RMAP', b if have_rmap else None)
                w.globals_written.clear()
                it.new_map = None
                f = w.global_lookup(it, mod, '_gen_map')
                it.call(f, [])
                m1 = unmap(w.path_globals[(MOD, '_TZ_MAP')])
                r1 = unmap(w.path_globals[(MOD, '_TZ_RMAP')])
                it.ctx.oblige('_gen_map/ensures.both_maps_set', z3.BoolVal(isinstance(m1, SMap) and isinstance(r1, SMap)))
                if not (isinstance(m1, SMap) and isinstance(r1, SMap)):
                    return
                if have_map and have_rmap:
                    it.ctx.oblige('_gen_map/ensures.existing_maps_kept', z3.BoolVal(m1 is old.M and r1 is old.R))
                wf = Z.wf_map(m1)
                inv = Z.inverse(m1, r1)
                it.ctx.oblige('_gen_map/ensures.name_map_well_formed', z3.And(*wf))
                it.ctx.oblige('_gen_map/ensures.rmap_inverts_map(every name -> zone -> same name)', inv[0])
                it.ctx.oblige('_gen_map/ensures.map_inverts_rmap(every zone -> name -> same zone)', inv[1])
            T.explore(w, run, case)
            _frame(T, w, '_gen_map', case)
    # the one-to-one statement of the property, as a lemma over the contract: inverse maps are both injective
    M = SMap(z3.Const('Md', z3.ArraySort(K, z3.BoolSort())), z3.Const('Mv', z3.ArraySort(K, K)), z3.Int('Ms'), K, K)
    R = SMap(z3.Const('Rd', z3.ArraySort(K, z3.BoolSort())), z3.Const('Rv', z3.ArraySort(K, K)), z3.Int('Rs'), K, K)
    a, b = z3.Consts('a b', K)
    T.lemma('gen/lemma.inverse_maps_are_one_to_one(name->zone)', Z.inverse(M, R),
            z3.Implies(z3.And(z3.Select(M.dom, a), z3.Select(M.dom, b), z3.Select(M.val, a) == z3.Select(M.val, b)), a == b))
    T.lemma('gen/lemma.inverse_maps_are_one_to_one(zone->name)', Z.inverse(M, R),
            z3.Implies(z3.And(z3.Select(R.dom, a), z3.Select(R.dom, b), z3.Select(R.val, a) == z3.Select(R.val, b)), a == b))
    T.cover('gen/cover.inverse_satisfiable_nonempty', Z.inverse(M, R) + [z3.Select(M.dom, a)])


def _gen_contract(w):
    """_gen_map() by its (proved) contract: afterwards the two globals are a well-formed inverse pair"""
    def gen(it, a, k):
        mod = extract.module(MOD)
        if getattr(it, 'maps', None) is None:
            it.maps = Z.Maps(it)
        x, y = it.maps.as_dicts()
        w.path_globals[(MOD, '_TZ_MAP')] = x
        w.path_globals[(MOD, '_TZ_RMAP')] = y
        return None
    w.contracts[MOD + '._gen_map'] = gen


def t_getters(T, tier):
    for fn, which in (('get_tz_map', 'M'), ('get_tz_rmap', 'R')):
        w = _world()
        _gen_contract(w)
        w.under_verification = MOD + '.' + fn

        def run(it, fn=fn, which=which):
            it.maps = None
            f = w.global_lookup(it, extract.module(MOD), fn)
            r = unmap(it.call(f, []))
            it.ctx.oblige('%s/ensures.returns_the_generated_%s' % (fn, 'name_map' if which == 'M' else 'reverse_map'),
                          z3.BoolVal(it.maps is not None and r is getattr(it.maps, which)))
        T.explore(w, run, 'getters/' + fn)
        _frame(T, w, fn, 'getters/' + fn)


def _maps_contracts(w):
    """get_tz_map / get_tz_rmap by contract (task "getters" + "gen")"""
    def getter(which):
        def g(it, a, k):
            if getattr(it, 'maps', None) is None:
                it.maps = Z.Maps(it)
            d = LazyDict()
            d.sym = getattr(it.maps, which)
            return d
        return g
    w.contracts[MOD + '.get_tz_map'] = getter('M')
    w.contracts[MOD + '.get_tz_rmap'] = getter('R')


# ------------------------------------------------------------------ timezone(name)
def t_timezone(T, tier):
    w = _world()
    _maps_contracts(w)
    w.under_verification = MOD + '.timezone'

    def run(it):
        it.maps = Z.Maps(it)
        n = it.ctx.fresh('haystack_name', K)
        it.name_term = n
        f = w.global_lookup(it, extract.module(MOD), 'timezone')
        r = it.call(f, [SKey(n)])
        it.ctx.oblige('timezone/ensures.mapped_name', z3.Select(it.maps.M.dom, n))
        ok = isinstance(r, Z.TZ) and r.kind == 'zone'
        it.ctx.oblige('timezone/ensures.returns_pytz_zone', z3.BoolVal(ok))
        if ok:
            it.ctx.oblige('timezone/ensures.zone_is_map_of_name', r.zone == z3.Select(it.maps.M.val, n))

    def on_raise(it, e):
        it.ctx.oblige('timezone/raises.only_ValueError(%s)' % e.cls, z3.BoolVal(e.cls == 'ValueError'), kind='raises')
        it.ctx.oblige('timezone/raises.only_for_unmapped_names', z3.Not(z3.Select(it.maps.M.dom, it.name_term)), kind='raises')
    T.explore(w, run, 'timezone', allow_raise=on_raise)
    _frame(T, w, 'timezone', 'timezone')


# ------------------------------------------------------------------ timezone_name(dt)
def _name_post(it, dt, r, tag):
    M = it.maps.M
    if isinstance(r, str):
        rt = it.world.key_const(it, r)
    elif isinstance(r, SKey):
        rt = r.term
    else:
        it.ctx.oblige('%s/ensures.returns_a_name' % tag, z3.BoolVal(False))
        return None
    if isinstance(r, str) and r == 'UTC':
        # the shortcut relies on two host facts, checked by the bounded part: 'UTC' is mapped, and to a zone with offset 0
        it.ctx.assume(z3.And(z3.Select(M.dom, rt), z3.ForAll([z3.Int('t!utc')], Z.zone_off(z3.Select(M.val, rt), z3.Int('t!utc')) == 0)))
    it.ctx.oblige('%s/ensures.result_is_a_mapped_name' % tag, z3.Select(M.dom, rt))
    it.ctx.oblige('%s/ensures.zone_of_result_has_the_values_offset_at_that_instant' % tag,
                  Z.zone_off(z3.Select(M.val, rt), dt.inst) == dt.off)
    return rt


def t_name(T, tier):
    w = _world()
    _maps_contracts(w)
    w.under_verification = MOD + '.timezone_name'

    def run(it):
        it.maps = Z.Maps(it)
        dt = Z.sym_input_dt(it, it.maps)
        it.dt = dt
        it.ctx.witness_fn = lambda model: {'kind': 'raises'}
        f = w.global_lookup(it, extract.module(MOD), 'timezone_name')
        r = it.call(f, [dt])
        it.ctx.oblige('timezone_name/ensures.naive_value_is_refused', z3.Not(dt.tz_none))
        _name_post(it, dt, r, 'timezone_name')
        # a value localised in a mapped zone gets that zone's name (fast path; the scan is not needed)
        loc = z3.And(z3.Not(dt.tz_none), dt.tz.has_zone, dt.tz.is_mapped, dt.off == Z.zone_off(dt.tz.zone, dt.inst))
        if isinstance(r, SKey):
            it.ctx.oblige('timezone_name/ensures.localised_value_gets_its_own_zone_name',
                          z3.Implies(loc, r.term == z3.Select(it.maps.R.val, dt.tz.zone)))

    def on_raise(it, e):
        it.ctx.oblige('timezone_name/raises.only_ValueError(%s)' % e.cls, z3.BoolVal(e.cls == 'ValueError'), kind='raises')
        dt = it.dt
        loc = z3.And(z3.Not(dt.tz_none), dt.tz.has_zone, dt.tz.is_mapped, dt.off == Z.zone_off(dt.tz.zone, dt.inst))
        it.ctx.oblige('timezone_name/raises.never_for_a_value_localised_in_a_mapped_zone', z3.Not(loc), kind='raises')
    T.explore(w, run, 'name', allow_raise=on_raise)
    _frame(T, w, 'timezone_name', 'name')


# ------------------------------------------------------------------ write -> read composition on the real reader code
def _name_contract(w):
    """timezone_name by its contract (task "name"): a mapped name whose zone has the value's offset, or ValueError"""
    def tzname(it, a, k):
        dt = a[0]
        if it.ctx.branch(it.ctx.fresh('no_haystack_zone', z3.BoolSort())):
            it.raise_('ValueError', 'Unable to get timezone')
        n = it.ctx.fresh('written_zone_name', K)
        M, R = it.maps.M, it.maps.R
        it.ctx.assume(z3.And(z3.Select(M.dom, n), Z.zone_off(z3.Select(M.val, n), dt.inst) == dt.off))
        if isinstance(dt.tz, Z.TZ) and dt.tz.kind == 'zone':
            it.ctx.assume(n == z3.Select(R.val, dt.tz.zone))
        return SKey(n)
    return tzname


def _timezone_contract(w):
    def tz(it, a, k):
        n = it.as_term(a[0], K)
        if not it.ctx.branch(z3.Select(it.maps.M.dom, n)):
            it.raise_('ValueError', 'not a recognised timezone')
        return Z.TZ('zone', zone=z3.Select(it.maps.M.val, n))
    return tz


def t_roundtrip(T, tier):
    # ZINC: the real parse action hszinc.zincparser._parse_datetime on [parse_date(isoformat(dt)), name]
    w = _world()
    _maps_contracts(w)
    w.contracts[MOD + '.timezone'] = _timezone_contract(w)
    ZP = 'hszinc.zincparser'

    def run(it):
        it.maps = Z.Maps(it)
        dt = Z.DT(it.ctx.fresh('instant', z3.IntSort()), it.ctx.fresh('utcoffset', z3.IntSort()), Z.TZ('fixed'))
        name = _name_contract(w)(it, [dt], {})
        # A-iso: what iso8601.parse_date makes of the written ISO text
        parsed = Z.DT(dt.inst, dt.off, Z.TZ('fixed'))
        it.ctx.witness_fn = lambda model: {'kind': 'raises'}
        f = Closure(extract.module(ZP).functions['_parse_datetime'], None, extract.module(ZP), '_parse_datetime')
        w.note_unit(extract.module(ZP), '_parse_datetime', f.node)
        res = it.call(f, [[parsed, name]])
        ok = isinstance(res, list) and len(res) == 1 and isinstance(res[0], Z.DT)
        it.ctx.oblige('zinc/_parse_datetime/ensures.one_datetime', z3.BoolVal(ok))
        if not ok:
            return
        back = res[0]
        it.ctx.oblige('zinc/_parse_datetime/ensures.same_instant', back.inst == dt.inst)
        it.ctx.oblige('zinc/_parse_datetime/ensures.same_utc_offset', back.off == dt.off if back.off is not None else z3.BoolVal(False))
        it.ctx.oblige('zinc/_parse_datetime/ensures.value_is_in_the_named_zone',
                      z3.BoolVal(isinstance(back.tz, Z.TZ) and back.tz.kind == 'zone') if not (isinstance(back.tz, Z.TZ) and back.tz.kind == 'zone')
                      else back.tz.zone == z3.Select(it.maps.M.val, name.term))
        # writing the value read back names the same zone (real timezone_name on the result)
        g = w.global_lookup(it, extract.module(MOD), 'timezone_name')
        again = it.call_closure(g, [back], {}, inline=True)
        it.ctx.oblige('zinc/rewrite/ensures.same_zone_name', again.term == name.term if isinstance(again, SKey) else z3.BoolVal(False))
    T.explore(w, run, 'roundtrip/zinc', allow_raise=lambda it, e: it.ctx.oblige(
        'zinc/raises.only_the_writers_ValueError(%s)' % e.cls, z3.BoolVal(e.cls == 'ValueError' and getattr(it, 'phase', 'dump') == 'dump'), kind='raises'))

    # JSON: the reader's date-time branch applies astimezone(timezone(name)) to parse_date(iso): statement checked
    # on the AST of the real parse_scalar, then the same composition lemma
    jm = extract.module('hszinc.jsonparser')
    fn = jm.functions['parse_embedded_scalar']
    seg = None
    for node in ast.walk(fn):
        if isinstance(node, ast.If) and ast.unparse(node.test) == 'match':
            src = ast.unparse(node)
            if 'iso8601.parse_date' in src and 'astimezone' in src:
                seg = node
    w2 = _world()
    _maps_contracts(w2)
    w2.contracts[MOD + '.timezone'] = _timezone_contract(w2)
    T.lemma('json/parse_embedded_scalar/date_time_branch_found', [], z3.BoolVal(seg is not None))
    if seg is None:
        return
    JP = 'hszinc.jsonparser'

    def run2(it):
        it.maps = Z.Maps(it)
        dt = Z.DT(it.ctx.fresh('instant', z3.IntSort()), it.ctx.fresh('utcoffset', z3.IntSort()), Z.TZ('fixed'))
        name = _name_contract(w2)(it, [dt], {})
        parsed = Z.DT(dt.inst, dt.off, Z.TZ('fixed'))
        it.ctx.witness_fn = lambda model: {'kind': 'raises'}
        w2.note_unit(jm, 'parse_embedded_scalar', fn)
        # run the body of the real branch with match.groups() = (iso, ..., name): groups by C05's alignment obligations
        iso_text = SVal(z3.Const('iso_text', smt.VAL))

        class Match(Z.Model):
            def hv_getattr(self, it2, nm):
                if nm == 'groups':
                    return Z.Builtin('match.groups', lambda it3, a, k: (iso_text, None, None, None, name))
                raise OutOfSubset('match.' + nm)
        w2.global_overrides[(JP, 'iso8601')] = World.Namespace('iso8601', {'parse_date': Z.Builtin('iso8601.parse_date', lambda it3, a, k: parsed)})
        w2.global_overrides[(JP, 'timezone')] = w2.global_lookup(it, extract.module(MOD), 'timezone')
        body = ast.FunctionDef(name='parse_embedded_scalar$datetime_branch', args=ast.arguments(posonlyargs=[], args=[ast.arg(arg='match')], kwonlyargs=[], kw_defaults=[], defaults=[]),
                               body=seg.body, decorator_list=[], lineno=seg.lineno, col_offset=0, end_lineno=seg.end_lineno)
        ast.fix_missing_locations(body)
        clo = Closure(body, None, jm, 'parse_embedded_scalar$datetime_branch')
        back = it.call_closure(clo, [Match()], {}, inline=True)
        ok = isinstance(back, Z.DT)
        it.ctx.oblige('json/parse_embedded_scalar/ensures.a_datetime', z3.BoolVal(ok))
        if not ok:
            return
        it.ctx.oblige('json/parse_embedded_scalar/ensures.same_instant', back.inst == dt.inst)
        it.ctx.oblige('json/parse_embedded_scalar/ensures.same_utc_offset', back.off == dt.off if back.off is not None else z3.BoolVal(False))
        it.ctx.oblige('json/parse_embedded_scalar/ensures.value_is_in_the_named_zone',
                      back.tz.zone == z3.Select(it.maps.M.val, name.term) if isinstance(back.tz, Z.TZ) and back.tz.kind == 'zone' else z3.BoolVal(False))
        g = w2.global_lookup(it, extract.module(MOD), 'timezone_name')
        again = it.call_closure(g, [back], {}, inline=True)
        it.ctx.oblige('json/rewrite/ensures.same_zone_name', again.term == name.term if isinstance(again, SKey) else z3.BoolVal(False))
    T.explore(w2, run2, 'roundtrip/json', allow_raise=lambda it, e: it.ctx.oblige(
        'json/raises.only_the_writers_ValueError(%s)' % e.cls, z3.BoolVal(e.cls == 'ValueError' and getattr(it, 'phase', 'dump') == 'dump'), kind='raises'))


# ------------------------------------------------------------------ inventory: who touches the module state
def t_inventory(T, tier):
    """Only _gen_map assigns _TZ_MAP/_TZ_RMAP; every function of the module is under contract; the writers call
    timezone_name and the readers call timezone (so the contracts above are the ones the formats rely on)."""
    m = extract.module(MOD)
    writers = {}
    for fname, node in m.functions.items():
        decl = set()
        for n in ast.walk(node):
            if isinstance(n, ast.Global):
                decl |= set(n.names)
        for n in ast.walk(node):
            if isinstance(n, (ast.Assign, ast.AugAssign)):
                tg = n.targets if isinstance(n, ast.Assign) else [n.target]
                for t in tg:
                    for x in ast.walk(t):
                        if isinstance(x, ast.Name) and x.id in decl:
                            writers.setdefault(x.id, set()).add(fname)
    T.lemma('inventory/only__gen_map_assigns_module_state', [], z3.BoolVal(all(v <= {'_gen_map'} for v in writers.values())))
    under = set(FRAME_READS)
    extra = sorted(set(m.functions) - under)
    T.lemma('inventory/every_function_of_zoneinfo_is_under_contract%s' % ('(%s)' % ','.join(extra) if extra else ''), [], z3.BoolVal(not extra))
    mutable = sorted(n for n, vals in m.assigns.items() if isinstance(vals[-1], (ast.Dict, ast.List, ast.Set, ast.ListComp, ast.DictComp))
                     or (isinstance(vals[-1], ast.Call) and ast.unparse(vals[-1].func) in ('dict', 'list', 'set', 'collections.OrderedDict')))
    mutable = [n for n in mutable if n not in ('HAYSTACK_TIMEZONES_SET',)]
    T.lemma('inventory/no_other_mutable_module_state%s' % ('(%s)' % ','.join(mutable) if mutable else ''), [], z3.BoolVal(not mutable))
    for mod, fn, callee in (('hszinc.zincdumper', 'dump_date_time', 'timezone_name'), ('hszinc.jsondumper', 'dump_date_time', 'timezone_name'),
                            ('hszinc.zincparser', '_parse_datetime', 'timezone'), ('hszinc.jsonparser', 'parse_embedded_scalar', 'timezone')):
        mm = extract.module(mod)
        src = ast.unparse(mm.functions[fn])
        imp = mm.imports.get(callee)
        T.lemma('inventory/%s.%s_uses_zoneinfo.%s' % (mod, fn, callee), [],
                z3.BoolVal((callee + '(') in src and imp is not None and imp[0].endswith('zoneinfo') and imp[1] == callee))
    T.world = None
