"""C13 - a filter's result is independent of other filters, earlier or concurrent (grid_filter.py)."""
import ast

import z3

from hv.vc import smt
from hv.vc.kit import Task
from hv.vc.world import World
from hv.vc.symex import Obligation
from hv.vc.values import (SObj, SVal, SKey, SInt, SBool, ClassRef, Builtin, AbstractCallable, PyExc, OutOfSubset, LazyDict)
from hv.frontend import extract

HAS_CONCRETE = True
CONCRETE_TIMEOUT = {'quick': 600, 'thorough': 2400}
FMOD = 'hszinc.grid_filter'
I, B = z3.IntSort(), z3.BoolSort()
TRUSTED_BASE = ['atomicity model: one shared read or write per atomic action; next() on itertools.count and dict item get/set/delete are atomic under the GIL '
                '(free-threaded builds out of scope)', 'R-og (Owicki-Gries: local correctness + interference freedom => the outline holds under every interleaving)',
                'A-bi-lru (functools.lru_cache: at most maxsize entries; an evicted value loses a reference; concurrent misses may both run the function)',
                'A-py-del (__del__ runs only when no reference to the wrapper remains; exceptions escaping it are discarded)', 'A-py-exec']
ASSUMPTIONS = ['pyparsing parse of the filter text is thread-safe', 'statement splitting into atomic actions is mechanical (AST patterns listed in the evidence); '
               'code outside these patterns that touches the shared counter / module globals is reported, not assumed']
EXPLANATION = ('The shared accesses of _filter_function / _FnWrapper are extracted from the AST into atomic actions; a proof outline (fresh-name invariant: live '
               'wrappers have pairwise distinct names, each bound to its own code) is checked by Owicki-Gries VCs for two arbitrary compiling threads and an '
               'arbitrary finaliser; sequential histories (later compilations, evictions) are symbolic executions of the real functions.')


def task_names(tier):
    return ['extract', 'og', 'sequential']


def run_task(name, tier):
    T = Task(name)
    globals()['t_' + name](T, tier)
    r = T.result()
    r['units'] = r['units'] + getattr(T, 'extra_units', [])
    return r


def _ob(T, name, ok, reason='', kind='post', status=None):
    T._add(Obligation(name, status or ('proved' if ok else 'refuted'), 'og', 0.0, 'og:' + name, reason=reason, kind=kind))


# ------------------------------------------------------------------ mechanical extraction of the shared accesses
class Model(object):
    """what the AST says about the shared state"""

    def __init__(self):
        self.alloc = None       # 'atomic_next' | 'read_then_write' | None
        self.modulo = None      # int if the name uses counter % M
        self.del_guarded = False
        self.writes_own_name_only = False
        self.get_reads_own_name = False
        self.del_own_name = False
        self.other_shared = []  # descriptions of unrecognised accesses
        self.cache_size = None


def extract_model():
    m = extract.module(FMOD)
    md = Model()
    ff = m.functions['_filter_function']
    cls = m.classes['_FnWrapper']
    # --- the name allocation in _filter_function
    name_expr = None
    for st in ast.walk(ff):
        if isinstance(st, ast.Assign) and len(st.targets) == 1 and isinstance(st.targets[0], ast.Name) and st.targets[0].id == 'fun_name':
            name_expr = st.value
    reads = [n for n in ast.walk(ff) if isinstance(n, ast.Name) and n.id == '_id_function']
    aug = [n for n in ast.walk(ff) if isinstance(n, (ast.AugAssign, ast.Assign)) and any(isinstance(t, ast.Name) and t.id == '_id_function' for t in ([n.target] if isinstance(n, ast.AugAssign) else n.targets))]
    if name_expr is not None:
        src = ast.unparse(name_expr)
        calls_next = [n for n in ast.walk(name_expr) if isinstance(n, ast.Call) and isinstance(n.func, ast.Name) and n.func.id == 'next'
                      and len(n.args) == 1 and isinstance(n.args[0], ast.Name) and n.args[0].id == '_id_function']
        for n in ast.walk(name_expr):
            if isinstance(n, ast.BinOp) and isinstance(n.op, ast.Mod) and not (isinstance(n.left, ast.Constant) and isinstance(n.left.value, str)):
                try:
                    md.modulo = int(m.const(n.right.id)) if isinstance(n.right, ast.Name) else int(n.right.value)
                except Exception:
                    md.modulo = -1
        if len(calls_next) == 1 and len(reads) == 1 and not aug:
            md.alloc = 'atomic_next'
        elif reads:
            md.alloc = 'read_then_write'
        md.name_src = src
        if not (isinstance(name_expr, ast.BinOp) and isinstance(name_expr.op, ast.Add) and isinstance(name_expr.left, ast.Constant)
                and isinstance(name_expr.right, ast.Call) and getattr(name_expr.right.func, 'id', '') == 'str'):
            md.other_shared.append('fun_name is not <constant prefix> + str(<counter value>): %s' % src)
    else:
        md.other_shared.append('no fun_name assignment in _filter_function')
    for v in m.assigns.get('_id_function', [])[-1:]:
        md.counter_init = ast.unparse(v)
        if md.alloc == 'atomic_next' and md.counter_init != 'itertools.count()':
            md.other_shared.append('_id_function is %s, next() on it is not known to be atomic' % md.counter_init)
    # lru_cache size
    for d in ff.decorator_list:
        if isinstance(d, ast.Call) and getattr(d.func, 'id', '') == 'lru_cache':
            for kw in d.keywords:
                if kw.arg == 'maxsize':
                    try:
                        md.cache_size = int(m.const(kw.value.id)) if isinstance(kw.value, ast.Name) else int(kw.value.value)
                    except Exception:
                        pass
    # --- _FnWrapper methods: accesses to globals()
    def globals_accesses(fn):
        out = []
        for n in ast.walk(fn):
            if isinstance(n, ast.Subscript) and isinstance(n.value, ast.Call) and getattr(n.value.func, 'id', '') == 'globals':
                out.append((type(n.ctx).__name__, ast.unparse(n.slice)))
            elif isinstance(n, ast.Call) and isinstance(n.func, ast.Attribute) and isinstance(n.func.value, ast.Call) and getattr(n.func.value.func, 'id', '') == 'globals':
                out.append(('call:' + n.func.attr, ast.unparse(n.args[0]) if n.args else ''))
        return out
    ini, get, dele = cls.methods.get('__init__'), cls.methods.get('get'), cls.methods.get('__del__')
    acc = globals_accesses(ini) if ini else []
    md.writes_own_name_only = [a for a in acc if a[0] == 'Store'] == [('Store', 'fun_name')] and all(a[0] in ('Store',) for a in acc)
    # exec must run in a private namespace (module globals only as the function's globals)
    ex = [n for n in ast.walk(ini) if isinstance(n, ast.Call) and getattr(n.func, 'id', '') == 'exec'] if ini else []
    md.exec_private = len(ex) == 1 and len(ex[0].args) == 3 and ast.unparse(ex[0].args[1]) == 'globals()' and ast.unparse(ex[0].args[2]) != 'globals()'
    acc = globals_accesses(get) if get else []
    md.get_reads_own_name = acc == [('Load', 'self.fun_name')]
    acc = globals_accesses(dele) if dele else []
    md.del_own_name = [a for a in acc if a[0] == 'Del'] == [('Del', 'self.fun_name')]
    md.del_guarded = any(a[0].startswith('call:') or a[0] == 'Load' for a in acc)
    return md


MUTATORS = {'append', 'extend', 'insert', 'pop', 'remove', 'clear', 'update', 'setdefault', 'popitem', 'add', 'discard', 'sort', 'reverse', '__setitem__', '__delitem__'}


def shared_state_inventory():
    """every piece of module-level mutable state of the filter module, read off the AST.  Known: the name counter, the compiled-filter cache
    (the lru_cache decorator of _filter_function), module globals written by _FnWrapper, containers that are never written after the module is
    loaded, the pyparsing grammar (hs_*).  Anything else (another cache, a memo dict, a `global` statement, a mutable class attribute) is
    state through which one filter could influence another and is listed as unrecognised."""
    m = extract.module(FMOD)
    tree = m.tree
    unknown, known = [], []
    pp_names = set()
    for st in tree.body:
        if isinstance(st, ast.ImportFrom) and st.module == 'pyparsing':
            pp_names |= {a.asname or a.name for a in st.names}
    pp_names |= {'DelimitedList'}

    def written(name):
        w = []
        for n in ast.walk(tree):
            if isinstance(n, ast.Subscript) and isinstance(n.value, ast.Name) and n.value.id == name and isinstance(n.ctx, (ast.Store, ast.Del)):
                w.append('item store/delete at line %d' % n.lineno)
            if isinstance(n, ast.Call) and isinstance(n.func, ast.Attribute) and isinstance(n.func.value, ast.Name) and n.func.value.id == name and n.func.attr in MUTATORS:
                w.append('.%s() at line %d' % (n.func.attr, n.lineno))
            if isinstance(n, ast.Global) and name in n.names:
                w.append('global statement at line %d' % n.lineno)
            if isinstance(n, ast.AugAssign) and isinstance(n.target, ast.Name) and n.target.id == name:
                w.append('augmented assignment at line %d' % n.lineno)
        return w

    def walk_no_lambda(v):
        yield v
        for c in ast.iter_child_nodes(v):
            if isinstance(c, ast.Lambda):
                continue
            for x in walk_no_lambda(c):
                yield x

    def grammar_expr(v):
        for n in walk_no_lambda(v):
            if isinstance(n, ast.Call):
                f = n.func
                while isinstance(f, ast.Attribute):
                    f = f.value
                if not isinstance(f, ast.Name):
                    continue            # a method of a sub-expression, which is walked itself
                if f.id in pp_names or f.id.startswith('hs_'):
                    continue
                return False
        return True
    for st in tree.body:
        if isinstance(st, (ast.Import, ast.ImportFrom, ast.Expr, ast.If, ast.Try)):
            if isinstance(st, ast.Expr) and isinstance(st.value, ast.Constant):
                continue
            if isinstance(st, (ast.Import, ast.ImportFrom)):
                continue
            if isinstance(st, ast.Expr) and isinstance(st.value, ast.BinOp) and isinstance(st.value.op, ast.LShift):
                continue            # Forward <<= / << of the grammar
            if isinstance(st, ast.Try) and all(isinstance(x, (ast.Import, ast.ImportFrom)) for x in st.body):
                continue
            unknown.append('module-level statement at line %d: %s' % (st.lineno, ast.unparse(st)[:60]))
            continue
        if isinstance(st, ast.AugAssign):
            if isinstance(st.target, ast.Name) and st.target.id.startswith('hs_') and grammar_expr(st.value):
                continue
            unknown.append('module-level augmented assignment at line %d' % st.lineno)
            continue
        if isinstance(st, ast.Assign):
            names = [t.id for t in st.targets if isinstance(t, ast.Name)]
            if len(names) != len(st.targets):
                unknown.append('module-level assignment to a non-name at line %d' % st.lineno)
                continue
            v = st.value
            for name in names:
                if name.startswith('hs_') and grammar_expr(v):
                    continue
                if isinstance(v, (ast.Constant, ast.Lambda)) or (isinstance(v, ast.Name)):
                    continue
                if isinstance(v, (ast.Dict, ast.List, ast.Set, ast.Tuple, ast.ListComp, ast.DictComp, ast.SetComp)):
                    wr = written(name)
                    if wr:
                        unknown.append('%s is a container that is modified: %s' % (name, '; '.join(wr[:3])))
                    else:
                        known.append('%s: container, never written after load' % name)
                    continue
                src = ast.unparse(v)
                if name == '_id_function' and src == 'itertools.count()':
                    known.append('_id_function: the name counter')
                    continue
                if isinstance(v, ast.Call) and isinstance(v.func, ast.Name) and v.func.id in m.classes and not v.args and not v.keywords \
                        and not any(isinstance(x, ast.Assign) and isinstance(x.value, (ast.Dict, ast.List, ast.Set)) for x in ast.walk(m.classes[v.func.id].node if hasattr(m.classes[v.func.id], 'node') else ast.Module(body=[], type_ignores=[]))):
                    known.append('%s: instance of %s (no attributes written)' % (name, v.func.id))
                    continue
                unknown.append('%s = %s (line %d): module-level object of unknown mutability' % (name, src[:60], st.lineno))
            continue
        if isinstance(st, (ast.FunctionDef, ast.ClassDef)):
            for d in st.decorator_list:
                ds = ast.unparse(d)
                if st.name == '_filter_function' and ds.startswith('lru_cache('):
                    known.append('_filter_function: the compiled-filter cache')
                    continue
                unknown.append('decorator %s on %s' % (ds, st.name))
            for n in ast.walk(st):
                if isinstance(n, ast.Global):
                    unknown.append('global statement in %s (line %d)' % (st.name, n.lineno))
                if isinstance(n, ast.FunctionDef):
                    for a in list(n.args.defaults) + [x for x in n.args.kw_defaults if x is not None]:
                        if isinstance(a, (ast.Dict, ast.List, ast.Set)) or (isinstance(a, ast.Call) and getattr(a.func, 'id', '') in ('dict', 'list', 'set')):
                            unknown.append('mutable default argument in %s (line %d)' % (n.name, n.lineno))
                if isinstance(n, ast.Attribute) and isinstance(n.ctx, (ast.Store, ast.Del)) and isinstance(n.value, ast.Name) and n.value.id not in ('self',) \
                        and (n.value.id in m.functions or n.value.id in m.classes):
                    unknown.append('attribute of a module-level object written in %s (line %d)' % (st.name, n.lineno))
            if isinstance(st, ast.ClassDef):
                for x in st.body:
                    if isinstance(x, ast.Assign) and isinstance(x.value, (ast.Dict, ast.List, ast.Set, ast.Call)):
                        unknown.append('class attribute %s.%s holds an object shared by all instances' % (st.name, ast.unparse(x.targets[0])))
            continue
        unknown.append('module-level statement at line %d: %s' % (st.lineno, type(st).__name__))
    return known, unknown


def t_extract(T, tier):
    w = World()
    m = extract.module(FMOD)
    for q in ('_filter_function', 'filter_function'):
        w.note_unit(m, q, m.functions[q])
    for q in ('__init__', 'get', '__del__'):
        w.note_unit(m, '_FnWrapper.' + q, m.classes['_FnWrapper'].methods[q])
    T.world = w
    md = extract_model()
    _ob(T, 'extract/shared_accesses_all_recognised', not md.other_shared, '; '.join(md.other_shared), kind='structure', status=None if not md.other_shared else 'unknown')
    known, unknown = shared_state_inventory()
    import hashlib
    T.extra_units = [{'function': FMOD + ' (module-level statements: shared-state inventory)', 'file': 'hszinc/grid_filter.py', 'lines': 'all',
                      'ast_sha': hashlib.sha256(ast.dump(m.tree).encode()).hexdigest()[:16]}]
    _ob(T, 'extract/inventory/no_shared_mutable_state_beyond_the_counter_the_filter_cache_and_the_generated_names(%d known)' % min(len(known), 3), not unknown and len(known) >= 3,
        '; '.join(unknown[:4]), kind='structure', status=None if (not unknown and len(known) >= 3) else 'unknown')
    _ob(T, 'extract/_FnWrapper.__init__/writes_only_its_own_global_name', md.writes_own_name_only, kind='structure')
    _ob(T, 'extract/_FnWrapper.__init__/exec_in_private_namespace', md.exec_private, kind='structure')
    _ob(T, 'extract/_FnWrapper.get/reads_only_its_own_global_name', md.get_reads_own_name, kind='structure')
    _ob(T, 'extract/_FnWrapper.__del__/deletes_only_its_own_global_name', md.del_own_name, kind='structure')


# ------------------------------------------------------------------ Owicki-Gries on the extracted actions
def t_og(T, tier):
    md = extract_model()
    w = World()
    m = extract.module(FMOD)
    w.note_unit(m, '_filter_function', m.functions['_filter_function'])
    T.world = w
    # shared state: counter c, globals G : name -> code ; names are integers (prefix + str(k) is injective in k: A-bi-str-int)
    c = z3.Int('c')
    G = z3.Array('G', I, I)
    NONE = z3.IntVal(-1)
    M = md.modulo

    def name(k):
        return k % M if (M and M > 0) else k
    # thread t: locals k_t (counter value read), code_t (distinct per thread: different filters), pc_t in 0..3 ; pc: 0 start, 1 name chosen, 2 function defined, 3 got
    def thread(t):
        return dict(k=z3.Int('k%d' % t), code=z3.Int('code%d' % t), pc=z3.Int('pc%d' % t), r=z3.Int('r%d' % t), tmp=z3.Int('tmp%d' % t))
    t0, t1 = thread(0), thread(1)
    # dead wrapper v (already compiled, no longer referenced): its name kv < c, and it is not thread 0's / thread 1's wrapper
    kv = z3.Int('kv')
    base = [t0['code'] != t1['code'], t0['code'] >= 0, t1['code'] >= 0, c >= 0]

    def actions(t):
        """atomic actions of thread t: list of (label, guard, update dict over {c, G, k, pc, r, tmp})"""
        acts = []
        if md.alloc == 'atomic_next':
            acts.append(('next', t['pc'] == 0, {'k': c, 'c': c + 1, 'pc': z3.IntVal(1)}))
        else:
            # read the counter ... (other statements) ... write it back incremented: two atomic actions
            acts.append(('read_counter', t['pc'] == 0, {'k': c, 'pc': z3.IntVal(1)}))
        acts.append(('define', t['pc'] == 1, {'G': z3.Store(G, name(t['k']), t['code']), 'pc': z3.IntVal(2)}))
        if md.alloc != 'atomic_next':
            acts.append(('write_counter', t['pc'] == 2, {'c': t['k'] + 1, 'pc': z3.IntVal(12)}))
            acts.append(('get', t['pc'] == 12, {'r': z3.Select(G, name(t['k'])), 'pc': z3.IntVal(3)}))
        else:
            acts.append(('get', t['pc'] == 2, {'r': z3.Select(G, name(t['k'])), 'pc': z3.IntVal(3)}))
        return acts

    def assertion(t, o):
        """proof outline: what holds for thread t at its current pc (o = the other thread)"""
        k, pc = t['k'], t['pc']
        named = z3.And(pc >= 1)
        fresh = z3.Implies(z3.And(pc >= 1, o['pc'] >= 1), name(k) != name(o['k']))
        if md.alloc == 'atomic_next':
            below = z3.Implies(pc >= 1, z3.And(k >= 0, k < c))
        else:
            below = z3.Implies(pc >= 1, k >= 0)
        defined = z3.Implies(z3.Or(pc == 2, pc == 12, pc == 3), z3.Select(G, name(k)) == t['code'])
        result = z3.Implies(pc == 3, t['r'] == t['code'])
        notdead = z3.Implies(pc >= 1, name(k) != name(kv))
        return z3.And(below, fresh, defined, result, notdead, z3.Or(pc == 0, pc == 1, pc == 2, pc == 12, pc == 3))

    def subst(f, upd, t):
        pairs = []
        for var, val in upd.items():
            if var == 'c':
                pairs.append((c, val))
            elif var == 'G':
                pairs.append((G, val))
            else:
                pairs.append((t[var], val))
        return z3.substitute(f, *pairs)
    dead_ok = z3.And(kv >= 0, kv < c) if md.alloc == 'atomic_next' else kv >= 0
    inv = lambda: z3.And(assertion(t0, t1), assertion(t1, t0), dead_ok, *base)
    # initial state
    init = [t0['pc'] == 0, t1['pc'] == 0, dead_ok] + base
    v = smt.check(init + [z3.Not(inv())])
    _ob(T, 'og/initial_state_satisfies_the_outline', v.status == 'unsat', v.reason)
    # local correctness + interference freedom: every action of either thread preserves the whole outline (both threads' assertions)
    for ti, (t, o) in enumerate(((t0, t1), (t1, t0))):
        for label, guard, upd in actions(t):
            post = subst(inv(), upd, t)
            v = smt.check([inv(), guard, z3.Not(post)])
            ok = v.status == 'unsat'
            reason = ''
            if not ok and v.model is not None:
                mdl = v.model
                reason = 'interleaving state: ' + ', '.join('%s=%s' % (x, mdl.eval(x, model_completion=True)) for x in (c, t0['pc'], t0['k'], t1['pc'], t1['k'], kv))
            _ob(T, 'og/thread%d.%s/preserves_both_outlines(local correctness + interference freedom)' % (ti, label), ok, reason,
                status='proved' if ok else ('refuted' if v.status == 'sat' else 'unknown'))
    # the finaliser of a dead wrapper (eviction): del G[name(kv)] (guarded variants delete only if the entry is still its own)
    upd = {'G': z3.Store(G, name(kv), NONE)}
    post = z3.substitute(inv(), (G, upd['G']))
    v = smt.check([inv(), z3.Not(post)])
    _ob(T, 'og/finaliser_of_an_evicted_wrapper/preserves_both_outlines', v.status == 'unsat', v.reason, status='proved' if v.status == 'unsat' else ('refuted' if v.status == 'sat' else 'unknown'))
    # consequence: each thread evaluates its own code
    v = smt.check([inv(), t0['pc'] == 3, t0['r'] != t0['code']])
    _ob(T, 'og/consequence/each_thread_gets_the_function_of_its_own_filter', v.status == 'unsat', v.reason)
    # vacuity: the outline is satisfiable with both threads in the middle
    T.cover('og/cover/both_threads_mid_compilation', [inv(), t0['pc'] == 1, t1['pc'] == 2])
    # names never recycled while a cached wrapper may still hold them
    _ob(T, 'og/names_are_injective_in_the_counter(no modulo / recycling)', not M, 'name uses the counter modulo %s' % M, kind='structure')


# ------------------------------------------------------------------ sequential histories on the real functions
def t_sequential(T, tier):
    w = World()
    fa = extract.module('hszinc.filter_ast')
    G = LazyDict()
    w.builtins['globals'] = Builtin('globals', lambda it, a, k: G)
    counter = {'n': 0}

    def nxt(it, args, kw):
        counter['n'] += 1
        return counter['n'] + 40
    w.builtins['next'] = Builtin('next', nxt)
    w.global_overrides[(FMOD, '_id_function')] = 'COUNTER'

    def exec_(it, args, kw):
        import re
        src, g, ns = args[0], args[1], args[2] if len(args) > 2 else args[1]
        m = re.match(r'def ([A-Za-z_][A-Za-z0-9_]*)\(', src) if isinstance(src, str) else None
        if not m:
            raise OutOfSubset('exec of something that is not a def')
        ns[m.group(1)] = ('FUNCTION', src)
    w.builtins['exec'] = Builtin('exec', exec_)
    w.contracts[FMOD + '.parse_filter'] = lambda it, args, kw: SObj(w.class_ref(fa, 'FilterAST'), {'_head': ('HEAD', args[0])})
    w.contracts[FMOD + '._generate_filter_in_python'] = lambda it, args, kw: ['<expr of %s>' % (args[0][1],)]

    def run(it):
        counter['n'] = 0
        G.clear()
        f = w.function(FMOD, '_filter_function')
        w1 = it.call(f, ['filterA'])
        w2 = it.call(f, ['filterB'])
        n1, n2 = w1.fields['fun_name'], w2.fields['fun_name']
        it.ctx.oblige('_filter_function/ensures.fresh_name_for_each_compilation', z3.BoolVal(n1 != n2 and n1 in G and n2 in G))
        g1, g2 = it.call_method(w1, 'get', []), it.call_method(w2, 'get', [])
        it.ctx.oblige('_FnWrapper.get/ensures.each_wrapper_resolves_to_its_own_code', z3.BoolVal('filterA' in g1[1] and 'filterB' in g2[1]))
        # eviction of the first wrapper: its finaliser runs
        it.call_method(w1, '__del__', [])
        g2b = it.call_method(w2, 'get', [])
        it.ctx.oblige('eviction/ensures.still_cached_filter_keeps_working', z3.BoolVal(g2b is g2 and n1 not in G))
        # recompilation of the evicted filter gets a new name and its own code
        w3 = it.call(f, ['filterA'])
        g3 = it.call_method(w3, 'get', [])
        it.ctx.oblige('recompilation/ensures.new_name_own_code_others_untouched', z3.BoolVal(w3.fields['fun_name'] not in (n1, n2) and 'filterA' in g3[1] and it.call_method(w2, 'get', []) is g2))
        it.ctx.oblige('previously_obtained_function/ensures.unaffected_by_later_compilations', z3.BoolVal(g1[1].startswith('def %s(' % n1)))
    T.explore(w, run, 'history')
