"""C19 - equality of Haystack values and grids is a lawful, kind-aware relation (datatypes.py, grid.py)."""
import itertools

import z3

from hv.vc import smt
from hv.vc.kit import Task
from hv.vc.world import World
from hv.vc.symex import Obligation
from hv.vc.values import SObj, SKey, SVal, SInt, SBool, PyExc, OutOfSubset, AbstractCallable, ClassRef
from hv.frontend import extract
from contracts import datatypes as DT, kinds as KD

HAS_CONCRETE = True
CONCRETE_TIMEOUT = {'quick': 300, 'thorough': 1800}
V, K, B = smt.VAL, smt.KEY, z3.BoolSort()
TRUSTED_BASE = ['A-py', 'A-disp (rich comparison dispatch incl. subclass-first rule; str subclasses inherit str.__eq__/__ne__ for methods they do not define)',
                'A-num (== on builtin payloads is symmetric, never raises, != is its negation; arithmetic between two non-bool numbers never raises)',
                'A-bi-hash (equal payloads hash equally; hash of tuple / xor of hashes are functions of the parts)',
                'kind lattice of isinstance (contracts/kinds.py)']
ASSUMPTIONS = ['reflexivity is stated for payloads equal to themselves (a bare NaN payload is excluded, see DESIGN C19)',
               'Grid.__eq__ is executed on grids with 0..2 metadata items / columns / rows and symbolic cell content (shape-bounded: its loops are '
               'return-False-on-first-difference scans); _approx_check, the value classes and dispatch are verified without any bound']
EXPLANATION = ('== and != are executed through the dispatch model for every ordered pair of kinds with an hszinc class on at least one side; '
               'symmetry, complement, never-raises, kind-awareness, eq=>equal-hash are obligations per pair; Grid._approx_check is verified for all '
               'pairs of cell kinds (never raises, False on another kind, True on equal content).')

ALL = DT.HSZ_KINDS + DT.BUILTIN_KINDS
TEXT = ('uri', 'bin', 'str')
HASHABLE = ('qty', 'coord', 'ref0', 'ref1', 'marker', 'na', 'remove')


def task_names(tier):
    return ['pairs:' + k for k in DT.HSZ_KINDS] + ['reflexive', 'singletons', 'grid_eq'] + ['approx:' + k for k in CELL_KINDS]


def run_task(name, tier):
    T = Task(name)
    parts = name.split(':')
    globals()['t_' + parts[0]](T, tier, *parts[1:])
    return T.result()


def _world():
    w = World()
    DT.install(w)
    w.global_overrides[(DT.MOD, 'PINT_AVAILABLE')] = False
    w.global_overrides[(DT.MOD, 'MODE_PINT')] = False
    return w


def _b(t):
    return z3.BoolVal(t) if isinstance(t, bool) else t


def _bool(it, r):
    """python bool / SBool -> z3 Bool, or None if the result is not a bool"""
    if isinstance(r, bool):
        return z3.BoolVal(r)
    if isinstance(r, SBool):
        return r.term
    return None


def content_equal(ka, da, kb, db):
    """reference relation from the statement: same kind and same content"""
    if ka != kb:
        if {ka, kb} <= {'int', 'float'}:
            return DT.eqv(da['v'], db['v'])
        if 'qty' in (ka, kb) and ({ka, kb} - {'qty'}) <= {'int', 'float', 'bool'}:
            q, o = (da, db) if ka == 'qty' else (db, da)
            return DT.eqv(q['value'], o['v'])           # a Quantity compares as its value against plain numbers (C20)
        return z3.BoolVal(False)
    if ka == 'qty':
        return z3.And(da['unit'] == db['unit'], DT.eqv(da['value'], db['value']))
    if ka == 'coord':
        return z3.And(DT.eqv(da['lat'], db['lat']), DT.eqv(da['lng'], db['lng']))
    if ka in ('uri', 'bin'):
        return da['text'] == db['text']
    if ka == 'xstr':
        return DT.eqv(da['data'], db['data'])
    if ka == 'ref0':
        return da['name'] == db['name']
    if ka == 'ref1':
        return z3.And(da['name'] == db['name'], da['dis'] == db['dis'])
    if ka in ('marker', 'na', 'remove', 'none'):
        return z3.BoolVal(True)
    return None


def t_pairs(T, tier, ka):
    for kb in ALL:
        w = _world()

        def run(it, ka=ka, kb=kb):
            for ax in DT.axioms():
                it.ctx.assume(ax)
            a, da = DT.mk(it, w, ka, 'a')
            b, db = DT.mk(it, w, kb, 'b')
            it.ctx.witness_fn = lambda model: {'kind': 'pair', 'a': ka, 'b': kb,
                                               'same_payload': bool(z3.is_true(model.eval(_b(content_equal(ka, da, kb, db)) if content_equal(ka, da, kb, db) is not None else z3.BoolVal(False), model_completion=True)))}
            it.st = (ka, kb, da, db)
            ops = w.ops
            e_ab = ops.compare(it, 'Eq', a, b)
            e_ba = ops.compare(it, 'Eq', b, a)
            n_ab = ops.compare(it, 'NotEq', a, b)
            n_ba = ops.compare(it, 'NotEq', b, a)
            ts = [_bool(it, r) for r in (e_ab, e_ba, n_ab, n_ba)]
            it.ctx.oblige('eq/ensures.results_are_bool', z3.BoolVal(all(t is not None for t in ts)))
            if any(t is None for t in ts):
                return
            eab, eba, nab, nba = ts
            it.ctx.oblige('eq/ensures.symmetric', eab == eba)
            it.ctx.oblige('ne/ensures.complement_of_eq', z3.And(nab == z3.Not(eab), nba == z3.Not(eba)))
            ce = content_equal(ka, da, kb, db)
            if ce is not None:
                it.ctx.oblige('eq/ensures.kind_aware_same_kind_and_content', eab == ce)
            if ka in HASHABLE and kb == ka:
                ha = it.call(w.builtins['hash'], [a])
                hb = it.call(w.builtins['hash'], [b])
                it.ctx.oblige('hash/ensures.eq_implies_equal_hash', z3.Implies(eab, DT.hash_equal(it, w, ha, hb)))

        def on_raise(it, e):
            ka, kb, da, db = it.st
            ok = z3.BoolVal(False)
            if ka == 'qty' and kb == 'qty' and e.cls == 'TypeError':
                ok = da['unit'] != db['unit']
            it.ctx.oblige('eq/raises.never(except Quantity units differ)(%s)' % e.cls, ok, kind='raises')
        T.explore(w, run, '%s~%s' % (ka, kb), allow_raise=on_raise)


def t_reflexive(T, tier):
    for ka in DT.HSZ_KINDS:
        w = _world()

        def run(it, ka=ka):
            for ax in DT.axioms():
                it.ctx.assume(ax)
            a, da = DT.mk(it, w, ka, 'a')
            for t in da.values():
                if t.sort() == V:
                    it.ctx.assume(DT.eqv(t, t))        # payload equal to itself (not NaN)
            it.ctx.witness_fn = lambda model: {'kind': 'pair', 'a': ka, 'b': ka, 'same_payload': True, 'same_object': True}
            e = _bool(it, w.ops.compare(it, 'Eq', a, a))
            n = _bool(it, w.ops.compare(it, 'NotEq', a, a))
            it.ctx.oblige('eq/ensures.reflexive', z3.And(e, z3.Not(n)) if e is not None and n is not None else z3.BoolVal(False))
        T.explore(w, run, ka)


def t_singletons(T, tier):
    for ka in ('marker', 'na', 'remove'):
        w = _world()

        def run(it, ka=ka):
            a, _ = DT.mk(it, w, ka, 'a')
            it.ctx.witness_fn = lambda model: {'kind': 'singleton', 'which': ka}
            c1 = it.call_method(a, '__copy__', [])
            c2 = it.call_method(a, '__deepcopy__', [{}])
            it.ctx.oblige('Singleton/ensures.copy_and_deepcopy_return_self', z3.BoolVal(c1 is a and c2 is a))
            c, m = a.cls.find_method('__eq__')
            it.ctx.oblige('Singleton/ensures.identity_equality', z3.BoolVal(m is None))
        T.explore(w, run, ka)


# ------------------------------------------------------------------ Grid._approx_check on opaque cells
proj = {n: z3.Function('attr_' + n, V, V) for n in ('unit', 'value', 'latitude', 'longitude', 'tzinfo', 'date', 'time', 'trunc_us')}
close = z3.Function('abs_diff_below_eps', V, V, B)
elementwise_raises = z3.Function('elementwise_eq_raises_TypeError', V, V, B)
NUM = ['int', 'float']


def _approx_world():
    w = World()
    KD.install(w)
    w.hooks['as_term'] = lambda it, v, sort: None

    def val_getattr(it, obj, name):
        if not isinstance(obj, SVal):
            return NotImplemented
        need = {'unit': ['qty'], 'value': ['qty'], 'latitude': ['coord'], 'longitude': ['coord'], 'tzinfo': ['datetime', 'time'],
                'date': ['datetime'], 'time': ['datetime'], 'replace': ['time', 'datetime', 'date', 'str', 'uri', 'bin']}
        if name not in need:
            raise OutOfSubset('attribute %s' % name)
        if not it.ctx.branch(KD.is_kind(obj.term, need[name])):
            it.raise_('AttributeError', name)
        if name in ('date', 'time'):
            return AbstractCallable(name, lambda it2, a, k: _typed(it2, proj[name](obj.term), 'date' if name == 'date' else 'time'))
        if name == 'replace':
            def rep(it2, a, k):
                if not it2.ctx.branch(KD.is_kind(obj.term, ['time', 'datetime', 'date'])):
                    it2.raise_('TypeError', 'str.replace() takes no keyword arguments')
                return _typed(it2, proj['trunc_us'](obj.term), None, same_as=obj.term)
            return AbstractCallable('replace', rep)
        if name in ('value', 'latitude', 'longitude'):
            return _typed(it, proj[name](obj.term), NUM)
        return _typed(it, proj[name](obj.term), ['other'] if name == 'tzinfo' else ['str', 'none'])
    w.hooks['val_getattr'] = val_getattr

    def _typed(it, t, kinds, same_as=None):
        if same_as is not None:
            it.ctx.assume(KD.kind(t) == KD.kind(same_as))
        elif kinds is not None:
            it.ctx.assume(KD.is_kind(t, kinds if isinstance(kinds, list) else [kinds]))
        return SVal(t)

    def compare(it, op, a, b):
        if isinstance(a, SVal) and isinstance(b, SVal) and op in ('Eq', 'NotEq'):
            # == between opaque cells: a Quantity on either side compares as its value (Qty.__eq__, C20) and raises
            # TypeError for two Quantities whose units differ; otherwise builtin == (A-num)
            qa, qb = KD.is_kind(a.term, ['qty']), KD.is_kind(b.term, ['qty'])
            if it.ctx.branch(z3.And(qa, qb)):
                if it.ctx.branch(z3.Not(DT.eqv(proj['unit'](a.term), proj['unit'](b.term)))):
                    it.raise_('TypeError', 'Quantity units differ')
                t = DT.eqv(proj['value'](a.term), proj['value'](b.term))
            elif it.ctx.branch(qa):
                t = DT.eqv(proj['value'](a.term), b.term)
            elif it.ctx.branch(qb):
                t = DT.eqv(a.term, proj['value'](b.term))
            else:
                # builtin == on collections compares element by element: elements that are Quantities of different units raise TypeError (C20)
                if it.ctx.branch(z3.And(KD.is_kind(a.term, ['list', 'dict']), KD.is_kind(b.term, ['list', 'dict']), KD.kind(a.term) == KD.kind(b.term),
                                         elementwise_raises(a.term, b.term))):
                    it.raise_('TypeError', 'Quantity units differ (inside a collection)')
                t = DT.eqv(a.term, b.term)
            return it.wrap(t if op == 'Eq' else z3.Not(t))
        if isinstance(a, AbsDiff) and op == 'Lt':
            return it.wrap(close(a.x, a.y))
        return NotImplemented
    w.hooks['compare'] = compare

    class AbsDiff(object):
        def __init__(self, x, y):
            self.x, self.y = x, y

    def binop(it, op, a, b):
        if op == 'Sub' and isinstance(a, SVal) and isinstance(b, SVal):
            if not it.ctx.branch(z3.And(KD.is_kind(a.term, NUM + ['bool']), KD.is_kind(b.term, NUM + ['bool']))):
                it.raise_('TypeError', 'unsupported operand type(s) for -')
            return AbsDiff(a.term, b.term)
        return NotImplemented
    w.hooks['binop'] = binop
    w.hooks['abs'] = lambda it, v: v
    w.builtins['abs'] = type(w.builtins['abs'])('abs', lambda it, args, kw: args[0] if isinstance(args[0], AbsDiff) else (_ for _ in ()).throw(OutOfSubset('abs')))
    return w


CELL_KINDS = ['none', 'marker', 'bool', 'int', 'float', 'str', 'uri', 'ref', 'date', 'time', 'datetime', 'coord', 'qty', 'list', 'xstr']


def same_cell_kind(k1, k2):
    n = lambda k: 'number' if k in ('int', 'float') else k
    return n(k1) == n(k2)


def t_approx(T, tier, only_k1=None):
    gm = extract.module('hszinc.grid')
    for k1, k2 in itertools.product([only_k1] if only_k1 else CELL_KINDS, CELL_KINDS):
        w = _approx_world()
        w.under_verification = 'hszinc.grid.Grid._approx_check'

        def run(it, k1=k1, k2=k2):
            for ax in DT.axioms():
                it.ctx.assume(ax)
            v1, v2 = it.ctx.fresh('v1', V), it.ctx.fresh('v2', V)
            it.ctx.assume(z3.And(KD.kind(v1) == KD.KID[k1], KD.kind(v2) == KD.KID[k2]))
            # a Quantity's value is a number (Haystack numbers are int/float)
            for vq in (v1, v2):
                it.ctx.assume(z3.Implies(KD.is_kind(vq, ['qty']), KD.is_kind(proj['value'](vq), NUM)))
            it.ctx.witness_fn = lambda model: {'kind': 'cells', 'k1': k1, 'k2': k2}
            cls = w.class_ref(gm, 'Grid')
            r = it.call(it.getattr(cls, '_approx_check'), [SVal(v1), SVal(v2)])
            rb = _bool(it, r)
            it.ctx.oblige('_approx_check/ensures.returns_bool', z3.BoolVal(rb is not None))
            if rb is not None and not same_cell_kind(k1, k2):
                it.ctx.oblige('_approx_check/ensures.False_for_a_cell_of_another_kind', z3.Not(rb))
            if rb is not None and same_cell_kind(k1, k2):
                # the discriminating direction, from the statement: cells that differ materially are unequal.  "Materially equal" per kind:
                # numbers within the tolerance; times up to the sub-second part; date-times: same zone object, same date, same time of day;
                # quantities: same unit, values within tolerance; coordinates: both angles within tolerance; everything else: equal content
                near = lambda a, b: z3.Or(DT.eqv(a, b), close(a, b))
                P = proj
                if k1 in ('int', 'float'):
                    same = near(v1, v2)
                elif k1 == 'time':
                    same = DT.eqv(P['trunc_us'](v1), P['trunc_us'](v2))
                elif k1 == 'datetime':
                    same = z3.And(DT.eqv(P['tzinfo'](v1), P['tzinfo'](v2)), DT.eqv(P['date'](v1), P['date'](v2)),
                                  DT.eqv(P['trunc_us'](P['time'](v1)), P['trunc_us'](P['time'](v2))))
                elif k1 == 'qty':
                    same = z3.And(DT.eqv(P['unit'](v1), P['unit'](v2)), near(P['value'](v1), P['value'](v2)))
                elif k1 == 'coord':
                    same = z3.And(near(P['latitude'](v1), P['latitude'](v2)), near(P['longitude'](v1), P['longitude'](v2)))
                else:
                    same = DT.eqv(v1, v2)
                it.ctx.oblige('_approx_check/ensures.True_only_for_materially_equal_cells(%s)' % k1, z3.Implies(rb, same))
        T.explore(w, run, '%s~%s' % (k1, k2))       # no allow_raise: any exception is a failed obligation
    # equal content => True (faithful copy), for each kind
    for k1 in ([only_k1] if only_k1 else CELL_KINDS):
        w = _approx_world()
        w.under_verification = 'hszinc.grid.Grid._approx_check'

        def run2(it, k1=k1):
            for ax in DT.axioms():
                it.ctx.assume(ax)
            v1 = it.ctx.fresh('v1', V)
            it.ctx.assume(KD.kind(v1) == KD.KID[k1])
            x = z3.Const('x!r', V)
            it.ctx.assume(z3.ForAll([x], DT.eqv(x, x)))
            it.ctx.assume(z3.ForAll([x], z3.Not(elementwise_raises(x, x))))      # a collection compared with itself: identical elements, no unit clash       # content equal to itself (NaN excluded)
            it.ctx.witness_fn = lambda model: {'kind': 'cells', 'k1': k1, 'k2': k1, 'same': True}
            cls = w.class_ref(gm, 'Grid')
            r = it.call(it.getattr(cls, '_approx_check'), [SVal(v1), SVal(v1)])
            rb = _bool(it, r)
            it.ctx.oblige('_approx_check/ensures.True_on_equal_content', rb if rb is not None else z3.BoolVal(False))
        T.explore(w, run2, 'same/%s' % k1)


# ------------------------------------------------------------------ Grid.__eq__ on small shapes with symbolic cells
def t_grid_eq(T, tier):
    gm = extract.module('hszinc.grid')
    approx = z3.Function('approx_check', V, V, B)
    shapes = [(0, 1, 0), (1, 1, 1), (1, 2, 2), (0, 1, 2)]
    for (nm, nc, nr) in shapes:
        for variant in ('same_shape', 'sparse_rows', 'other_not_grid', 'fewer_rows', 'other_meta_key', 'other_column', 'other_colmeta_key'):
            w = World()
            KD.install(w)
            w.hooks['as_term'] = lambda it, v, sort: None
            w.contracts['hszinc.grid.Grid._approx_check'] = lambda it, args, kw: it.wrap(approx(_t(args[0]), _t(args[1])))
            w.under_verification = 'hszinc.grid.Grid.__eq__'

            def _t(x):
                if isinstance(x, SVal):
                    return x.term
                if x is None:
                    return KD.NONE_C
                raise OutOfSubset('cell %r' % (x,))

            def mkgrid(it, name, nm, nc, nr, cls, mkeys=None, cols=None, cmkey='t'):
                mkeys = mkeys or ['m%d' % i for i in range(nm)]
                cols = cols or ['c%d' % i for i in range(nc)]
                md = {k: SVal(it.ctx.fresh('%s_md_%s' % (name, k), V)) for k in mkeys}
                colmeta = {c: {cmkey: SVal(it.ctx.fresh('%s_cm_%s' % (name, c), V))} for c in cols}
                rows = [{c: SVal(it.ctx.fresh('%s_r%d_%s' % (name, i, c), V)) for c in cols} for i in range(nr)]
                return SObj(cls, {'metadata': md, 'column': colmeta, '_row': rows, '_index': None}), md, colmeta, rows

            def run(it, nm=nm, nc=nc, nr=nr, variant=variant):
                cls = w.class_ref(gm, 'Grid')
                a, amd, acm, arows = mkgrid(it, 'a', nm, nc, nr, cls)
                it.ctx.witness_fn = lambda model: {'kind': 'grids', 'shape': [nm, nc, nr], 'variant': variant}
                if variant == 'other_not_grid':
                    ot = it.ctx.fresh('other', V)
                    it.ctx.assume(KD.kind(ot) != KD.KID['grid'])
                    r = it.call_method(a, '__eq__', [SVal(ot)])
                    it.ctx.oblige('Grid.__eq__/ensures.False_for_non_grid', z3.BoolVal(r is False))
                    return
                if variant == 'fewer_rows':
                    if nr == 0:
                        return
                    b, bmd, bcm, brows = mkgrid(it, 'b', nm, nc, nr - 1, cls)
                elif variant == 'other_meta_key':
                    b, bmd, bcm, brows = mkgrid(it, 'b', nm, nc, nr, cls, mkeys=['zz'] + ['m%d' % i for i in range(1, nm)] if nm else ['zz'])
                elif variant == 'other_colmeta_key':
                    # the same columns, each with as many metadata tags as on the other side, under another name
                    if nc == 0:
                        return
                    b, bmd, bcm, brows = mkgrid(it, 'b', nm, nc, nr, cls, cmkey='zz')
                elif variant == 'other_column':
                    b, bmd, bcm, brows = mkgrid(it, 'b', nm, nc, nr, cls, cols=['zz'] + ['c%d' % i for i in range(1, nc)])
                else:
                    b, bmd, bcm, brows = mkgrid(it, 'b', nm, nc, nr, cls)
                if variant == 'sparse_rows':
                    # rows are sparse: a null cell is usually just absent - on either side, in different columns
                    if nr == 0 or nc == 0:
                        return
                    cols = list(acm)
                    for i, (ra, rbw) in enumerate(zip(arows, brows)):
                        del ra[cols[i % nc]]
                        del rbw[cols[(i + 1) % nc]]
                r = it.call_method(a, '__eq__', [b])
                rb = _bool(it, r)
                if rb is None:
                    it.ctx.oblige('Grid.__eq__/ensures.returns_bool', z3.BoolVal(False))
                    return
                if variant not in ('same_shape', 'sparse_rows'):
                    it.ctx.oblige('Grid.__eq__/ensures.False_on_material_difference(%s)' % variant, z3.Not(rb))
                    return
                conj = [approx(amd[k].term, bmd[k].term) for k in amd]
                conj += [approx(acm[c]['t'].term, bcm[c]['t'].term) for c in acm]
                for ra, rbw in zip(arows, brows):
                    conj += [approx(_t(ra.get(c)), _t(rbw.get(c))) for c in acm]
                it.ctx.oblige('Grid.__eq__/ensures.iff_every_position_matches(an_absent_cell_is_null)%s' % ('' if variant == 'same_shape' else '/sparse'),
                              rb == (z3.And(*conj) if conj else z3.BoolVal(True)))
            T.explore(w, run, 'shape=%d.%d.%d/%s' % (nm, nc, nr, variant))
