"""C20 bounded stand-in / replay: real Quantity against the bare value over an operand catalogue."""
import itertools
import math
import operator

OPS = {'+': operator.add, '-': operator.sub, '*': operator.mul, '/': operator.truediv, '//': operator.floordiv, '%': operator.mod,
       '**': operator.pow, '<<': operator.lshift, '>>': operator.rshift, '&': operator.and_, '|': operator.or_, '^': operator.xor,
       'divmod': divmod, '<': operator.lt, '<=': operator.le, '==': operator.eq, '!=': operator.ne, '>=': operator.ge, '>': operator.gt}
UNARY = {'neg': operator.neg, 'pos': operator.pos, 'abs': abs, 'invert': operator.invert, 'int': int, 'float': float, 'complex': complex}
CAT = [0, 1, -1, 2, 7, -3, 10 ** 20, True, False, 0.0, -0.0, 1.5, -2.25, 1e-300, 1e300, float('inf'), float('-inf'), float('nan'),
       # distinct values that are very close / equal only after rounding: comparisons are exact
       0.1 + 0.2, 0.3, 1.0000000000000002, 2 ** 53 + 1, 2.0 ** 53, 2 ** 63 - 1, 2.0 ** 63, 1e-320, 5e-324]


def _out(f, *a):
    try:
        return ('ok', f(*a))
    except Exception as e:
        return ('exc', type(e).__name__)


def _same(a, b):
    if a[0] != b[0]:
        return False
    if a[0] == 'exc':
        return a[1] == b[1]
    return _veq(a[1], b[1])


def _veq(x, y):
    if isinstance(x, tuple) and isinstance(y, tuple):
        return len(x) == len(y) and all(_veq(p, q) for p, q in zip(x, y))
    if type(x) is not type(y):
        return False
    if isinstance(x, float) and math.isnan(x):
        return math.isnan(y)
    if isinstance(x, complex):
        return repr(x) == repr(y)
    return x == y and repr(x) == repr(y)


def check_pair(opn, v, x, shape):
    from hszinc.datatypes import Quantity
    f = OPS[opn]
    if shape == 'Qx':
        got, want = _out(f, Quantity(v, 'm'), x), _out(f, v, x)
    elif shape == 'xQ':
        got, want = _out(f, x, Quantity(v, 'm')), _out(f, x, v)
    elif shape == 'QQd':      # arithmetic ignores the units: two different ones, or one absent
        got, want = _out(f, Quantity(v, 'A'), Quantity(x, 'V')), _out(f, v, x)
    elif shape == 'QQn':
        got, want = _out(f, Quantity(v, 'kW'), Quantity(x, None)), _out(f, v, x)
    elif shape == 'nQQ':
        got, want = _out(f, Quantity(v, None), Quantity(x, 'kW')), _out(f, v, x)
    else:
        got, want = _out(f, Quantity(v, 'm'), Quantity(x, 'm')), _out(f, v, x)
    if not _same(got, want):
        return '%s %s: Quantity gives %r, bare value gives %r (v=%r x=%r)' % (shape, opn, got, want, v, x)
    return None


def check_unary(un, v):
    from hszinc.datatypes import Quantity
    got, want = _out(UNARY[un], Quantity(v, 'kW')), _out(UNARY[un], v)
    if not _same(got, want):
        return '%s: Quantity gives %r, bare value gives %r (v=%r)' % (un, got, want, v)
    return None


def check_units(opn, v, x):
    from hszinc.datatypes import Quantity
    got = _out(OPS[opn], Quantity(v, 'm'), Quantity(x, 'ft'))
    if got != ('exc', 'TypeError'):
        return 'comparison %s of Quantities with different units gives %r, not TypeError' % (opn, got)
    return None


def _enc(v):
    return repr(v)


def _dec(s):
    return eval(s, {'inf': float('inf'), 'nan': float('nan'), 'True': True, 'False': False})


def bounded(tier, seed):
    failures, cases = [], 0
    for opn in OPS:
        for v, x in itertools.product(CAT, repeat=2):
            if opn in ('**', '<<') and any(isinstance(t, int) and abs(t) > 10 ** 6 for t in (v, x)):
                continue      # astronomically large results: not a property of Quantity
            for shape in ('Qx', 'xQ', 'QQ') + (() if opn in ('<', '<=', '==', '!=', '>=', '>') else ('QQd', 'QQn', 'nQQ')):
                cases += 1
                r = check_pair(opn, v, x, shape)
                if r and len(failures) < 12:
                    failures.append({'id': 'C20/%s/%s/%s/%s' % (opn, shape, _enc(v), _enc(x)), 'what': r,
                                     'input': {'kind': 'pair', 'op': opn, 'v': _enc(v), 'x': _enc(x), 'shape': shape}})
            if opn in ('<', '<=', '==', '!=', '>=', '>'):
                cases += 1
                r = check_units(opn, v, x)
                if r and len(failures) < 12:
                    failures.append({'id': 'C20/units/%s' % opn, 'what': r, 'input': {'kind': 'units', 'op': opn, 'v': _enc(v), 'x': _enc(x)}})
    for un in UNARY:
        for v in CAT:
            cases += 1
            r = check_unary(un, v)
            if r and len(failures) < 12:
                failures.append({'id': 'C20/%s/%s' % (un, _enc(v)), 'what': r, 'input': {'kind': 'unary', 'op': un, 'v': _enc(v)}})
    for v, x, m in [(2, 5, 3), (7, -1, 5), (2, 3, 0), (2.0, 3, 5)]:
        from hszinc.datatypes import Quantity
        cases += 1
        if not _same(_out(pow, Quantity(v, 'm'), x, m), _out(pow, v, x, m)):
            failures.append({'id': 'C20/pow3', 'what': 'pow(Q,%r,%r) differs' % (x, m), 'input': {'kind': 'pow3', 'v': _enc(v), 'x': _enc(x), 'm': _enc(m)}})
    return {'cases': cases, 'failures': failures, 'bound': '%d operands (ints, floats, 0, negatives, huge, tiny, inf, nan, bool) x 19 binary operators x 3 shapes; 7 unary' % len(CAT)}


def replay(inp):
    k = inp['kind']
    if k == 'pair':
        r = check_pair(inp['op'], _dec(inp['v']), _dec(inp['x']), inp['shape'])
    elif k == 'units':
        r = check_units(inp['op'], _dec(inp['v']), _dec(inp['x']))
    elif k == 'unary':
        r = check_unary(inp['op'], _dec(inp['v']))
    else:
        from hszinc.datatypes import Quantity
        v, x, m = _dec(inp['v']), _dec(inp['x']), _dec(inp['m'])
        r = None if _same(_out(pow, Quantity(v, 'm'), x, m), _out(pow, v, x, m)) else 'pow3 differs'
    return {'reproduced': bool(r), 'detail': r or ''}
