"""C10 bounded stand-in / replay: real Grid, writers and readers over value kinds x declared versions x entry paths."""
import itertools
import warnings

from spec import version_order as VO

VERSIONS = [None, '2.0', '3.0', '2.5', '3.0.0', '1.0', '4.0', '2.0.0', '2', '2.0a']


def kinds():
    import datetime
    import hszinc
    from hszinc import Grid, XStr, NA, MARKER, REMOVE, Ref, Bin, Uri, Coordinate, Quantity
    inner = Grid(version='3.0')
    inner.column['x'] = {}
    import collections

    class ListSub(list):
        pass

    class GridSub(Grid):
        pass
    inner2 = GridSub(version='3.0')
    inner2.column['x'] = {}
    od = collections.OrderedDict()
    od['a'] = 1.0
    dd = collections.defaultdict(float)
    dd['a'] = 1.0
    # subclasses of the 3.0-only kinds are values of those kinds (isinstance): the gate must see them too
    three = {'na': NA, 'list': [1.0], 'dict': {'a': 1.0}, 'grid': inner, 'xstr': XStr('hex', '00'),
             'dict(OrderedDict)': od, 'dict(defaultdict)': dd, 'list(subclass)': ListSub([1.0]), 'grid(subclass)': inner2}
    two = {'none': None, 'marker': MARKER, 'remove': REMOVE, 'bool': True, 'ref': Ref('a'), 'bin': Bin('text/plain'), 'uri': Uri('u'),
           'str': 's', 'date': datetime.date(2020, 1, 2), 'time': datetime.time(1, 2, 3), 'coord': Coordinate(1.0, 2.0),
           'qty': Quantity(1.0, 'kW'), 'float': 1.5, 'int': 2}
    return three, two


def pre3(v):
    """the statement's reading of 'pre-3.0': the declared version compares below 3.0"""
    return VO.py_cmp(VO.py_parse(v), ((3, 0), None)) < 0


def _try(f):
    try:
        with warnings.catch_warnings():
            warnings.simplefilter('ignore')
            f()
        return 'ok'
    except ValueError:
        return 'ValueError'
    except Exception as e:
        return 'ERR:%r' % (e,)


def grid_decision(ver, val, path):
    """-> ('ok', resulting version str) | 'ValueError' | 'ERR..' for storing val through `path` into a grid declared `ver`"""
    from hszinc import Grid
    from hszinc.metadata import MetadataObject
    box = {}

    def go():
        if path == 'ctor_meta':
            g = Grid(version=ver, metadata={'m': val})
        elif path == 'ctor_colmeta':
            g = Grid(version=ver, columns=[('c', {'m': val})])
        elif path in ('ctor_meta_of_another_grid', 'ctor_columns_of_another_grid', 'ctor_column_items_of_another_grid'):
            # a header copied from a grid of another (here: detected) version: its values were validated against THAT grid only
            src = Grid(columns=[('c', {'m': val})], metadata={'m': val})
            if path == 'ctor_meta_of_another_grid':
                g = Grid(version=ver, metadata=src.metadata)
            elif path == 'ctor_columns_of_another_grid':
                g = Grid(version=ver, columns=src.column)
            else:
                g = Grid(version=ver, columns=list(src.column.items()))
        else:
            g = Grid(version=ver, columns=[('c', {})])
            if path == 'meta_store':
                g.metadata['m'] = val
            elif path == 'meta_overwrite':
                g.metadata['m'] = 1.0
                g.metadata['m'] = val
            elif path == 'meta_append':
                g.metadata.append('m', val)
            elif path == 'meta_add_item':
                g.metadata['z'] = 1.0
                g.metadata.add_item('m', val, pos_key='z')
            elif path == 'colmeta_store':
                g.column['c']['m'] = val
            elif path == 'colmeta_extend':
                g.column['c'].extend([('m', val)])
            elif path == 'append':
                g.append({'c': val})
            elif path == 'insert':
                g.insert(0, {'c': val})
            elif path == 'extend':
                g.extend([{'c': 1.0}, {'c': val}])
            elif path == 'iadd':
                g += [{'c': val}]
            elif path == 'setitem':
                g.append({'c': 1.0})
                g[0] = {'c': val}
        box['g'] = g
    r = _try(go)
    if r == 'ok':
        return ('ok', str(box['g'].version))
    return r


PATHS = ['ctor_meta', 'ctor_colmeta', 'ctor_meta_of_another_grid', 'ctor_columns_of_another_grid', 'ctor_column_items_of_another_grid', 'meta_store', 'meta_overwrite', 'meta_append', 'meta_add_item', 'colmeta_store', 'colmeta_extend',
         'append', 'insert', 'extend', 'iadd', 'setitem']


def writer_decision(ver, val, mode):
    import hszinc
    return _try(lambda: hszinc.dump_scalar(val, mode=mode, version=ver))


ENC = {'na': ('NA', 'z:'), 'list': ('[1]', [1]), 'dict': ('{a:1}', {'a': 'n:1'}), 'grid': ('<<ver:"3.0"\nx\n>>', {'meta': {'ver': '3.0'}, 'cols': [{'name': 'x'}], 'rows': []}),
       'xstr': ('hex("00")', 'x:hex:00')}


def reader_decision(ver, kind, mode):
    import hszinc
    z, j = ENC[kind.split('(')[0]]       # a subclass instance has the wire form of its kind
    if mode == hszinc.MODE_ZINC:
        return _try(lambda: hszinc.parse_scalar(z, mode=mode, version=ver))
    return _try(lambda: hszinc.parse_scalar(j, mode=mode, version=ver))


def check_version(ver, failures, counter):
    import hszinc
    three, two = kinds()
    for kname, val in three.items():
        decisions = {}
        for path in PATHS:
            counter[0] += 1
            d = grid_decision(ver, val, path)
            if isinstance(d, str) and d.startswith('ERR'):
                failures.append(('C10/grid/%s/%s/%s' % (ver, kname, path), 'storing a %s through %s into Grid(version=%r): %s' % (kname, path, ver, d),
                                 {'kind': 'grid_store', 'version': ver, 'value_kind': kname, 'path': path}))
                continue
            if ver is None:
                if d == 'ValueError' or pre3(d[1]):
                    failures.append(('C10/grid/unversioned/%s/%s' % (kname, path), 'unversioned grid after storing a %s through %s reports %r' % (kname, path, d),
                                     {'kind': 'grid_store', 'version': None, 'value_kind': kname, 'path': path}))
                continue
            decisions['grid:' + path] = 'refuse' if d == 'ValueError' else 'accept'
            if d != 'ValueError' and pre3(d[1]) and pre3(ver):
                pass    # accepted a 3.0-only value under a pre-3.0 label: reported through the agreement check below
        if ver is None:
            continue
        for mode, mn in ((hszinc.MODE_ZINC, 'zinc'), (hszinc.MODE_JSON, 'json')):
            counter[0] += 2
            w = writer_decision(ver, val, mode)
            decisions['writer:' + mn] = 'refuse' if w == 'ValueError' else ('accept' if w == 'ok' else w)
            r = reader_decision(ver, kname, mode)
            decisions['reader:' + mn] = 'refuse' if r == 'ValueError' else ('accept' if r == 'ok' else r)
        want = 'refuse' if pre3(ver) else 'accept'
        between = VO.py_cmp(VO.py_parse(ver), ((2, 0), None)) > 0 and pre3(ver)
        wrong = {k: v for k, v in decisions.items() if v != want}
        if wrong:
            if set(wrong) == {'grid:colmeta_store'} or (between and set(k for k in wrong if k != 'grid:colmeta_store') <= set(k for k in decisions if k.startswith('grid:') or k == 'reader:zinc')):
                pass
            for k, v in sorted(wrong.items()):
                if k == 'grid:colmeta_store':
                    fid = 'C10/column-store-unvalidated/%s/%s' % (ver, kname)
                elif between and (k.startswith('grid:') or k == 'reader:zinc'):
                    fid = 'C10/agreement/between-officials/%s/%s/%s' % (ver, kname, k)
                else:
                    fid = 'C10/decision/%s/%s/%s' % (ver, kname, k)
                failures.append((fid, 'declared version %s, %s value: %s says %s, the statement says %s (all deciders: %r)' % (ver, kname, k, v, want, decisions),
                                 {'kind': 'decision', 'version': ver, 'value_kind': kname, 'decider': k}))
    # 2.0-legal kinds are never refused
    for kname, val in two.items():
        for path in ('meta_store', 'append', 'ctor_colmeta'):
            counter[0] += 1
            d = grid_decision(ver, val, path)
            if d == 'ValueError' or (isinstance(d, str) and d.startswith('ERR')):
                failures.append(('C10/grid-refuses-2.0-kind/%s/%s' % (ver, kname), 'Grid(version=%r) refuses a %s through %s: %s' % (ver, kname, path, d),
                                 {'kind': 'grid_store', 'version': ver, 'value_kind': kname, 'path': path}))
        if ver is not None and kname not in ('bin',):
            for mode in (hszinc.MODE_ZINC, hszinc.MODE_JSON):
                counter[0] += 1
                w = writer_decision(ver, val, mode)
                if w != 'ok':
                    failures.append(('C10/writer-refuses-2.0-kind/%s/%s' % (ver, kname), 'writer %s refuses a %s under %s: %s' % (mode, kname, ver, w),
                                     {'kind': 'writer', 'version': ver, 'value_kind': kname}))


def nested_lower_version(failures, counter):
    """a nested grid declaring a pre-3.0 version inside a 3.0 document (whose grammar admits its cells): both readers must reject 3.0-only cells in it"""
    import hszinc
    cells = {'na': ('NA', 'z:'), 'list': ('[1]', [1]), 'dict': ('{a:1}', {'a': 'n:1'}), 'xstr': ('hex("00")', 'x:hex:00'),
             'grid': ('<<ver:"3.0"\nx\n>>', {'meta': {'ver': '3.0'}, 'cols': [{'name': 'x'}], 'rows': []})}
    for inner in ('2.0', '1.0', '2.0.0'):
        for kind, (z, j) in cells.items():
            counter[0] += 2
            ztext = 'ver:"3.0"\nouter\n<<ver:"%s"\nx\n%s\n>>\n' % (inner, z)
            jdoc = {'meta': {'ver': '3.0'}, 'cols': [{'name': 'outer'}], 'rows': [{'outer': {'meta': {'ver': inner}, 'cols': [{'name': 'x'}], 'rows': [{'x': j}]}}]}
            for mode, src, label in ((hszinc.MODE_ZINC, ztext, 'ZINC'), (hszinc.MODE_JSON, jdoc, 'JSON')):
                box = {}

                def go(mode=mode, src=src, box=box):
                    g = hszinc.parse(src, mode=mode)
                    ng = g[0]['outer']
                    box['v'] = (str(ng.version), [type(r.get('x')).__name__ for r in ng])
                r = _try(go)
                inp = {'kind': 'nested_lower', 'inner': inner, 'cell': kind, 'format': label}
                if r == 'ok' and pre3(box['v'][0]):
                    failures.append({'id': 'C10/nested-lower-version/%s/%s/%s' % (label, inner, kind),
                                     'what': 'the %s reader returned a nested grid labelled %s holding a %s cell' % (label, box['v'][0], kind), 'input': inp})
                elif r not in ('ok', 'ValueError'):
                    failures.append({'id': 'C10/nested-lower-version/%s/%s/%s' % (label, inner, kind), 'what': 'the %s reader raised %s' % (label, r), 'input': inp})


def bounded(tier, seed):
    failures, counter = [], [0]
    nl = []
    nested_lower_version(nl, counter)
    failures += [(f['id'], f['what'], f['input']) for f in nl]
    for ver in VERSIONS:
        check_version(ver, failures, counter)
    out = [{'id': fid, 'what': what, 'input': inp} for fid, what, inp in failures]
    return {'cases': counter[0], 'failures': out[:60], 'bound': '%d declared versions x 5 three-only + 14 other kinds x %d entry paths x 2 writers x 2 readers' % (len(VERSIONS), len(PATHS))}


def replay(inp):
    if inp.get('kind') == 'nested_lower':
        fl, c = [], [0]
        nested_lower_version(fl, c)
        hit = [f['what'] for f in fl if f['input'].get('inner') == inp.get('inner') and f['input'].get('cell') == inp.get('cell')] or [f['what'] for f in fl]
        return {'reproduced': bool(hit), 'detail': hit[:3]}
    failures, counter = [], [0]
    k = inp.get('kind')
    if k == 'column_store':
        from hszinc import Grid, NA
        g = Grid(version='2.0')
        g.column['c'] = {'m': NA}
        return {'reproduced': str(g.version) == '2.0', 'detail': 'NA stored in column metadata of a declared-2.0 grid through grid.column[name] = {...}'}
    ver = inp.get('version')
    vers = [ver] if ver in VERSIONS or ver is None else [ver]
    for v in vers:
        try:
            check_version(v, failures, counter)
        except Exception as e:
            return {'reproduced': None, 'detail': 'replay error %r' % (e,)}
    if k == 'agreement':
        fl = [f for f in failures if '/agreement/' in f[0] or '/decision/' in f[0]]
    else:
        fl = [f for f in failures if 'column-store' not in f[0] and '/agreement/between' not in f[0]]
    return {'reproduced': bool(fl), 'detail': [f[1] for f in fl][:5]}
