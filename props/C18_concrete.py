"""C18 bounded stand-in and witness replay: the real hszinc.version against the plain-Python oracle.
Bound: version strings with <=3 numeric groups over {0,1,2,10} x suffixes {'', 'a', 'b', '-rc'}; all pairs, triples sampled."""
import itertools
import random
import warnings

from spec import version_order as VO


def _laws(strs, triples=True):
    """Check every law of the statement on the given strings. Returns list of failure descriptions."""
    from hszinc.version import Version, OFFICIAL_VERSIONS
    fails = []
    vs = []
    for s in strs:
        ref = VO.py_parse(s)
        try:
            v = Version(s)
        except ValueError:
            if ref is not None:
                fails.append(('ctor', [s], 'Version(%r) raised ValueError' % s))
            continue
        except Exception as e:
            fails.append(('ctor', [s], 'Version(%r) raised %r' % (s, e)))
            continue
        if ref is None:
            fails.append(('ctor', [s], 'Version(%r) accepted a string that does not start with a digit' % s))
            continue
        vs.append((s, v, ref))
    offs = sorted([(str(o), o, VO.py_parse(str(o))) for o in OFFICIAL_VERSIONS], key=lambda t: t[2])
    for (sa, a, ra) in vs:
        # nearest
        with warnings.catch_warnings():
            warnings.simplefilter('ignore')
            try:
                n = Version.nearest(a)
            except Exception as e:
                fails.append(('nearest', [sa], 'nearest(%r) raised %r' % (sa, e)))
                n = None
        if n is not None:
            rn = VO.py_parse(str(n))
            if not any(VO.py_cmp(rn, ro) == 0 for (_, _, ro) in offs):
                fails.append(('nearest', [sa], 'nearest(%r)=%s is not official' % (sa, n)))
            if any(VO.py_cmp(ra, ro) == 0 for (_, _, ro) in offs) and VO.py_cmp(rn, ra) != 0:
                fails.append(('nearest', [sa], 'nearest(%r)=%s but an equal official version exists' % (sa, n)))
        for (sb, b, rb) in vs:
            c = VO.py_cmp(ra, rb)
            for operand, tag in ((b, 'ver'), (sb, 'str')):
                try:
                    got = {'<': a < operand, '<=': a <= operand, '==': a == operand, '!=': a != operand,
                           '>=': a >= operand, '>': a > operand}
                except Exception as e:
                    fails.append(('ops', [sa, sb], 'comparison %r vs %r (%s) raised %r' % (sa, sb, tag, e)))
                    continue
                want = {'<': c < 0, '<=': c <= 0, '==': c == 0, '!=': c != 0, '>=': c >= 0, '>': c > 0}
                if got != want:
                    fails.append(('ops', [sa, sb], '%r vs %r (%s): got %r want %r' % (sa, sb, tag, got, want)))
            if c == 0 and hash(a) != hash(b):
                fails.append(('hash', [sa, sb], '%r == %r but hashes differ' % (sa, sb)))
            if n is not None and c <= 0:
                with warnings.catch_warnings():
                    warnings.simplefilter('ignore')
                    try:
                        nb = Version.nearest(b)
                    except Exception:
                        nb = None
                if nb is not None and VO.py_cmp(VO.py_parse(str(n)), VO.py_parse(str(nb))) > 0:
                    fails.append(('nearest', [sa, sb], 'nearest not monotone: %r<=%r but %s > %s' % (sa, sb, n, nb)))
    if triples:
        for (sa, a, _), (sb, b, _), (sc, c, _) in itertools.permutations(vs, 3):
            if a < b and b < c and not a < c:
                fails.append(('trans', [sa, sb, sc], 'not transitive on %r %r %r' % (sa, sb, sc)))
    # operands must not be modified by comparing them
    for (s, v, ref) in vs:
        if VO.py_parse(str(v)) is None or VO.py_cmp(VO.py_parse(str(v)), ref) != 0 or (ref[1] or None) != (VO.py_parse(str(v))[1]):
            fails.append(('frame', [s], 'Version(%r) prints as %r after use' % (s, str(v))))
        if len(VO.py_parse(str(v))[0]) != len(ref[0]) and not s.endswith('.'):
            fails.append(('frame', [s], 'Version(%r) changed its groups: prints as %r after being compared' % (s, str(v))))
    return fails


def _catalogue(tier, seed):
    nums = ['0', '1', '2', '10'] if tier == 'quick' else ['0', '1', '2', '3', '10', '007']
    sufs = ['', 'a', 'b'] if tier == 'quick' else ['', 'a', 'b', '-rc', 'A', ' x']
    out = []
    for k in (1, 2, 3):
        for g in itertools.product(nums, repeat=k):
            if k == 3 and tier == 'quick' and g[0] not in ('2', '3'):
                continue
            for s in sufs:
                out.append('.'.join(g) + s)
    out += ['2', '2.0', '2.0.0', '2.0a', '2.0b', '2.0.1', '10.0', '3', '3.0', '3.0.0', '2.5', '4.0', '1.0', '2.', '2..0', '3.0.0.0']
    return sorted(set(out))


PROBES = ['2', '2.0', '2.0.0', '2.0a', '2.0.0a', '2.0b', '2.0.1', '1.9', '1.9z', '3', '3.0', '3.0a', '3.0.0', '3.0.0b', '2.5', '2.5a', '10.0', '0', '0a', '3.1', '2.9.9']

_NEAREST_CODE = r'''
import sys, json, warnings
sys.path.insert(0, sys.argv[1])
warnings.simplefilter('ignore')
from hszinc.version import Version
out = []
for s in json.loads(sys.argv[2]):
    try:
        out.append(str(Version.nearest(Version(s))))
    except Exception as e:
        out.append('ERR ' + type(e).__name__)
print('RES ' + json.dumps(out))
'''


def _nearest_run(strs):
    import json
    import os
    import subprocess
    import sys
    repo = os.environ.get('HV_REPO', '/repo')
    p = subprocess.run([sys.executable, '-c', _NEAREST_CODE, repo, json.dumps(strs)], capture_output=True, text=True, timeout=60)
    for line in p.stdout.splitlines():
        if line.startswith('RES '):
            return json.loads(line[4:])
    raise RuntimeError('nearest run failed: %s' % p.stderr[-300:])


def nearest_history(seed):
    """nearest() is a function of its argument: each probe asked first in a fresh process against the same probe asked after the others"""
    from concurrent.futures import ThreadPoolExecutor
    with ThreadPoolExecutor(8) as ex:
        alone = list(ex.map(lambda s: _nearest_run([s])[0], PROBES))
    rnd = random.Random(seed)
    orders = [list(PROBES), list(reversed(PROBES))]
    o = list(PROBES)
    rnd.shuffle(o)
    orders.append(o)
    bad = []
    for order in orders:
        got = _nearest_run(order + order)
        for pos, s in enumerate(order + order):
            want = alone[PROBES.index(s)]
            if got[pos] != want:
                bad.append('nearest(%r) is %s when asked first but %s after asking about %r' % (s, want, got[pos], (order + order)[:pos][-4:]))
    return bad, len(PROBES) * 7


def bounded(tier, seed):
    hist, ncases = nearest_history(seed)
    failures0 = [{'id': 'C18/nearest-history/%d' % i, 'what': m, 'input': {'kind': 'nearest_history', 'seed': seed}} for i, m in enumerate(hist[:3])]
    cat = _catalogue(tier, seed)
    rnd = random.Random(seed)
    failures = []
    cases = 0
    # the chain of the statement
    chain = ['2', '2.0', '2.0.0', '2.0a', '2.0b', '2.0.1', '10.0']
    failures += _laws(chain)
    cases += len(chain) ** 2
    # suffixes that hold digits: compared as text, whatever they look like (a 'natural' order of release numbers mixed with text order is not transitive)
    digits = ['3.0', '3.0rc', '3.0rc1', '3.0rc01', '3.0rc9', '3.0rc10', '3.0rc10a', '3.0rc5b', '3.0rc1x', '3.0-1', '3.0-10', '3.0-9', '3.0.0rc9', '3.0 2', '3.0~rc1', '3.0~', '3.0+1', '3.0a~', '3.0.0~rc1', '3.0_x']
    failures += _laws(digits)
    cases += len(digits) ** 3
    # pairs exhaustively in blocks, triples inside each block
    blocks = [cat[i:i + 12] for i in range(0, len(cat), 12)]
    for blk in blocks:
        failures += _laws(blk, triples=True)
        cases += len(blk) ** 3
    for _ in range(40 if tier == 'quick' else 400):
        blk = rnd.sample(cat, 6)
        failures += _laws(blk, triples=True)
        cases += 6 ** 3
    seen = set()
    out = []
    for kind, strs, msg in failures:
        key = (kind, tuple(strs))
        if key in seen:
            continue
        seen.add(key)
        out.append({'id': 'C18/%s/%s' % (kind, '|'.join(strs)), 'what': msg, 'input': {'kind': 'versions', 'versions': strs}})
    cases += ncases
    out = failures0 + out
    return {'cases': cases, 'failures': out[:20], 'bound': 'nearest() asked first in a fresh process vs after other lookups (21 probes, three orders, twice); strings with <=3 numeric groups x small suffix set; all pairs per block, triples per block'}


def replay(inp):
    if inp.get('kind') == 'nearest_history':
        bad, _ = nearest_history(inp.get('seed', 0))
        return {'reproduced': bool(bad), 'detail': bad[:3]}
    fails = _laws(inp['versions'], triples=True)
    return {'reproduced': bool(fails), 'detail': [f[2] for f in fails][:10]}
