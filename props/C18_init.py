"""C18: Version.__init__ on the real VERSION_RE - discharges the constructor contract the other C18 tasks use
(contracts/version.py::version_ctor): a valid string gives a non-empty tuple of naturals and an `extra` that is absent or starts
with a non-digit; anything else raises ValueError.  Shape-bounded: 1..4 numeric components (the split loop is uniform)."""
import z3

from hv.vc.world import World
from hv.vc.values import SObj, PyExc, OutOfSubset
from hv.vc.shapes import Shape, Lit, Field, Misaligned, SplitAmbiguous
from hv.lang import automata as A, sre2nfa as S
from hv.frontend import extract
from props import jsonread as JR

MOD = 'hszinc.version'


def run(T, tier):
    m = extract.module(MOD)
    pat, fl = m.regex('VERSION_RE')
    for k in (1, 2, 3, 4):
        for has_extra in (False, True):
            w, plug = JR.world()
            w.under_verification = MOD + '.Version.__init__'
            case = 'init/components=%d/extra=%d' % (k, has_extra)

            def run1(it, k=k, has_extra=has_extra):
                parts = [Field('n0', S.body(r'\d+'), 'digits', 'n0')]
                fields = [parts[0]]
                for i in range(1, k):
                    # a later component may be empty ("2..1", "2."): int(p or 0) is then 0
                    if it.ctx.branch(it.ctx.fresh('component%d_empty' % i, z3.BoolSort())):
                        parts += [Lit('.')]
                        fields.append(None)
                    else:
                        f = Field('n%d' % i, S.body(r'\d+'), 'digits', 'n%d' % i)
                        parts += [Lit('.'), f]
                        fields.append(f)
                ex = None
                if has_extra:
                    ex = Field('extra', S.body(r'[^\d.\n][^\n]*'), 'text', 'extra')
                    parts.append(ex)
                s = Shape(parts)
                cls = w.class_ref(m, 'Version')
                obj = SObj(cls, {})
                c, meth = cls.find_method('__init__')
                it.ctx.witness_fn = lambda model: {'kind': 'version_init', 'components': k, 'extra': has_extra}
                try:
                    it.call_closure(w.method_closure(c, meth), [obj, s], {})
                except (Misaligned, SplitAmbiguous, JR.ConversionFails) as e:
                    o = it.ctx.oblige('Version.__init__/ensures.groups_fall_on_the_components', z3.BoolVal(False))
                    o.reason = str(e)[:300]
                    return
                nums = obj.fields.get('version_nums')
                ok = isinstance(nums, tuple) and len(nums) == k
                it.ctx.oblige('Version.__init__/ensures.one_number_per_component(non-empty_tuple)', z3.BoolVal(bool(ok)))
                if ok:
                    good = True
                    for f, n in zip(fields, nums):
                        # int(p or 0): the number the digits spell (a natural, A-bi-int), or 0 for an empty component
                        if f is None:
                            good = good and isinstance(n, int) and n == 0
                        else:
                            good = good and isinstance(n, JR.Conv) and n.what == 'int' and isinstance(n.args[0], Shape) and len(n.args[0].parts) == 1 and n.args[0].parts[0] is f
                    it.ctx.oblige('Version.__init__/ensures.each_number_is_the_natural_its_digits_spell_or_0_when_empty', z3.BoolVal(bool(good)))
                xe = obj.fields.get('version_extra')
                if has_extra:
                    # which part of the trailing text the (repeated) group 2 captures depends on match priorities the engine does
                    # not model; what the order needs is only that there IS an extra (group 2 takes part in every match of such a
                    # string) - decided on the marked match language
                    marked = S.match_language(pat, fl, marks=(2,))
                    without = A.erase_marks(_no_mark(marked, '<2'), None)
                    wit = A.intersect_witness(s.base(), without)
                    o = it.ctx.oblige('Version.__init__/ensures.extra_is_present_whenever_text_follows_the_numbers', z3.BoolVal(wit is None and xe is not None))
                    o.reason = '' if wit is None else 'matches %r without group 2' % wit
                else:
                    o = it.ctx.oblige('Version.__init__/ensures.no_extra', z3.BoolVal(xe is None))
                    o.reason = 'extra = %r' % (xe,)
            T.explore(w, run1, case)
    # invalid strings: everything VERSION_RE.match rejects raises ValueError (and nothing else)
    w, plug = JR.world()
    w.under_verification = MOD + '.Version.__init__'
    from hv.vc.shapes import _intersect_complement
    bad = _intersect_complement(A.sigma_star(), S.match_language(pat, fl))

    def run2(it):
        s = Shape([Field('bad', bad, 'text', 'bad')])
        cls = w.class_ref(m, 'Version')
        obj = SObj(cls, {})
        c, meth = cls.find_method('__init__')
        it.ctx.witness_fn = lambda model: {'kind': 'version_init', 'invalid': True}
        it.call_closure(w.method_closure(c, meth), [obj, s], {})
        it.ctx.oblige('Version.__init__/raises.ValueError_for_every_string_the_pattern_rejects', z3.BoolVal(False), kind='raises')

    def on_raise(it, e):
        it.ctx.oblige('Version.__init__/raises.only_ValueError(%s)' % e.cls, z3.BoolVal(e.cls == 'ValueError'), kind='raises')
    T.explore(w, run2, 'init/invalid', allow_raise=on_raise)
    e, wit = A.is_empty(bad)
    T.cover('init/cover.rejected_strings_exist', [z3.BoolVal(not e)])
    # clone constructor
    w, plug = JR.world()

    def run3(it):
        cls = w.class_ref(m, 'Version')
        src = SObj(cls, {'version_nums': (2, 0), 'version_extra': None})
        obj = SObj(cls, {})
        c, meth = cls.find_method('__init__')
        it.call_closure(w.method_closure(c, meth), [obj, src], {})
        it.ctx.oblige('Version.__init__/ensures.clone_copies_both_fields', z3.BoolVal(obj.fields.get('version_nums') == (2, 0) and obj.fields.get('version_extra') is None))
    T.explore(w, run3, 'init/clone')


def _no_mark(nfa, mark):
    """the runs of a marked automaton that never take `mark`"""
    out = A.NFA()
    out.n, out.start, out.finals = nfa.n, nfa.start, set(nfa.finals)
    for a, l, b in nfa.trans:
        if l != mark:
            out.add(a, l, b)
    return out
