def run(T, tier):
    pass
