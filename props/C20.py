"""C20 - a Quantity is numerically transparent (hszinc/datatypes.py: class Qty)."""
import z3

from hv.vc import smt
from hv.vc.kit import Task
from hv.vc.world import World
from hv.vc.values import SObj, SKey, SVal, SInt, SBool, PyExc, OutOfSubset
from hv.frontend import extract
from contracts import opaque as OP

HAS_CONCRETE = True
CONCRETE_TIMEOUT = {'quick': 300, 'thorough': 1200}
MOD = 'hszinc.datatypes'
TRUSTED_BASE = ['A-py', 'A-disp (binary operator dispatch: left operand first, reflected method on NotImplemented; builtin numbers return '
                'NotImplemented for a Quantity operand)', 'A-bi-pow (pow(x,y,None) is x**y)',
                'A-num-mirror (for numbers x<y is y>x, x<=y is y>=x, ==/!= symmetric): used only for number-on-the-left comparisons',
                'operators on the wrapped value are uninterpreted functions of the operands (value or exception): no arithmetic is modelled']
ASSUMPTIONS = ['pint mode (MODE_PINT) is out of scope', 'three-argument pow with the Quantity as second operand has no reflected form in CPython']
EXPLANATION = ('Every operator / unary / conversion method of Qty (enumerated from the class AST) is executed on an opaque value and an opaque or '
               'Quantity operand; the result (or the exception) is proved to be the uninterpreted CPython operator applied to the wrapped value(s).')

BIN = {'add': 'Add', 'sub': 'Sub', 'mul': 'Mult', 'truediv': 'Div', 'div': 'Div', 'floordiv': 'FloorDiv', 'mod': 'Mod',
       'lshift': 'LShift', 'rshift': 'RShift', 'and': 'BitAnd', 'xor': 'BitXor', 'or': 'BitOr', 'divmod': 'divmod', 'pow': 'Pow'}
UN = {'__neg__': 'USub', '__pos__': 'UAdd', '__invert__': 'Invert', '__abs__': 'abs', '__int__': 'int', '__float__': 'float',
      '__complex__': 'complex', '__index__': 'method__index__', '__oct__': 'oct', '__hex__': 'hex'}
CMP = {'__lt__': 'Lt', '__le__': 'LtE', '__eq__': 'Eq', '__ne__': 'NotEq', '__ge__': 'GtE', '__gt__': 'Gt'}
MIRROR = {'Lt': 'Gt', 'LtE': 'GtE', 'Gt': 'Lt', 'GtE': 'LtE', 'Eq': 'Eq', 'NotEq': 'NotEq'}
NOT_UNDER_CONTRACT = {'__init__', '__repr__', '__str__', '__hash__', '__cmp__', '_cmp_op'}


def qty_methods():
    m = extract.module(MOD)
    return sorted(m.classes['Qty'].methods)


def task_names(tier):
    return ['methods', 'unary', 'compare', 'dispatch', 'inventory']


def run_task(name, tier):
    T = Task(name)
    globals()['t_' + name](T, tier)
    return T.result()


def _world():
    w = World()
    OP.install(w)
    w.global_overrides[(MOD, 'PINT_AVAILABLE')] = False
    w.global_overrides[(MOD, 'MODE_PINT')] = False

    def isinst(it, v, cls):
        from hv.vc.values import ClassRef
        if isinstance(v, SVal) and isinstance(cls, ClassRef) and cls.name in ('Qty', 'BasicQuantity', 'Quantity'):
            return False      # case assumption: the opaque operand is not a Quantity
        return NotImplemented
    w.hooks['isinstance'] = isinst
    return w


def mk_qty(it, w, name):
    cls = w.class_ref(extract.module(MOD), 'BasicQuantity')
    v = it.ctx.fresh(name + '_value', smt.VAL)
    u = it.ctx.fresh(name + '_unit', smt.KEY)
    return SObj(cls, {'value': SVal(v), 'unit': SKey(u)}), v, u


def _expect(it, name, ts, got, label):
    """got: value returned on a non-raising path"""
    f, r = OP.expected(name, ts)
    ok = isinstance(got, SVal)
    it.ctx.oblige('%s/ensures.result_is_operator_on_value' % label, z3.And(z3.Not(r), got.term == f) if ok else z3.BoolVal(False))


def _expect_raise(it, e, name, ts, label):
    f, r = OP.expected(name, ts)
    same = (e.cls == 'OpaqueExc' and e.args_[0] == name and len(e.args_) - 1 == len(ts))
    cond = z3.And(r, *[a == b for a, b in zip(e.args_[1:], ts)]) if same else z3.BoolVal(False)
    it.ctx.oblige('%s/raises.same_exception_as_operator_on_value' % label, cond, kind='raises')


def _frame(it, q, v, u, label):
    it.ctx.oblige('%s/frame.quantity_unchanged' % label, z3.And(z3.BoolVal(isinstance(q.fields['value'], SVal) and isinstance(q.fields['unit'], SKey)),
                                                               q.fields['value'].term == v, q.fields['unit'].term == u))


def t_methods(T, tier):
    """binary dunder methods called directly: __X__(other) and __rX__(other), other plain or Quantity"""
    have = qty_methods()
    for base, opname in sorted(BIN.items()):
        for refl in (False, True):
            meth = '__%s%s__' % ('r' if refl else '', base)
            if meth not in have:
                continue
            for other_kind in ('plain', 'qty'):
                w = _world()

                def run(it, meth=meth, opname=opname, refl=refl, other_kind=other_kind):
                    q, v, u = mk_qty(it, w, 'q')
                    if other_kind == 'plain':
                        o = it.ctx.fresh('other', smt.VAL)
                        other, ot = SVal(o), o
                    else:
                        other, ot, _ = mk_qty(it, w, 'o')
                    ts = [ot, v] if refl else [v, ot]
                    it.exp = (opname, ts, (q, v, u))
                    r = it.call_method(q, meth, [other])
                    _expect(it, opname, ts, r, meth)
                    _frame(it, q, v, u, meth)

                def on_raise(it, e, meth=meth):
                    opname, ts, (q, v, u) = it.exp
                    _expect_raise(it, e, opname, ts, meth)
                    _frame(it, q, v, u, meth)
                T.explore(w, run, '%s/other=%s' % (meth, other_kind), allow_raise=on_raise)
    # pow with modulo
    w = _world()

    def runp(it):
        q, v, u = mk_qty(it, w, 'q')
        o, md = it.ctx.fresh('other', smt.VAL), it.ctx.fresh('modulo', smt.VAL)
        it.ctx.assume(md != OP.NONE)
        it.exp = ('pow3', [v, o, md], (q, v, u))
        r = it.call_method(q, '__pow__', [SVal(o), SVal(md)])
        _expect(it, 'pow3', [v, o, md], r, '__pow__(modulo)')

    def on_raisep(it, e):
        opname, ts, _ = it.exp
        _expect_raise(it, e, opname, ts, '__pow__(modulo)')
    T.explore(w, runp, '__pow__/modulo', allow_raise=on_raisep)


def t_unary(T, tier):
    have = qty_methods()
    for meth, opname in sorted(UN.items()):
        if meth not in have:
            continue
        w = _world()

        def run(it, meth=meth, opname=opname):
            q, v, u = mk_qty(it, w, 'q')
            it.exp = (opname, [v], (q, v, u))
            r = it.call_method(q, meth, [])
            _expect(it, opname, [v], r, meth)
            _frame(it, q, v, u, meth)

        def on_raise(it, e, meth=meth):
            opname, ts, (q, v, u) = it.exp
            _expect_raise(it, e, opname, ts, meth)
        T.explore(w, run, meth, allow_raise=on_raise)


def t_compare(T, tier):
    for meth, opname in sorted(CMP.items()):
        for other_kind in ('plain', 'qty'):
            w = _world()

            def run(it, meth=meth, opname=opname, other_kind=other_kind):
                q, v, u = mk_qty(it, w, 'q')
                if other_kind == 'plain':
                    o = it.ctx.fresh('other', smt.VAL)
                    other, ot, ou = SVal(o), o, None
                else:
                    other, ot, ou = mk_qty(it, w, 'o')
                it.exp = (opname, [v, ot], u, ou)
                r = it.call_method(q, meth, [other])
                f, rz = OP.expected(opname, [v, ot])
                same_unit = z3.BoolVal(True) if ou is None else (u == ou)
                it.ctx.oblige('%s/ensures.compares_values' % meth, z3.And(same_unit, z3.Not(rz), r.term == f) if isinstance(r, SVal) else z3.BoolVal(False))

            def on_raise(it, e, meth=meth):
                opname, ts, u, ou = it.exp
                if e.cls == 'TypeError':
                    it.ctx.oblige('%s/raises.TypeError_iff_units_differ' % meth, z3.BoolVal(False) if ou is None else (u != ou), kind='raises')
                else:
                    _expect_raise(it, e, opname, ts, meth)
                    it.ctx.oblige('%s/raises.units_checked_first' % meth, z3.BoolVal(True) if ou is None else (u == ou), kind='raises')
            T.explore(w, run, '%s/other=%s' % (meth, other_kind), allow_raise=on_raise)


OPERATORS = {'Add': '+', 'Sub': '-', 'Mult': '*', 'Div': '/', 'FloorDiv': '//', 'Mod': '%', 'Pow': '**', 'LShift': '<<', 'RShift': '>>',
             'BitAnd': '&', 'BitOr': '|', 'BitXor': '^'}


def t_dispatch(T, tier):
    """through CPython's operator dispatch (A-disp): Q op x, x op Q, Q1 op Q2; comparisons both ways"""
    for opname in sorted(OPERATORS):
        for shape in ('Qx', 'xQ', 'QQ'):
            w = _world()

            def run(it, opname=opname, shape=shape):
                q, v, u = mk_qty(it, w, 'q')
                if shape == 'QQ':
                    o2, ov, _ = mk_qty(it, w, 'o')
                    a, b, ts = q, o2, [v, ov]
                else:
                    o = it.ctx.fresh('x', smt.VAL)
                    a, b, ts = (q, SVal(o), [v, o]) if shape == 'Qx' else (SVal(o), q, [o, v])
                it.exp = (opname, ts)
                r = w.ops.binop(it, opname, a, b)
                _expect(it, opname, ts, r, 'operator %s' % OPERATORS[opname])

            def on_raise(it, e):
                opname, ts = it.exp
                _expect_raise(it, e, opname, ts, 'operator %s' % OPERATORS[opname])
            T.explore(w, run, '%s/%s' % (opname, shape), allow_raise=on_raise)
    for opname in sorted(set(CMP.values())):
        for shape in ('Qx', 'xQ'):
            w = _world()

            def run(it, opname=opname, shape=shape):
                q, v, u = mk_qty(it, w, 'q')
                o = it.ctx.fresh('x', smt.VAL)
                if shape == 'Qx':
                    it.exp = (opname, [v, o])
                    r = w.ops.compare(it, opname, q, SVal(o))
                else:
                    # x op Q: the number's own method returns NotImplemented (A-disp), CPython evaluates Q mirror-op x;
                    # for numbers that is x op v (A-num-mirror)
                    it.exp = (MIRROR[opname], [v, o])
                    r = w.ops.compare(it, opname, SVal(o), q)
                nm, ts = it.exp
                f, rz = OP.expected(nm, ts)
                it.ctx.oblige('compare %s/%s/ensures.compares_value' % (opname, shape), z3.And(z3.Not(rz), r.term == f) if isinstance(r, SVal) else z3.BoolVal(False))

            def on_raise(it, e):
                nm, ts = it.exp
                _expect_raise(it, e, nm, ts, 'compare')
            T.explore(w, run, 'cmp_%s/%s' % (opname, shape), allow_raise=on_raise)


def t_inventory(T, tier):
    """every method of Qty is either under contract above or listed as outside the statement"""
    from hv.vc.symex import Obligation
    have = qty_methods()
    covered = set(UN) | set(CMP) | NOT_UNDER_CONTRACT
    for b in BIN:
        covered |= {'__%s__' % b, '__r%s__' % b}
    missing = [m for m in have if m not in covered]
    T._add(Obligation('inventory/every_Qty_method_has_a_contract', 'proved' if not missing else 'refuted', 'hv', 0.0, 'inv',
                      reason='methods without a contract: %s' % missing, kind='inventory'))
    w = World()
    w.note_unit(extract.module(MOD), 'Qty', extract.module(MOD).classes['Qty'].node)
    T.world = w
