"""C03 - the ZINC reader accepts the whole surface syntax and decodes it correctly (hszinc/zincparser.py, parser.py)."""
import ast

import z3

from hv.vc import smt
from hv.vc.kit import Task
from hv.vc.world import World
from hv.vc.values import SObj, SVal, Closure, Builtin, AbstractCallable, PyExc, OutOfSubset
from hv.vc.shapes import Shape, Lit, Field, CharField, Lang
from hv.lang import automata as A, sre2nfa
from hv.lang.charset import CS
from hv.peg import marked as M
from hv.frontend import extract
from contracts import hvalues as HV, kinds as KD
from props import zincread as ZR, zincact as ZA, jsonread as JR, C01
from spec import zinc_surface as ZS, zinc_ref as ZREF

HAS_CONCRETE = True
CONCRETE_TIMEOUT = {'quick': 900, 'thorough': 3000}
ZP = 'hszinc.zincparser'
TRUSTED_BASE = C01.TRUSTED_BASE + ['the reference surface grammar spec/zinc_surface.py (DESIGN.md Appendix A) is the meaning of "well-formed"']
ASSUMPTIONS = ['nesting depth of non-empty collections / nested grids at most 2 (quick) / 3 (thorough); widths, lengths and payloads unbounded',
               'time fractions of 1..6 digits (Python cannot represent more; longer fractions are not claimed)',
               'URI escapes other than \\` and \\\\ are accepted but their decoding is not judged (specification text not available offline)',
               'document framing: the three regular-expression scans of parser.parse (CRLF replacement, trailing line ends, split at blank lines) are proved '
               'exact on every reference document under ledger A-re-scan (a scan is (pattern | any character)*); the statement order of parse(), '
               'the single flag and the bytes decoding are checked on the AST; charset decoding itself is A-bi-codec']
EXPLANATION = ('The reference grammar of every token kind, of lists/dicts/nested grids and of whole grids (optional blanks around commas, empty cells, '
               '"_" separators, exponents, INF/-INF/NaN, all escapes, CRLF, trailing separators and blanks, upper/lower-case T and Z, optional zone '
               'names) is a regular language once nesting is unrolled; it is proved to be included in what the extracted grammar accepts - with the '
               'intended alternative winning and exactly the spelling consumed whatever legally follows. The real parse actions are then executed on '
               'reference spellings given as shapes and the decoded value is proved to be the denotation of the spelling.')

KIND2ALT = {'null': 'hs_null', 'marker': 'hs_marker', 'remove': 'hs_remove', 'bool': 'hs_bool', 'number': 'hs_number', 'quantity': 'hs_number', 'str': 'hs_str',
            'uri': 'hs_uri', 'ref': 'hs_ref', 'date': 'hs_date', 'time': 'hs_time', 'datetime': 'hs_dateTime', 'coord': 'hs_coord', 'na': 'hs_na',
            'xstr': 'hs_xstr', 'bin': 'hs_bin'}
FOLLOW = C01.FOLLOW


def depth_of(tier):
    return 2 if tier != 'thorough' else 3


def task_names(tier):
    names = ['engine', 'accept/2.0', 'accept/3.0', 'collections', 'grid/2.0', 'grid/3.0', 'cells/2.0', 'cells/3.0', 'unescape/str', 'unescape/uri', 'framing']
    for ver in ('2.0', '3.0'):
        for sp, _, v3 in spellings():
            if v3 and ver == '2.0':
                continue
            names.append('decode/%s/%s' % (ver, sp))
    return names


def _run_task(name, tier):
    T = Task(name)
    parts = name.split('/')
    globals()['t_' + parts[0]](T, tier, *parts[1:])
    r = T.result()
    r['units'] = r['units'] + getattr(T, 'extra_units', [])
    return r


_RD = {}


def reader(depth):
    if depth not in _RD:
        nfas = [sre2nfa.body(FOLLOW)]
        for v3 in (False, True):
            nfas += [ZS.value(v3, depth), ZS.grid(v3, depth)]
        nfas += [f() for f in HV.LANG.values()] + [HV.tzname_lang()]
        for _, b, _ in spellings():
            sh = b()[0]
            nfas += [p.nfa() for p in sh.parts if isinstance(p, Field)]
        _RD[depth] = ZR.Reader(depth, extra_nfas=nfas)
    return _RD[depth]


def t_framing(T, tier):
    from props import framing as FR
    FR.t_framing(T, tier)


def t_engine(T, tier):
    rd = reader(depth_of(tier))
    for ver3 in (False, True):
        for what, sem in (('scalar', rd.scalar(ver3)), ('grid', rd.grid(ver3))):
            bad = M.check_function(rd.alg, sem)
            ZR.oblige_fact(T, 'engine/%s_%s/semantics_is_a_total_function' % (what, '3.0' if ver3 else '2.0'), not bad,
                           reason='; '.join('%s: %r' % (w, rd.comp.sample(x)) for w, x in bad), kind='vacuity')
    T.extra_units = rd.units()


# ------------------------------------------------------------------ every reference spelling is accepted, by the intended alternative
def t_accept(T, tier, ver):
    ver3 = ver == '3.0'
    rd = reader(depth_of(tier))
    alg, comp = rd.alg, rd.comp
    s = rd.scalar(ver3, tagged=True, depth=0)
    cons = s.cons
    follow = sre2nfa.body(FOLLOW)
    for k, p in ZS.kinds(ver3).items():
        X = comp.lang(A.concat(A.mark('@' + KIND2ALT[k]), *( [A.mark('@quantity' if k == 'quantity' else '@decimal' if p.startswith('(-?') and False else '')] if False else []),
                               ZS.rx(p), A.mark(M.END), follow))
        # marks inside hs_number name the sub-alternative: erase them on the reader side for this comparison
        C = alg.erase(cons, keep=(M.END, '@' + KIND2ALT[k]))
        ZR.oblige_included(T, 'accept/%s/%s/every_reference_spelling_is_consumed_exactly_by_%s_whatever_follows' % (ver, k, KIND2ALT[k]), rd, X, C,
                           witness_kind='zinc_text', extra={'ver3': ver3, 'expect': k})
        # vacuity: the reference language of the kind is not empty
        e, w = A.is_empty(ZS.rx(p))
        ZR.oblige_fact(T, 'accept/%s/%s/cover.reference_language_nonempty' % (ver, k), not e, kind='vacuity')
    T.extra_units = rd.units()


def t_collections(T, tier):
    d = depth_of(tier)
    rd = reader(d)
    alg, comp = rd.alg, rd.comp
    follow = sre2nfa.body(FOLLOW)
    s = rd.scalar(True, tagged=True, depth=d)
    inner = ZS.value(True, d - 1)
    for nm, R in (('hs_list', ZS.collection_list(inner)), ('hs_dict', ZS.collection_dict(inner)),
                  ('hs_inner_grid', A.concat(ZS.rx(r'<< *'), ZS.grid(True, d - 1), ZS.rx(r' *>>')))):
        X = comp.lang(A.concat(A.mark('@' + nm), R, A.mark(M.END), follow))
        C = alg.erase(s.cons, keep=(M.END, '@' + nm))
        ZR.oblige_included(T, 'collections/%s/every_reference_spelling_up_to_depth_%d_is_consumed_exactly_whatever_follows' % (nm, d), rd, X, C,
                           witness_kind='zinc_text', extra={'ver3': True, 'expect': nm})
    T.extra_units = rd.units()


def t_grid(T, tier, ver):
    ver3 = ver == '3.0'
    d = depth_of(tier)
    rd = reader(d)
    alg, comp = rd.alg, rd.comp
    g = rd.to_end(rd.grid(ver3, depth=d))
    acc = alg.strip(g.cons)
    ref = comp.lang(ZS.grid(ver3, d))
    ZR.oblige_included(T, 'grid/%s/every_reference_grid_document_is_accepted(blanks_around_commas,empty_cells,CRLF,trailing_blanks)' % ver, rd, ref, acc,
                       witness_kind='zinc_doc', extra={'ver3': ver3})
    e, w = A.is_empty(ZS.grid(ver3, 1))
    ZR.oblige_fact(T, 'grid/%s/cover.reference_language_nonempty' % ver, not e, kind='vacuity')
    T.extra_units = rd.units()


def t_cells(T, tier, ver):
    """in every reference grid each empty cell is read by the `empty -> null` alternative and each spelled value by the
    scalar alternative (never the other way round: a blank before a comma is not a value)"""
    ver3 = ver == '3.0'
    d = 1
    rd = reader(depth_of(tier))
    alg, comp = rd.alg, rd.comp
    groot = comp.target(rd.roots['hs_grid_3_0' if ver3 else 'hs_grid_2_0'])
    tags = {}
    stack = [groot]
    seen = set()
    while stack:
        x = stack.pop()
        if x.uid in seen or (x.kind == 'forward' and comp.target(x).uid in comp.nest):
            continue
        seen.add(x.uid)
        if x.kind == 'or' and len(x.children) == 2 and x.children[0].kind == 'empty' and x.children[1].kind == 'forward':
            tags[x.uid] = ['@cell_empty', '@cell_value']
        stack += x.children
    ZR.oblige_fact(T, 'cells/%s/cell_alternation_found_in_the_extracted_grammar' % ver, len(tags) >= 1)
    sem = comp.compile_depth(groot, d, tags=tags)
    g = rd.to_end(sem)
    C = alg.erase(g.cons, keep=('@cell_empty', '@cell_value'))
    # where the zero-width mark of an empty cell sits is a convention: blanks after a comma belong to the separator (maximal munch),
    # so an empty cell is never followed by a blank except at the very start of a line
    anym = A.allow_marks(A.sigma_star(), ['@cell_empty', '@cell_value'])
    bad = comp.lang(A.concat(anym, A.cset(~CS.of('\n')), A.mark('@cell_empty'), A.lit(' '), anym))
    full = comp.lang(ZS.grid(ver3, d, cell_marks=('@cell_empty', '@cell_value')))
    notbad = alg.complement_marked(bad, ['@cell_empty', '@cell_value'])
    ref = alg._intersect(full, notbad)
    # the convention loses no document: every reference grid text still has a marked variant
    ZR.oblige_included(T, 'cells/%s/cover.every_reference_grid_text_has_a_canonically_marked_variant' % ver, rd, alg.strip(full), alg.strip(ref), kind='vacuity')
    ZR.oblige_included(T, 'cells/%s/every_cell_of_every_reference_grid_is_read_by_the_intended_alternative' % ver, rd, ref, C,
                       witness_kind='zinc_doc', extra={'ver3': ver3})
    T.extra_units = rd.units()


# ------------------------------------------------------------------ _unescape on every reference escape
def t_unescape(T, tier, which):
    """step lemma over the reference strChar / uriChar alternatives: raw character, each backslash escape, \\uXXXX / \\UXXXX"""
    uri = which == 'uri'
    q = '`' if uri else '"'
    esc = ZREF.URI_ESC if uri else ZREF.STR_ESC
    zm = extract.module(ZP)
    node = zm.functions['_unescape']
    loop = [st for st in node.body if isinstance(st, ast.While)][0]
    import copy
    body = ast.FunctionDef(name='_unescape$loop_body', args=ast.arguments(posonlyargs=[], args=[ast.arg(arg='s'), ast.arg(arg='out'), ast.arg(arg='uri')],
                                                                       kwonlyargs=[], kw_defaults=[], defaults=[]),
                           body=copy.deepcopy(loop.body) + [ast.Return(value=ast.Tuple(elts=[ast.Name(id='s', ctx=ast.Load()), ast.Name(id='out', ctx=ast.Load())], ctx=ast.Load()))],
                           decorator_list=[], lineno=loop.lineno, col_offset=0, end_lineno=loop.end_lineno)

    class Cont(ast.NodeTransformer):
        def visit_Continue(self, n):
            return ast.copy_location(ast.Return(value=ast.Tuple(elts=[ast.Name(id='s', ctx=ast.Load()), ast.Name(id='out', ctx=ast.Load())], ctx=ast.Load())), n)
    body = Cont().visit(body)
    ast.fix_missing_locations(body)
    raw = ~(CS.rng(0, 0x1f) | CS.of('\\', q))
    cases = [('raw', None)]
    for ch, cp in sorted(esc.items()):
        if uri and ch not in '`\\bfnrt':
            continue        # see ASSUMPTIONS
        cases.append(('esc_%s' % ('backslash' if ch == '\\' else 'quote' if ch in '"`' else ch), (ch, cp)))
    cases += [('unicode_u', 'u'), ('unicode_U', 'U')]
    for label, c in cases:
        w = World()
        plug = HV.install(w)
        w.note_unit(zm, '_unescape', node)
        C01._decode_hooks(w, plug)

        def run(it, label=label, c=c):
            rest = Field('rest', A.sigma_star(), 'text', 'rest')
            out0 = Field('out', A.sigma_star(), 'text', 'out')
            if c is None:
                t = it.ctx.fresh('cp', z3.IntSort())
                it.ctx.assume(z3.Or(*[z3.And(t >= lo, t <= hi) for lo, hi in raw.iv]))
                img = [CharField('c', raw, t)]
                want = ('char', t)
            elif isinstance(c, tuple):
                img = [Lit('\\' + c[0])]
                want = ('cp', c[1])
            else:
                n = it.ctx.fresh('n', z3.IntSort())
                it.ctx.assume(z3.And(n >= 0, n <= 0xFFFF))
                img = [Lit('\\' + c), Field('hex4', sre2nfa.body(r'[0-9a-fA-F]{4}'), 'hex4', n, fixed_len=4)]
                want = ('char', n)
            clo = Closure(body, None, zm, '_unescape$loop_body')
            r = it.call_closure(clo, [Shape(img + [rest]), Shape([out0]), uri], {}, inline=True)
            ok = isinstance(r, tuple) and len(r) == 2 and isinstance(r[0], Shape) and len(r[0].parts) == 1 and r[0].parts[0] is rest
            it.ctx.oblige('_unescape(%s)/%s/step.rest_is_left' % (which, label), z3.BoolVal(bool(ok)))
            o1 = r[1] if ok else None
            good = isinstance(o1, Shape) and len(o1.parts) == 2 and o1.parts[0] is out0
            if good:
                p = o1.parts[1]
                if want[0] == 'cp':
                    good = isinstance(p, Lit) and len(p.text) == 1 and ord(p.text) == want[1]
                else:
                    good = isinstance(p, Field) and str(p.den) == str(want[1])
            o = it.ctx.oblige('_unescape(%s)/%s/step.appends_the_denoted_character' % (which, label), z3.BoolVal(bool(good)))
            if not good:
                o.reason = 'decoded to %r' % (o1,)
        T.explore(w, run, 'unescape/%s/%s' % (which, label))


# ------------------------------------------------------------------ decoding of reference spellings
class ZRefText(Field):
    """the body of a reference string / URI literal: (strChar)* with den = the text it denotes"""

    def __init__(self, which, name):
        pat = ZS.STRCHAR if which == 'str' else r'([^\x00-\x1f\\`]|\\[bfnrt`\\]|\\[uU][0-9a-fA-F]{4})'
        Field.__init__(self, name, sre2nfa.body('(' + pat + ')*'), 'zref_' + which, ('decoded', name))


def F(name, rx, kind=None, den=None):
    return Field(name, sre2nfa.body(rx), kind or name, den if den is not None else name)


def sh(*parts):
    return Shape([Lit(p) if isinstance(p, str) else p for p in parts])


def spellings():
    """(name, builder() -> (shape, expected), v3 only)"""
    Tb = []

    def add(name, fn, v3=False):
        Tb.append((name, fn, v3))
    add('null', lambda: (sh('N'), ('none',)))
    add('marker', lambda: (sh('M'), ('singleton', 'MarkerType')))
    add('remove', lambda: (sh('R'), ('singleton', 'RemoveType')))
    add('na', lambda: (sh('NA'), ('singleton', 'NAType')), v3=True)
    add('true', lambda: (sh('T'), ('bool', True)))
    add('false', lambda: (sh('F'), ('bool', False)))
    for lit, c in (('INF', 'inf'), ('-INF', '-inf'), ('NaN', 'nan')):
        add('number_' + lit.replace('-', 'minus_'), (lambda lit=lit, c=c: (sh(lit), ('special', c))))

    def number(exp):
        def b():
            sign = F('sign', r'-?', 'sign')
            i = F('int', ZS.DIGITS, 'digits_')
            fr = F('frac', ZS.DIGITS, 'digits_')
            parts = [sign, i, '.', fr]
            if exp:
                e = F('e', r'[eE]', 'expchar')
                es = F('esign', r'[+-]?', 'sign')
                ed = F('exp', ZS.DIGITS, 'digits_')
                parts += [e, es, ed]
            s = sh(*parts)
            return s, ('number', s)
        return b
    add('number_decimal', number(False))
    add('number_exponent', number(True))

    def integer():
        sign = F('sign', r'-?', 'sign')
        i = F('int', ZS.DIGITS, 'digits_')
        s = sh(sign, i)
        return s, ('number', s)
    add('number_integer', integer)

    def qty():
        sign = F('sign', r'-?', 'sign')
        i = F('int', ZS.DIGITS, 'digits_')
        fr = F('frac', ZS.DIGITS, 'digits_')
        # a unit that cannot be mistaken for an exponent or a digit separator (the grammar's own maximal munch)
        u = F('unit', r'([a-df-zA-DF-Z%/$]|[\u0080-\U0010ffff])([a-zA-Z%_/$]|[\u0080-\U0010ffff])*', 'unit')
        num = sh(sign, i, '.', fr)
        return sh(sign, i, '.', fr, u), ('qty', num, Shape([u]))
    add('quantity', qty)

    def string():
        f = ZRefText('str', 'text')
        return sh('"', f, '"'), ('str', f)
    add('string', string)

    def uri():
        f = ZRefText('uri', 'text')
        return sh('`', f, '`'), ('uri', f)
    add('uri', uri)

    def ref0():
        n = F('name', ZS.REFNAME, 'refname')
        return sh('@', n), ('ref', Shape([n]), None)
    add('ref', ref0)

    def ref1():
        n = F('name', ZS.REFNAME, 'refname')
        f = ZRefText('str', 'dis')
        return sh('@', n, ' "', f, '"'), ('ref', Shape([n]), f)
    add('ref_with_display', ref1)

    def date():
        d = F('date', ZS.DATE, 'iso_date')
        return sh(d), ('date', d)
    add('date', date)

    def time(frac):
        def b():
            t = F('time', r'[0-9]{2}:[0-9]{2}:[0-9]{2}' + (r'\.[0-9]{1,6}' if frac else ''), 'iso_time')
            return sh(t), ('time', t, frac)
        return b
    add('time', time(False))
    add('time_with_fraction', time(True))

    def dt(zone, lower):
        def b():
            sep = '[Tt]' if lower else 'T'
            off = ZS.OFFSET if lower else r'(Z|[+-][0-9]{2}:[0-9]{2})'
            iso = F('iso', ZS.DATE + sep + ZS.TIME.replace(r'(\.[0-9]+)?', r'(\.[0-9]{1,6})?') + off, 'iso_datetime_any')
            if zone:
                z = F('tz', ZS.TZNAME, 'tzname')
                return sh(iso, ' ', z), ('datetime', iso, z)
            return sh(iso), ('datetime', iso, None)
        return b
    add('datetime_with_zone', dt(True, False))
    add('datetime_without_zone', dt(False, False))
    add('datetime_lower_case_t_and_z', dt(True, True))

    def coord():
        la, lo = F('lat', ZS.COORDDEG, 'numtext_'), F('lng', ZS.COORDDEG, 'numtext_')
        sep = F('sep', ZS.VSEP, 'vsep')
        return sh('C(', la, sep, lo, ')'), ('coord', la, lo)
    add('coord', coord)

    def xstr():
        e = F('enc', r'[A-Z][a-zA-Z0-9_]*', 'xtype')
        from hv.vc.shapes import _intersect_complement
        e.lang = _intersect_complement(e.lang, A.lit('Bin'))
        f = ZRefText('str', 'data')
        return sh(e, '("', f, '")'), ('xstr', e, f)
    add('xstr', xstr, v3=True)

    def bin3():
        f = ZRefText('str', 'mime')
        return sh('Bin("', f, '")'), ('bin', f)
    add('bin_as_xstr', bin3, v3=True)
    return Tb


def decode_world():
    w, plug = JR.world()
    w.global_overrides[('hszinc.datatypes', 'PINT_AVAILABLE')] = False

    def unescape_contract(it, args, kw):
        s = args[0]
        uri = kw.get('uri', args[1] if len(args) > 1 else False)
        if isinstance(s, str) or (isinstance(s, Shape) and s.concrete() is not None):
            f = w.function(ZP, '_unescape')
            return it.call_closure(f, [s if isinstance(s, str) else s.concrete()], {'uri': uri}, inline=True)
        if isinstance(s, Shape) and len(s.parts) == 1 and isinstance(s.parts[0], ZRefText) and s.parts[0].kind == ('zref_uri' if uri else 'zref_str'):
            return Shape([Field('decoded(%s)' % s.parts[0].name, A.sigma_star(), 'text', s.parts[0].den)])
        raise OutOfSubset('_unescape of %r' % (s,))
    w.contracts[ZP + '._unescape'] = unescape_contract
    C = JR.Conv
    w.global_overrides[(ZP, 'datetime')] = World.Namespace('datetime', {'datetime': World.Namespace('datetime.datetime', {
        'strptime': Builtin('strptime', lambda it, a, k: C('strptime', a[0], a[1]))})})
    w.global_overrides[(ZP, 'iso8601')] = World.Namespace('iso8601', {'parse_date': Builtin('iso8601.parse_date', lambda it, a, k: JR.ParsedDT(a[0]))})
    base_ga = w.hooks['val_getattr']

    def ga(it, obj, name):
        if isinstance(obj, C) and obj.what == 'strptime' and name in ('date', 'time'):
            return AbstractCallable(name, lambda it2, a, k: C('strptime.' + name, obj.args[0], obj.args[1]))
        if isinstance(obj, JR.ParsedDT) and name == 'tzinfo':
            return C('tzinfo', obj.text)       # every reference date-time carries an offset (Z or +-hh:mm)
        if isinstance(obj, ZA.CaseVariant) and name == 'upper':
            # A-bi: upper() of the token is upper() of the consumed text (the caseless literals differ only in case)
            return AbstractCallable('upper', lambda it2, a, k: C('upper', obj.orig))
        if isinstance(obj, Shape) and name == 'upper' and any(isinstance(p, Field) and p.kind == 'iso_datetime_any' for p in obj.parts):
            return AbstractCallable('upper', lambda it2, a, k: C('upper', obj))
        return base_ga(it, obj, name)
    w.hooks['val_getattr'] = ga
    # '.' in time_str: decided on the language
    return w, plug


def value_matches(res, exp, te):
    C = JR.Conv
    k = exp[0]
    if k == 'none':
        return res is None
    if k == 'bool':
        return res is exp[1]
    if k == 'singleton':
        return isinstance(res, SObj) and res.cls.name == exp[1]
    if k == 'special':
        return isinstance(res, float) and repr(res) == exp[1]

    def is_float_of(c, shape):
        """float(text of `shape` with the digit separators removed)"""
        if not (isinstance(c, C) and c.what == 'float' and isinstance(c.args[0], Shape)):
            return False
        return cleaned_equals(c.args[0], shape)
    if k == 'number':
        return is_float_of(res, exp[1])
    if k == 'qty':
        return isinstance(res, SObj) and res.cls.name == 'BasicQuantity' and is_float_of(res.fields['value'], exp[1]) and JR.same_shape(res.fields['unit'], exp[2])
    if k == 'str':
        return isinstance(res, Shape) and not isinstance(res, HV.TaggedShape) and len(res.parts) == 1 and res.parts[0].den == exp[1].den
    if k in ('uri', 'bin'):
        return isinstance(res, HV.TaggedShape) and res.pycls == ('Uri' if k == 'uri' else 'Bin') and len(res.parts) == 1 and res.parts[0].den == exp[1].den
    if k == 'ref':
        if not (isinstance(res, SObj) and res.cls.name == 'Ref' and JR.same_shape(res.fields['name'], exp[1])):
            return False
        if exp[2] is None:
            return res.fields['value'] is None and res.fields['has_value'] is False
        v = res.fields['value']
        return res.fields['has_value'] is True and isinstance(v, Shape) and len(v.parts) == 1 and v.parts[0].den == exp[2].den
    if k == 'date':
        return isinstance(res, C) and res.what == 'strptime.date' and JR.same_shape(res.args[0], Shape([exp[1]])) and res.args[1] == '%Y-%m-%d'
    if k == 'time':
        return isinstance(res, C) and res.what == 'strptime.time' and JR.same_shape(res.args[0], Shape([exp[1]])) and res.args[1] == ('%H:%M:%S.%f' if exp[2] else '%H:%M:%S')
    if k == 'datetime':
        def iso_ok(x):
            return isinstance(x, C) and x.what == 'upper' and JR.same_shape(x.args[0], Shape([exp[1]]))
        if exp[2] is None:
            return isinstance(res, JR.ParsedDT) and iso_ok(res.text)
        return isinstance(res, C) and res.what == 'astimezone' and iso_ok(res.args[0]) and res.args[1] == C('tz', Shape([exp[2]]))
    if k == 'coord':
        return isinstance(res, SObj) and res.cls.name == 'Coordinate' and is_float_of(res.fields['latitude'], Shape([exp[1]])) and is_float_of(res.fields['longitude'], Shape([exp[2]]))
    if k == 'xstr':
        d = res.fields.get('data') if isinstance(res, SObj) else None
        return isinstance(res, SObj) and res.cls.name == 'XStr' and JR.same_shape(res.fields['encoding'], Shape([exp[1]])) and isinstance(d, Shape) and len(d.parts) == 1 and d.parts[0].den == exp[2].den
    return False


def cleaned_equals(got, want):
    """got is `want` with every field of digits replaced by its underscore-free image (or itself when the deletion is the
    identity) and the exponent letter in the spelling the reader returns"""
    gp, wp = list(got.parts), list(want.parts)
    # literals may have been merged: compare piecewise through a cursor
    def flat(parts):
        out = []
        for p in parts:
            if isinstance(p, Lit):
                out += list(p.text)
            else:
                out.append(p)
        return out
    g, w_ = flat(gp), flat(wp)
    i = j = 0
    while i < len(g) and j < len(w_):
        a, b = g[i], w_[j]
        if isinstance(a, str) and isinstance(b, str):
            if a != b:
                return False
        elif isinstance(b, Field) and b.kind == 'expchar':
            if a != 'e':
                return False
        elif isinstance(a, Field) and isinstance(b, Field):
            if not (a is b or (a.kind == 'deleted' and a.den[1] is b)):
                return False
        else:
            return False
        i += 1
        j += 1
    return i == len(g) and j == len(w_)


def t_decode(T, tier, ver, sp):
    ver3 = ver == '3.0'
    rd = reader(0)
    w, plug = decode_world()
    root = rd.scalar_or(ver3)
    builder = [b for n, b, _ in spellings() if n == sp][0]
    label = 'parse_scalar(%s)' % sp

    def run(it):
        for ax in KD.axioms():
            it.ctx.assume(ax)
        shape, exp = builder()
        atoms = ZA.atoms_of(shape)
        te = ZA.TokEval(rd, it, w, 0, sre2nfa.body(FOLLOW))
        ok, wsym = te.consumes(root, atoms, 0, len(atoms), 0)
        o = it.ctx.oblige(label + '/ensures.reader_consumes_exactly_the_spelling_whatever_follows', z3.BoolVal(bool(ok)))
        if not ok:
            o.reason = 'on %s' % rd.comp.sample(wsym)[:200]
            o.witness = {'kind': 'zinc_text', 'text': rd.comp.text_of(wsym), 'ver3': ver3}
            return
        try:
            toks = te.eval(root, atoms, 0, len(atoms), 0)
        except ZA.Unaligned as e:
            o = it.ctx.oblige(label + '/ensures.token_boundaries_follow_the_reference_structure', z3.BoolVal(False))
            o.reason = str(e)[:300]
            o.witness = {'kind': 'zinc_spelling', 'spelling': sp, 'ver3': ver3}
            return
        res = toks[0] if len(toks) == 1 else toks
        good = value_matches(res, exp, te)
        o = it.ctx.oblige(label + '/ensures.value_is_the_denotation_of_the_spelling', z3.BoolVal(bool(good)))
        if not good:
            o.reason = 'spelling %r decoded as %r' % (shape, res)
            o.witness = {'kind': 'zinc_spelling', 'spelling': sp, 'ver3': ver3}

    def on_raise(it, e):
        o = it.ctx.oblige('%s/raises.none(%s)' % (label, e.cls), z3.BoolVal(False), kind='raises')
        o.reason = 'raises %s%r' % (e.cls, tuple(str(a)[:60] for a in e.args_))
        o.witness = {'kind': 'zinc_spelling', 'spelling': sp, 'ver3': ver3}
    T.explore(w, run, '%s/ver=%s' % (sp, ver), allow_raise=on_raise)
    T.extra_units = rd.units()



def run_task(name, tier):
    """a grammar construct outside the E3 subset is an undecided obligation of this task (never a crash, never a verdict)"""
    from hv.peg.grammar import OutOfGrammarSubset
    from hv.vc.symex import Obligation
    try:
        return _run_task(name, tier)
    except OutOfGrammarSubset as e:
        o = Obligation('grammar-in-subset', 'unknown', 'relang-peg', 0.0, 'oos', reason='outside the E3 grammar subset: %s' % e, kind='subset')
        return {'task': name, 'obligations': [o.to_json()], 'units': _guarded_units()}


def _guarded_units():
    try:
        from hv.peg import grammar as G
        from hv.frontend import extract
        m = extract.module('hszinc.zincparser')
        import hashlib
        return [{'function': 'hszinc.zincparser (module source)', 'file': 'hszinc/zincparser.py', 'lines': 'all', 'ast_sha': hashlib.sha256(m.src.encode()).hexdigest()[:16]}]
    except Exception:
        return []
