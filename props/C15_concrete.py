from props import gridhist


def bounded(tier, seed):
    return gridhist.bounded(tier, seed, 'index')


def replay(inp):
    return gridhist.replay(inp, 'index')
