"""C18 - versions form a total order consistent with equality and hashing (hszinc/version.py)."""
import itertools

import z3

from hv.vc import smt
from hv.vc.kit import Task
from hv.vc.world import World
from hv.vc.values import SObj, SKey, SInt, SBool, PyExc
from contracts import version as CV
from spec import version_order as VO

HAS_CONCRETE = True
CONCRETE_TIMEOUT = {'quick': 300, 'thorough': 1800}
TRUSTED_BASE = ['A-py (CPython evaluation order, attribute lookup)', 'A-bi-tuple/list (len, indexing, slicing, +)',
                'A-bi-strorder (str < is a strict total order)', 'A-bi-hash (hash of a tuple of ints/str/None is a function of its value)',
                'A-bi-set (membership = equal hash and ==)', 'A-bi-sort (list.sort orders by <)',
                'R-loop (invariant + variant)', 'A-re (E2 model of VERSION_RE, cross-checked against CPython re on every witness)']
ASSUMPTIONS = ['mathematical integers are exact for Python int', 'version strings are abstract keys outside Version.__init__; '
               'Version.__init__ is verified separately on the real regex (task init): shape-bounded to 1..4 numeric components; for a string with '
               'trailing text the obligation is that an extra is present (which part of it the repeated group captures depends on match priorities '
               'the engine does not model, and the order does not depend on it)']
EXPLANATION = ('Version._cmp is verified against the padded-lexicographic order spec with a loop invariant; the six operators, '
               '__hash__ (loop invariant: trailing zeros stripped) and nearest() are verified against the _cmp contract; '
               'order laws are lemmas over the spec.')

CASES = [(False, False), (False, True), (True, False), (True, True)]
OPS = {'__lt__': lambda a, b: VO.LT(a, b), '__le__': lambda a, b: z3.Or(VO.LT(a, b), VO.EQ(a, b)),
       '__eq__': lambda a, b: VO.EQ(a, b), '__ne__': lambda a, b: z3.Not(VO.EQ(a, b)),
       '__ge__': lambda a, b: z3.Or(VO.LT(b, a), VO.EQ(a, b)), '__gt__': lambda a, b: VO.LT(b, a)}


def task_names(tier):
    names = ['cmp', 'cmp_str', 'ops', 'hash', 'nearest', 'lemmas', 'init']
    return names


def _axioms(it):
    for ax in VO.strorder_axioms():
        it.ctx.assume(ax)


def _vstr(model, v, names):
    ln = model.eval(v.ln, model_completion=True).as_long()
    ln = max(1, min(ln, 6))
    nums = [max(0, model.eval(z3.Select(v.arr, i), model_completion=True).as_long()) for i in range(ln)]
    s = '.'.join(str(n) for n in nums)
    if v.extra is not None:
        s += names[str(model.eval(v.extra, model_completion=True))]
    return s


def _witness(vs):
    def fn(model):
        # name the distinct extra values consistently with key_lt in the model
        vals = []
        for v in vs:
            if v.extra is not None:
                t = model.eval(v.extra, model_completion=True)
                if all(str(t) != str(x) for x in vals):
                    vals.append(t)
        import functools
        vals.sort(key=functools.cmp_to_key(lambda x, y: -1 if z3.is_true(model.eval(VO.key_lt(x, y), model_completion=True)) else 1))
        names = {str(t): chr(ord('a') + i) for i, t in enumerate(vals)}
        return {'kind': 'versions', 'versions': [_vstr(model, v, names) for v in vs]}
    return fn


def run_task(name, tier):
    T = Task(name)
    globals()['t_' + name](T, tier)
    return T.result()


# ------------------------------------------------------------------ _cmp body against the order spec
def t_cmp(T, tier):
    for ea, eb in CASES:
        w = World()
        CV.install(w, use_cmp_contract=False)
        w.under_verification = CV.MOD + '.Version._cmp'

        def run(it, ea=ea, eb=eb):
            _axioms(it)
            a, va = CV.sym_version(it, w, 'a', ea)
            b, vb = CV.sym_version(it, w, 'b', eb)
            it.ctx.witness_fn = _witness([va, vb])
            r = it.call_method(a, '_cmp', [b])
            it.ctx.oblige('Version._cmp/ensures.three_way', VO.cmp_post(it.as_term(r), va, vb))
            # frame: operands unchanged (tuples are immutable; fields must still be the same objects)
            it.ctx.oblige('Version._cmp/frame.self_unchanged', z3.And(a.fields['version_nums'].length == va.ln,
                                                                       a.fields['version_nums'].arr == va.arr))
            it.ctx.oblige('Version._cmp/frame.other_unchanged', z3.And(b.fields['version_nums'].length == vb.ln,
                                                                        b.fields['version_nums'].arr == vb.arr))
        T.explore(w, run, 'extra=%d%d' % (ea, eb))


def t_cmp_str(T, tier):
    """strings compare like the versions they spell: _cmp(self, s) is _cmp(self, Version(s)); invalid s -> ValueError only."""
    for ea in (False, True):
        w = World()
        CV.install(w, use_cmp_contract=False)
        w.under_verification = CV.MOD + '.Version._cmp'

        def run(it, ea=ea):
            _axioms(it)
            a, va = CV.sym_version(it, w, 'a', ea)
            s = it.ctx.fresh('s', smt.KEY)
            r = it.call_method(a, '_cmp', [SKey(s)])
            has = it.ctx.branch(CV.v_hasx(s))
            vb = VO.V(CV.v_len(s), CV.v_nums(s), CV.v_extra(s) if has else None)
            it.ctx.oblige('Version._cmp(str)/ensures.as_version', z3.And(CV.v_valid(s), VO.cmp_post(it.as_term(r), va, vb)))

        def on_raise(it, e):
            s = z3.Const('s', smt.KEY)
            it.ctx.oblige('Version._cmp(str)/raises.only_ValueError_iff_invalid', z3.And(z3.BoolVal(e.cls == 'ValueError'), z3.Not(CV.v_valid(s))), kind='raises')
        T.explore(w, run, 'extra=%d' % ea, allow_raise=on_raise)


# ------------------------------------------------------------------ the six operators, against the _cmp contract
def t_ops(T, tier):
    for op, spec in OPS.items():
        for ea, eb in CASES:
            w = World()
            CV.install(w, use_cmp_contract=True)

            def run(it, op=op, spec=spec, ea=ea, eb=eb):
                _axioms(it)
                a, va = CV.sym_version(it, w, 'a', ea)
                b, vb = CV.sym_version(it, w, 'b', eb)
                it.ctx.witness_fn = _witness([va, vb])
                r = it.call_method(a, op, [b])
                rt = it.truth_term(r)
                rt = z3.BoolVal(rt) if isinstance(rt, bool) else rt
                it.ctx.oblige('Version.%s/ensures.iff_spec' % op, rt == spec(va, vb))
                it.ctx.oblige('Version.%s/ensures.returns_bool' % op, z3.BoolVal(isinstance(r, (bool, SBool))))
            T.explore(w, run, '%s/extra=%d%d' % (op, ea, eb))


# ------------------------------------------------------------------ equal versions hash equally
def t_hash(T, tier):
    for ea, eb in [(False, False), (True, True)]:     # EQ needs both or neither suffix (lemma below)
        w = World()
        CV.install(w, use_cmp_contract=True)

        def run(it, ea=ea, eb=eb):
            _axioms(it)
            a, va = CV.sym_version(it, w, 'a', ea)
            b, vb = CV.sym_version(it, w, 'b', eb)
            it.ctx.witness_fn = _witness([va, vb])
            it.ctx.assume(VO.EQ(va, vb))
            ha = it.call_method(a, '__hash__', [])
            hb = it.call_method(b, '__hash__', [])
            if not (isinstance(ha, CV.HashKey) and isinstance(hb, CV.HashKey)):
                from hv.vc.values import OutOfSubset
                raise OutOfSubset('__hash__ does not return hash(<structure>)')
            it.ctx.oblige('Version.__hash__/ensures.eq_implies_equal_hash', CV.hashkeys_equal(it, ha, hb))
        T.explore(w, run, 'extra=%d%d' % (ea, eb))
    # vacuity: EQ with different lengths is satisfiable (the interesting case)
    a = VO.V(z3.Int('la'), z3.Array('aa', z3.IntSort(), z3.IntSort()), None)
    b = VO.V(z3.Int('lb'), z3.Array('ab', z3.IntSort(), z3.IntSort()), None)
    T.cover('cover/EQ_with_different_lengths', [a.wf(), b.wf(), VO.EQ(a, b), a.ln != b.ln])
    bx = VO.V(b.ln, b.arr, z3.Const('bx', smt.KEY))
    T.lemma('spec/EQ_needs_same_suffix_presence', [a.wf(), bx.wf()], z3.Not(z3.Or(VO.EQ(a, bx), VO.EQ(bx, a))))


# ------------------------------------------------------------------ nearest()
def t_nearest(T, tier):
    def officials(it, w):
        from hv.frontend import extract
        offs = w.global_lookup(it, extract.module(CV.MOD), 'OFFICIAL_VERSIONS')
        return sorted(offs, key=lambda o: repr(o.fields['version_nums']))

    for ea in (False, True):
        w = World()
        CV.install(w, use_cmp_contract=True)

        def run(it, ea=ea):
            _axioms(it)
            a, va = CV.sym_version(it, w, 'a', ea)
            it.ctx.witness_fn = _witness([va])
            cls = CV.version_class(w)
            r = it.call(it.getattr(cls, 'nearest'), [a])
            offs = officials(it, w)
            vr = CV.abstract(it, r)
            voffs = [CV.abstract(it, o) for o in offs]
            it.ctx.oblige('Version.nearest/ensures.official', z3.Or(*[VO.EQ(vr, vo) for vo in voffs]))
            it.ctx.oblige('Version.nearest/ensures.equal_if_exists',
                          z3.Implies(z3.Or(*[VO.EQ(va, vo) for vo in voffs]), VO.EQ(vr, va)))
        T.explore(w, run, 'single/extra=%d' % ea)

    for ea, eb in CASES:
        w = World()
        CV.install(w, use_cmp_contract=True)

        def run2(it, ea=ea, eb=eb):
            _axioms(it)
            a, va = CV.sym_version(it, w, 'a', ea)
            b, vb = CV.sym_version(it, w, 'b', eb)
            it.ctx.witness_fn = _witness([va, vb])
            it.ctx.assume(z3.Or(VO.LT(va, vb), VO.EQ(va, vb)))
            cls = CV.version_class(w)
            ra = it.call(it.getattr(cls, 'nearest'), [a])
            rb = it.call(it.getattr(cls, 'nearest'), [b])
            xa, xb = CV.abstract(it, ra), CV.abstract(it, rb)
            it.ctx.oblige('Version.nearest/ensures.monotone', z3.Or(VO.LT(xa, xb), VO.EQ(xa, xb)))
        T.explore(w, run2, 'monotone/extra=%d%d' % (ea, eb))

    # nearest(str) goes through Version(str)
    w = World()
    CV.install(w, use_cmp_contract=True)

    def run3(it):
        _axioms(it)
        s = it.ctx.fresh('s', smt.KEY)
        cls = CV.version_class(w)
        r = it.call(it.getattr(cls, 'nearest'), [SKey(s)])
        offs = officials(it, w)
        vr = CV.abstract(it, r)
        it.ctx.oblige('Version.nearest(str)/ensures.official', z3.Or(*[VO.EQ(vr, CV.abstract(it, o)) for o in offs]))

    def on_raise(it, e):
        s = z3.Const('s', smt.KEY)
        it.ctx.oblige('Version.nearest(str)/raises.only_ValueError_iff_invalid', z3.And(z3.BoolVal(e.cls == 'ValueError'), z3.Not(CV.v_valid(s))), kind='raises')
    T.explore(w, run3, 'str', allow_raise=on_raise)


# ------------------------------------------------------------------ order laws over the spec (no code)
def t_lemmas(T, tier):
    def mk(n, ex):
        return VO.V(z3.Int(n + '_len'), z3.Array(n + '_nums', z3.IntSort(), z3.IntSort()), z3.Const(n + '_extra', smt.KEY) if ex else None)
    ax = VO.strorder_axioms()
    for ea, eb in CASES:
        a, b = mk('a', ea), mk('b', eb)
        h = ax + [a.wf(), b.wf()]
        tag = 'extra=%d%d' % (ea, eb)
        T.lemma('spec/%s/exclusive.LT_EQ' % tag, h, z3.Not(z3.And(VO.LT(a, b), VO.EQ(a, b))))
        T.lemma('spec/%s/asymmetric.LT' % tag, h, z3.Not(z3.And(VO.LT(a, b), VO.LT(b, a))))
        T.lemma('spec/%s/symmetric.EQ' % tag, h, VO.EQ(a, b) == VO.EQ(b, a))
    for ea in (False, True):
        a = mk('a', ea)
        T.lemma('spec/extra=%d/reflexive.EQ' % ea, ax + [a.wf()], VO.EQ(a, a))
        T.lemma('spec/extra=%d/irreflexive.LT' % ea, ax + [a.wf()], z3.Not(VO.LT(a, a)))
        # padding: appending a zero group gives an equal version
        j = z3.Int('j!p')
        a0 = VO.V(a.ln + 1, z3.Store(a.arr, a.ln, 0), a.extra)
        T.lemma('spec/extra=%d/padding.EQ(v,v.0)' % ea, ax + [a.wf()], VO.EQ(a, a0))
    for ea, eb, ec in itertools.product((False, True), repeat=3):
        a, b, c = mk('a', ea), mk('b', eb), mk('c', ec)
        h = ax + [a.wf(), b.wf(), c.wf()]
        tag = 'extra=%d%d%d' % (ea, eb, ec)
        T.lemma('spec/%s/transitive.LT' % tag, h + [VO.LT(a, b), VO.LT(b, c)], VO.LT(a, c))
        T.lemma('spec/%s/congruence.EQ_LT' % tag, h + [VO.EQ(a, b), VO.LT(b, c)], VO.LT(a, c))
        T.lemma('spec/%s/transitive.EQ' % tag, h + [VO.EQ(a, b), VO.EQ(b, c)], VO.EQ(a, c))


# ------------------------------------------------------------------ Version.__init__ on the real regex (E2)
def t_init(T, tier):
    from props import C18_init
    C18_init.run(T, tier)
