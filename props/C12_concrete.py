"""C12 bounded stand-in / replay: canary payloads in every literal / identifier position of the filter grammar, under an audit hook."""
import itertools
import os
import sys

CANARY = '/tmp/hv_c12_canary_%d' % os.getpid()
PAYLOADS = ['open(%r, "w")' % CANARY, '__import__("os").system("touch %s")' % CANARY, 'exec("import os")', 'eval("1")', '__class__', 'globals()', 'print',
            "');import os;('", '"+str(1)+"', "x' + str(__import__('os')) + '", 'a"b', 'a\\', 'a\nb', '__builtins__', 'NOT_FOUND', '_consts', 'lambda: 1']
NAMES = ['open', 'eval', 'exec', '__import__', 'compile', 'print', 'globals', 'exit', 'setattr', 'Ref', 'x',
         # names of importable things (modules, codecs): a kind / unit / zone / tag name must never be looked up anywhere
         'os', 'idna', 'big5', 'rot13', 'zlib', 'bz2_codec', 'uu', 'quopri', 'base64', 'antigravity', 'this', 'Big5', 'cp037', 'punycode']

events = []


def hook(event, args):
    if events is None:
        return
    if event in ('open', 'os.system', 'subprocess.Popen', 'socket.connect', 'import', 'os.remove', 'os.exec', 'os.posix_spawn', 'os.fork'):
        if event == 'open' and args and isinstance(args[0], str) and not args[0].startswith('/tmp/hv_c12'):
            return
        if event == 'import' and not watch_imports[0]:
            return
        events.append((event, repr(args)[:80]))


_installed = [False]
watch_imports = [False]      # off during the warm-up (lazy first-time imports of the library itself), on for the canary runs


def filters():
    """filter texts placing payloads in every literal and identifier position"""
    def esc(s, q):
        return s.replace('\\', '\\\\').replace(q, '\\' + q).replace('\n', '\\n')
    for p in PAYLOADS:
        yield 'a == "%s"' % esc(p, '"')
        yield 'a == `%s`' % esc(p, '`')
        yield 'a == @ref "%s"' % esc(p, '"')
        yield 'a == hex("%s")' % esc(p, '"')
        for n in NAMES:
            yield 'a == %s("%s")' % (n, esc(p, '"'))
        yield 'a == [1, "%s", x("%s")]' % (esc(p, '"'), esc(p, '"'))
        yield 'a == {k:"%s"}' % esc(p, '"')
        yield 'a->b == "%s" and not c' % esc(p, '"')
        yield p            # the payload itself as a filter: must be rejected or harmless
        yield 'a == %s' % p
    # every blank the grammar skips between tokens (space, tab, CR, LF, and the other characters Python's source reader treats as line ends),
    # followed by something that is both a filter literal and a Python statement
    for ws in ('\r', '\n', '\r\n', '\t', '\x0c', '\x0b', '\x1c', '\x85', '\u2028'):
        for call in ('open("%s")' % CANARY, 'exec("import os")', '__import__("os")', 'print("x")'):
            yield 'a ==%s%s' % (ws, call)
            yield 'a%s== %s' % (ws, call)
            yield 'not b and%sa == %s' % (ws, call)
            yield '%sa == %s' % (ws, call)
    for n in NAMES + ['__class__', '_consts', 'NOT_FOUND', 'id']:
        yield n
        yield 'not %s' % n
        yield '%s->%s == 1' % (n, n)
        yield 'a == 1%s' % n
        yield 'a == 2020-01-01T00:00:00Z %s' % n


def run_filter(text):
    import hszinc
    from hszinc import Grid, MARKER
    import hszinc.grid_filter as gf
    g = Grid(columns={'id': {}, 'a': {}})
    g.append({'id': 'r1', 'a': 'x'})
    g.append({'id': 'r2', 'a': MARKER})
    before_rows = [dict(r) for r in g]
    before_globals = set(vars(gf))
    del events[:]
    if os.path.exists(CANARY):
        os.remove(CANARY)
    try:
        g.filter(text)
        outcome = 'ok'
    except Exception as e:
        outcome = type(e).__name__
    fired = list(events)
    if os.path.exists(CANARY):
        fired.append(('canary file created', CANARY))
        os.remove(CANARY)
    new = {k for k in set(vars(gf)) - before_globals if not k.startswith('_gen_hsfilter_')}
    if new:
        fired.append(('new module globals', sorted(new)))
    if [dict(r) for r in g] != before_rows:
        fired.append(('grid mutated', ''))
    if outcome not in ('ok', 'ParseException', 'ValueError', 'Error'):      # rejected filters: parse errors, or a payload invalid for its kind (hex/b64 data)
        fired.append(('evaluation raised', outcome))
    return outcome, fired


def mutation_cases():
    """read-only filters over a grid whose cells hold mutable values (list, dict, XStr bytes, nested grid): method names of those values in every
    path position; the grid must be deep-equal afterwards"""
    import copy
    import hszinc
    from hszinc import Grid, XStr
    names = ['pop', 'clear', 'reverse', 'sort', 'popitem', 'append', 'data', 'update', 'copy', '__class__', 'lower', 'upper', 'value', 'name', 'encoding', 'keys', 'values', 'items']
    out = []
    for nm in names:
        if not nm[0].islower():
            continue
        for flt in ('zones->%s' % nm, 'blob->%s' % nm, 'blob->data->%s' % nm, 'd->%s' % nm, 'd->k->%s' % nm, 'not zones->%s' % nm, 'zones->%s == 1' % nm, 'g2->%s' % nm, 'id->%s' % nm, 'r->%s' % nm):
            out.append(flt)
    bad = []
    for flt in out:
        g = Grid(version='3.0', columns={'id': {}, 'zones': {}, 'blob': {}, 'd': {}, 'g2': {}, 'r': {}})
        inner = Grid(version='3.0', columns={'x': {}})
        inner.append({'x': 1.0})
        g.append({'id': 'r1', 'zones': ['north', 'south', 'east'], 'blob': XStr('hex', 'deadbeef'), 'd': {'k': [3.0, 1.0, 2.0], 'j': 'x'}, 'g2': inner, 'r': hszinc.Ref('r1', 'dis')})

        def snap():
            r = g[0]
            return (list(r['zones']), bytes(r['blob'].data), {k: (list(v) if isinstance(v, list) else v) for k, v in r['d'].items()}, len(r['g2']), [dict(x) for x in r['g2']], str(r['r']), len(g), list(g.column.keys()))
        before = snap()
        try:
            g.filter(flt)
        except Exception:
            pass
        if snap() != before:
            bad.append((flt, 'filter %r changed the grid: %r -> %r' % (flt, before[:4], snap()[:4])))
    return bad, len(out)


def bounded(tier, seed):
    if not _installed[0]:
        sys.addaudithook(hook)
        _installed[0] = True
    failures, cases = [], 0
    mb, mn = mutation_cases()
    cases += mn
    for flt, what in mb[:4]:
        failures.append({'id': 'C12/mutation/' + ''.join(ch if ch.isalnum() else '_' for ch in flt), 'what': what, 'input': {'kind': 'mutation', 'text': flt}})
    # warm-up: one benign filter per literal kind and shape, so that whatever the library imports lazily on first use is loaded
    watch_imports[0] = False
    for text in ('a == "s"', 'a == `u`', 'a == @r "d"', 'a == hex("00")', 'a == b64("AA==")', 'a == x("y")', 'a == [1, "s", x("y")]', 'a == {k:"v"}', 'a->b == 1 and not c or d',
                 'a == 1kW', 'a == 2020-01-01', 'a == 12:00:00', 'a == 2020-01-01T00:00:00Z UTC', 'a == 2020-01-01T00:00:00+01:00 Paris', 'a == C(1.0,2.0)', 'a == Bin(text/plain)',
                 'a == true', 'a == N', 'a == M', 'a == R', 'a == NA', 'a == INF', '((', 'a == hex("zz")', 'a == 2020-01-01T00:00:00Z Nowhere'):
        run_filter(text)
    watch_imports[0] = True
    for text in filters():
        cases += 1
        outcome, fired = run_filter(text)
        if fired and len(failures) < 12:
            failures.append({'id': 'C12/' + ''.join(ch if ch.isalnum() else '_' for ch in text)[:60], 'what': 'filter %r: %r' % (text, fired), 'input': {'kind': 'filter', 'text': text}})
    return {'cases': cases, 'failures': failures, 'bound': '%d payloads x every literal kind and identifier position x %d callable names; audit hook (open/system/spawn/socket/import after a warm-up) + canary file + module globals + grid content' % (len(PAYLOADS), len(NAMES))}


def replay(inp):
    if not _installed[0]:
        sys.addaudithook(hook)
        _installed[0] = True
    if inp.get('kind') == 'mutation':
        mb, _ = mutation_cases()
        hit = [w for f, w in mb if f == inp.get('text')] or [w for f, w in mb]
        return {'reproduced': bool(hit), 'detail': hit[:2]}
    if inp.get('kind') == 'filter_literal':
        # a text the literal grammar accepts although it spells no value: the real parser must reject `a == <text>`
        from hszinc.grid_filter import parse_filter
        text = 'a == ' + inp['text']
        try:
            r = parse_filter(text)
            return {'reproduced': True, 'detail': 'parse_filter(%r) is accepted and read as %s' % (text, r)}
        except Exception as e:
            return {'reproduced': False, 'detail': 'parse_filter(%r) raises %s' % (text, type(e).__name__)}
    if inp.get('kind') == 'filter':
        watch_imports[0] = False
        run_filter('a == x("y") and b == 2020-01-01T00:00:00Z UTC')
        watch_imports[0] = True
        outcome, fired = run_filter(inp['text'])
        return {'reproduced': bool(fired), 'detail': repr(fired)[:300]}
    out = bounded('quick', 0)
    return {'reproduced': bool(out['failures']), 'detail': [f['what'] for f in out['failures'][:3]]}
