"""C03 bounded stand-in / replay: documents produced by an independent grammar-directed writer (value x independently chosen
legal spelling per token) are parsed by the real hszinc.parse and compared with the value that was spelled.
Covers what the deductive part leaves to it: document framing (bytes/charset, several grids, CRLF, missing final newline,
empty input, the single flag).  BOUNDED."""
import datetime
import random

from spec import hval as HV
from props import valuecat as VC

TOL = 5e-7


class Speller(object):
    def __init__(self, rnd, ver3):
        self.r, self.ver3 = rnd, ver3

    def digits(self, s):
        # digits := digit (digit | "_")* : separators may repeat and may end the run, never start it
        out = []
        for i, ch in enumerate(s):
            out.append(ch)
            if self.r.random() < 0.15:
                out.append('_' * self.r.choice([1, 1, 2]))
        return ''.join(out)

    def number(self, x):
        if x != x:
            return 'NaN'
        if x in (float('inf'), float('-inf')):
            return 'INF' if x > 0 else '-INF'
        t = repr(float(x))
        if 'e' in t:
            m, e = t.split('e')
            e = (e[0] if e[0] in '+-' else '') + self.digits(e.lstrip('+-'))
            if e.startswith('+') and self.r.random() < 0.5:
                e = e[1:]
            t = self._mant(m) + self.r.choice('eE') + e
        else:
            t = self._mant(t)
            if self.r.random() < 0.2 and float(x) == int(x) and abs(x) < 1e15:
                t = ('-' if x < 0 else '') + self.digits(str(abs(int(x))))
        return t

    def _mant(self, m):
        neg = m.startswith('-')
        m = m.lstrip('-')
        if '.' in m:
            a, b = m.split('.')
            return ('-' if neg else '') + self.digits(a) + '.' + self.digits(b)
        return ('-' if neg else '') + self.digits(m)

    def string(self, s, q='"'):
        out = []
        table = {'\b': 'b', '\f': 'f', '\n': 'n', '\r': 'r', '\t': 't', '\\': '\\', q: q}
        for ch in s:
            cp = ord(ch)
            if cp <= 0xFFFF and self.r.random() < 0.12:
                # every character - the backslash, the quote and the control characters included - may be spelled \uXXXX
                out.append(('\\u' if self.r.random() < 0.8 else '\\U') + ('%04x' if self.r.random() < 0.5 else '%04X') % cp)
            elif ch in table:
                out.append('\\' + table[ch])
            elif ch == '$' and q == '"' and self.r.random() < 0.5:
                out.append('\\$')
            elif cp < 0x20 or (cp <= 0xFFFF and self.r.random() < 0.1):
                out.append(('\\u' if self.r.random() < 0.8 else '\\U') + ('%04x' if self.r.random() < 0.5 else '%04X') % cp)
            else:
                out.append(ch)
        return q + ''.join(out) + q

    def sep(self):
        return ' ' * self.r.choice([0, 0, 1, 2]) + ',' + ' ' * self.r.choice([0, 0, 1, 2])

    def value(self, v, depth=0):
        import hszinc
        from hszinc import Quantity, Coordinate, Uri, Bin, XStr, Ref, MARKER, NA, REMOVE, Grid
        from hszinc.datatypes import Qty
        r = self.r
        if v is None:
            return 'N'
        if v is MARKER:
            return 'M'
        if v is REMOVE:
            return 'R'
        if v is NA:
            return 'NA'
        if isinstance(v, bool):
            return 'T' if v else 'F'
        if isinstance(v, Ref):
            return '@' + v.name + ((' ' + self.string(v.value)) if v.has_value else '')
        if isinstance(v, Bin):
            return 'Bin(' + self.string(str.__str__(v)) + ')' if self.ver3 else 'Bin(' + str.__str__(v) + ')'
        if isinstance(v, Uri):
            return self.string(str.__str__(v), '`')
        if isinstance(v, XStr):
            return v.encoding + '(' + self.string(v.data_to_string()) + ')'
        if isinstance(v, str):
            return self.string(v)
        if isinstance(v, Qty):
            if v.unit in (None, ''):
                return self.number(v.value)
            return self.number(v.value) + v.unit
        if isinstance(v, (int, float)):
            return self.number(v)
        if isinstance(v, datetime.datetime):
            iso = v.isoformat()
            if iso.endswith('+00:00') and r.random() < 0.5:
                iso = iso[:-6] + r.choice('Zz')
            if r.random() < 0.3:
                iso = iso.replace('T', 't')
            from hszinc.zoneinfo import timezone_name
            return iso + ' ' + timezone_name(v)
        if isinstance(v, datetime.time):
            return v.isoformat() if v.microsecond or r.random() < 0.5 else v.strftime('%H:%M:%S')
        if isinstance(v, datetime.date):
            return v.isoformat()
        if isinstance(v, Coordinate):
            return 'C(' + self.number(round(v.latitude, 6)).replace('e', 'e') + self.sep() + self.number(round(v.longitude, 6)) + ')'
        if isinstance(v, list):
            inner = self.sep().join(self.value(x, depth + 1) for x in v)
            if v and r.random() < 0.3:
                inner += self.sep()
            return '[' + ' ' * r.choice([0, 1]) + inner + ' ' * r.choice([0, 1]) + ']'
        if isinstance(v, Grid):
            return '<<' + ' ' * r.choice([0, 1]) + self.grid(v, nl='\n') + ' ' * r.choice([0, 1]) + '>>'
        if isinstance(v, dict) or hasattr(v, 'items'):
            items = []
            for k, x in v.items():
                items.append(k if x is MARKER else k + ':' + ' ' * r.choice([0, 0, 1]) + self.value(x, depth + 1))
            return '{' + ' ' * r.choice([0, 1]) + (' ' * r.choice([1, 1, 2])).join(items) + ' ' * r.choice([0, 1]) + '}'
        raise TypeError(v)

    def meta(self, md):
        import hszinc
        items = []
        for k, x in md.items():
            items.append(k if x is hszinc.MARKER else k + ':' + self.value(x))
        return ' '.join(items)

    def grid(self, g, nl=None, final=True):
        import hszinc
        nl = nl or self.r.choice(['\n', '\n', '\r\n'])
        lines = []
        head = 'ver:"%s"' % g.version
        if len(g.metadata):
            head += ' ' + self.meta(g.metadata)
        lines.append(head + ' ' * self.r.choice([0, 0, 1]))
        cols = []
        for c in g.column.keys():
            cm = g.column[c]
            cols.append(c + ((' ' + self.meta(cm)) if len(cm) else ''))
        lines.append(self.sep().join(cols))
        ncol = len(cols)
        for row in g:
            cells = []
            for c in g.column.keys():
                v = row.get(c)
                # a null cell may be left empty - except where an empty line or a lone blank would result
                if v is None and ncol > 1 and self.r.random() < 0.5:
                    cells.append('')
                else:
                    cells.append(self.value(v))
            line = self.sep().join(cells)
            if line.strip() == '':
                line = 'N'            # an empty line would end the grid
            lines.append(line + ' ' * self.r.choice([0, 0, 1]))
        text = nl.join(lines)
        return text + (nl if final else '')


def check_doc(grids, rnd, how):
    import hszinc
    texts = []
    for g in grids:
        sp = Speller(rnd, str(g.version) != '2.0')
        texts.append(sp.grid(g, nl=how.get('nl'), final=True))
    nl = how.get('nl') or '\n'
    doc = nl.join(texts)
    if not how.get('final', True):
        doc = doc.rstrip('\r\n')
    doc += nl * how.get('extra_nl', 0)
    data = doc
    kw = {}
    if how.get('bytes'):
        data = doc.encode(how['bytes'], 'surrogatepass')
        kw['charset'] = how['bytes']
    single = how.get('single', False)
    try:
        back = hszinc.parse(data, mode=hszinc.MODE_ZINC, single=single, **kw)
    except Exception as e:
        return 'parse raised %s on %r' % (type(e).__name__, doc[:400]), doc
    if single:
        backs = [back] if back is not None else []
        want = grids[:1]
    else:
        backs, want = back, grids
    if len(backs) != len(want):
        return '%d grids written, %d read (%r)' % (len(want), len(backs), doc[:300]), doc
    for b, g in zip(backs, want):
        if not HV.same(HV.abs_grid(b), HV.abs_grid(g), TOL):
            return 'read %r, spelled %r (text %r)' % (HV.abs_grid(b), HV.abs_grid(g), doc[:400]), doc
    return None, doc


# (text between the quotes, the string it denotes): \\ and \uXXXX spellings next to characters that would form another escape
ESCAPE_CASES = [('C:\\u005cnew', 'C:\\new'), ('\\u005cx', '\\x'), ('\\\\u0041', '\\u0041'), ('\\u005c\\u005c', '\\\\'), ('\\u005cu0041', '\\u0041'), ('\\\\n', '\\n'),
                ('\\\\\\n', '\\\n'), ('a\\u005c', 'a\\'), ('\\u005ct\\t', '\\t\t'), ('\\U005Cb', '\\b'), ('\\u0041\\u005c\\u0042', 'A\\B')]


def usable(g):
    """values whose spelling by the reference speller is exact (floats via repr, coordinates rounded to 6 places)"""
    return True


def bounded(tier, seed):
    import hszinc
    rnd = random.Random(seed)
    failures, cases = [], 0
    pool = [(label, g) for label, g in VC.grids(tier, seed)]
    hows = [{}, {'nl': '\r\n'}, {'final': False}, {'nl': '\r\n', 'final': False}, {'extra_nl': 2}, {'bytes': 'utf-8'}, {'bytes': 'utf-16'}, {'single': True}, {'bytes': 'utf-8', 'nl': '\r\n', 'single': True}]
    reps = 1 if tier != 'thorough' else 6
    for label, g in pool:
        for rep in range(reps):
            how = dict(rnd.choice(hows))
            cases += 1
            st = rnd.getstate()
            r, doc = check_doc([g], rnd, how)
            if r and len(failures) < 15:
                failures.append({'id': 'C03/' + label, 'what': r, 'input': {'kind': 'doc', 'text': doc, 'how': how}})
    # several grids per document
    for i in range(40 if tier != 'thorough' else 400):
        gs = [rnd.choice(pool)[1] for _ in range(rnd.randint(2, 3))]
        how = dict(rnd.choice(hows))
        how.pop('single', None)
        cases += 1
        r, doc = check_doc(gs, rnd, how)
        if r and len(failures) < 15:
            failures.append({'id': 'C03/multi', 'what': r, 'input': {'kind': 'doc', 'text': doc, 'how': how, 'n': len(gs)}})
    # escape spellings whose decoding depends on reading the text once, left to right
    for ver in ('2.0', '3.0'):
        for text, want in ESCAPE_CASES:
            for q, mk in (('"', lambda x: x), ('`', hszinc.Uri)):
                cases += 1
                lit = q + text + q
                doc = 'ver:"%s"\na,b\n%s,"n"\n' % (ver, lit)
                try:
                    g = hszinc.parse(doc, mode=hszinc.MODE_ZINC)
                    got = g[0]['a']
                    ok = type(got) is type(mk(want)) and str.__str__(got) == want and g[0]['b'] == 'n'
                except Exception as e:
                    ok, got = False, e
                if not ok and len(failures) < 15:
                    failures.append({'id': 'C03/escape/%s/%s' % (ver, text), 'what': 'cell %s denotes %r, read as %r' % (lit, want, got), 'input': {'kind': 'escape', 'ver': ver, 'text': text, 'want': want, 'q': q}})
    # empty input
    for data, single, want in (('', True, None), ('', False, []), (b'', True, None), ('\n', False, []), ('\r\n\r\n', False, [])):
        cases += 1
        try:
            got = hszinc.parse(data, mode=hszinc.MODE_ZINC, single=single)
            ok = got == want
        except Exception as e:
            ok, got = False, type(e).__name__
        if not ok:
            failures.append({'id': 'C03/empty-input', 'what': 'parse(%r, single=%s) gave %r, expected %r' % (data, single, got, want), 'input': {'kind': 'empty', 'data': repr(data), 'single': single}})
    return {'cases': cases, 'failures': failures,
            'bound': 'value catalogue (every kind x positions x versions) respelled by an independent speller with random legal spelling choices x framing '
                     '{LF, CRLF, no final newline, extra newlines, utf-8 / utf-16 bytes, single flag}; multi-grid documents; empty inputs'}


def replay(inp):
    if inp.get('kind') == 'escape':
        import hszinc
        lit = inp['q'] + inp['text'] + inp['q']
        doc = 'ver:"%s"\na,b\n%s,"n"\n' % (inp['ver'], lit)
        try:
            got = hszinc.parse(doc, mode=hszinc.MODE_ZINC)[0]['a']
            ok = str.__str__(got) == inp['want']
        except Exception as e:
            ok, got = False, e
        return {'reproduced': not ok, 'detail': 'cell %s denotes %r, read as %r' % (lit, inp['want'], got)}
    import hszinc
    k = inp.get('kind')
    if k in ('framing_doc', 'framing'):
        # a document shape on which a framing obligation failed: respell a few catalogue grids with every framing and compare
        rnd = random.Random(0)
        pool = [g for _, g in list(VC.grids('quick', 0))[:40]]
        fails = []
        for how in ({}, {'nl': '\r\n'}, {'final': False}, {'extra_nl': 2}, {'nl': '\r\n', 'final': False}):
            for i in range(0, len(pool) - 2, 3):
                r, doc = check_doc(pool[i:i + 3], rnd, dict(how))
                if r:
                    fails.append(r)
            for g in pool[:6]:
                r, doc = check_doc([g], rnd, dict(how, single=True))
                if r:
                    fails.append(r)
        return {'reproduced': bool(fails), 'detail': fails[:3]}
    if k == 'doc':
        how = inp.get('how', {})
        data = inp['text']
        kw = {}
        if how.get('bytes'):
            data = data.encode(how['bytes'], 'surrogatepass')
            kw['charset'] = how['bytes']
        try:
            back = hszinc.parse(data, mode=hszinc.MODE_ZINC, single=how.get('single', False), **kw)
            # replay cannot rebuild the expected grid from the text alone: judge with the reference reader
            from spec import zinc_ref as ZR
            want = ZR.decode_document(inp['text'].replace('\r\n', '\n'))
            backs = [back] if how.get('single') else back
            bad = len(backs) != (1 if how.get('single') else len(want)) or any(not HV.same(_n(HV.abs_grid(b)), _n(w), TOL) for b, w in zip(backs, want))
            return {'reproduced': bool(bad), 'detail': 'read %r' % ([HV.abs_grid(b) for b in backs],)}
        except Exception as e:
            return {'reproduced': True, 'detail': 'raised %s' % type(e).__name__}
    if k in ('zinc_text', 'zinc_doc') and inp.get('text') is not None:
        # a reference spelling the deductive part says is not accepted as intended
        try:
            if k == 'zinc_doc':
                hszinc.parse(inp['text'], mode=hszinc.MODE_ZINC)
            else:
                hszinc.parse_scalar(inp['text'], mode=hszinc.MODE_ZINC, version='3.0' if inp.get('ver3', True) else '2.0')
            return {'reproduced': False, 'detail': 'accepted'}
        except Exception as e:
            return {'reproduced': True, 'detail': '%s on %r' % (type(e).__name__, inp['text'])}
    r = bounded('quick', 0)
    return {'reproduced': bool(r['failures']), 'detail': [f['what'] for f in r['failures'][:3]]}


def _n(h):
    if isinstance(h, tuple) and h and h[0] == 'datetime':
        return h[:3]
    if isinstance(h, tuple):
        return tuple(_n(x) for x in h)
    return h
