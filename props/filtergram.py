"""C11 / C12: the filter grammar of hszinc.grid_filter under E3 (hv/peg with left context and whitespace skipping)."""
import time

from hv.vc.kit import Task
from hv.peg import grammar as G, sem as S, marked as M
from hv.lang import automata as A, sre2nfa
from props import zincread as ZR
from spec import filter_surface as FS

FMOD = 'hszinc.grid_filter'
TERM_TAGS = {'hs_parens': '@parens', 'hs_missing': '@missing', 'hs_cmp': '@cmp', 'hs_has': '@has'}
VAL_KINDS = {'hs_bool': 'bool', 'hs_ref': 'ref', 'hs_str': 'str', 'hs_uri': 'uri', 'hs_number': 'number', 'hs_date': 'date', 'hs_time': 'time'}


class FilterReader(object):
    def __init__(self, extra_nfas=()):
        self.ex = G.Extractor(FMOD)
        gf = self.ex.mod
        self.gf = gf
        self.filter = self.ex.node(gf.hs_filter)
        self.val = self.ex.node(gf.hs_val)
        sets = []
        for n in list(extra_nfas) + [sre2nfa.body(FS.WS)]:
            sets += n.labels()
        self.comp = S.CtxCompiler([self.filter, self.val], extra_sets=sets, nest={self.filter: 0, self.val: 1}, abstract=2)
        self.alg = self.comp.alg
        self.comp.tag_all_depths = True
        self._names = {}
        for n in dir(gf):
            if n.startswith('hs_'):
                try:
                    self._names['\n'.join(G.describe(self.ex.node(getattr(gf, n))))] = n
                except Exception:
                    pass

    def name_of(self, g):
        return self._names.get('\n'.join(G.describe(g)))

    def tags(self):
        """marks for the alternatives of hs_term (every occurrence) and of hs_val; `a | b | c` is a nest of binary MatchFirst
        objects until pyparsing streamlines it: the nest is followed, inner nodes get no mark of their own"""
        tags = {}

        def visit(g, table, other):
            if g.uid in tags:
                return
            tl = []
            for i, c in enumerate(g.children):
                nm = self.name_of(c)
                if nm in table:
                    tl.append(table[nm])
                elif c.kind == 'first' and not c.actions:
                    visit(c, table, other)
                    tl.append(None)
                else:
                    tl.append(other % (nm or 'alt%d' % i))
            tags[g.uid] = tl
        for g in G.walk(self.comp.target(self.filter)):
            if g.kind == 'first' and g.uid not in tags:
                names = set()

                def leaves(x):
                    for c in x.children:
                        if c.kind == 'first' and not c.actions:
                            leaves(c)
                        else:
                            names.add(self.name_of(c))
                leaves(g)
                if names and names <= set(TERM_TAGS):
                    visit(g, TERM_TAGS, '@term-other:%s')
        v = self.comp.target(self.val)
        if v.kind == 'first':
            visit(v, {k: '@v:' + x for k, x in VAL_KINDS.items()}, '@v:other:%s')
        return tags

    def and_marks(self):
        """<and ... >and around every and-level group (the node whose parse action folds with 'and')"""
        out = {}
        for g in G.walk(self.comp.target(self.filter)):
            if g.kind == 'and' and any('_fold_binary' in _src(a) and "'and'" in _src(a).replace('"', "'") for a in g.actions):
                out[g.uid] = 'and'
        return out

    def to_end(self, sem):
        alg = self.alg
        return alg.seq(sem, alg.seq(self.comp.ws_star(), alg.end_of_input()))

    def units(self):
        return [{'function': '%s.hs_filter (pyparsing object graph)' % FMOD, 'file': 'hszinc/grid_filter.py', 'lines': 'module level', 'ast_sha': G.fingerprint(self.filter)}]


def _src(a):
    import ast
    return ast.unparse(a.node)


def depth_of(tier):
    return 1 if tier != 'thorough' else 2


def t_grammar(T, tier, what):
    d = depth_of(tier)
    ref_marked = FS.document(d, marks=True)
    rd = FilterReader(extra_nfas=[ref_marked])
    comp, alg = rd.comp, rd.alg
    budget = {0: d, 1: 1}
    if what == 'engine':
        sem = comp.compile_depth(rd.filter, budget)
        bad = M.check_function(alg, sem)
        ZR.oblige_fact(T, 'grammar/engine/semantics_is_a_total_function_of(previous-character-class, text)', not bad,
                       reason='; '.join('%s: %r' % (w, comp.sample([x for x in (s or []) if not alg.is_kappa(x)])) for w, s in bad), kind='vacuity')
    elif what == 'structure':
        tags = rd.tags()
        marks = rd.and_marks()
        ZR.oblige_fact(T, 'grammar/structure/term_and_value_alternations_and_the_and_level_found_in_the_extracted_grammar', len(tags) >= 2 and len(marks) >= 1)
        sem = rd.to_end(comp.compile_depth(rd.filter, budget, marks=marks, tags=tags))
        keep = set(TERM_TAGS.values()) | {'@v:' + k for k in FS.VAL} | {'<and'}
        C = alg.erase(sem.cons, keep=tuple(keep))
        X = comp.lang_ctx(ref_marked)
        ZR.oblige_included(T, 'grammar/structure/every_reference_filter_up_to_parenthesis_depth_%d_is_accepted_and_read_with_the_reference_structure(terms,literal_kinds,and_binds_tighter_than_or)' % d,
                           rd_adapter(rd), X, C, witness_kind='filter_text')
        e, w = A.is_empty(ref_marked)
        ZR.oblige_fact(T, 'grammar/structure/cover.reference_language_nonempty', not e, kind='vacuity')
    elif what == 'asgiven':
        import ast
        from hv.frontend import extract
        src = ast.unparse(extract.module(FMOD).functions['parse_filter'])
        ZR.oblige_fact(T, 'grammar/asgiven/parse_filter_parses_the_text_as_given(parseWithTabs: no tab expansion)_and_requires_the_whole_text(parseAll)',
                       '.parseWithTabs()' in src and 'parseAll=True' in src)
    elif what == 'keywords':
        # keywords are whole words: a name that merely starts with a keyword is a name
        sem = rd.to_end(comp.compile_depth(rd.filter, budget, tags=rd.tags()))
        C = alg.erase(sem.cons, keep=tuple(TERM_TAGS.values()))
        for text, tag in (('notes', '@has'), ('android', '@has'), ('order', '@has'), ('truefalse', '@has'), ('not es', '@missing')):
            X = comp.lang_ctx(A.concat(A.mark(tag), A.lit(text)))
            ZR.oblige_included(T, 'grammar/keywords/%r_is_read_as_%s' % (text, tag[1:]), rd_adapter(rd), X, C, witness_kind='filter_text')
        acc = alg.strip(sem.cons)
        for text in ('a andb', 'a orb', 'a and', 'and a', 'a b', 'a == ', '(a', 'a)', 'a ->', 'nota b'):
            X = comp.lang_ctx(A.lit(text))
            I = alg._intersect(X, acc)
            e, w = alg.is_empty(I)
            ZR.oblige_fact(T, 'grammar/keywords/%r_is_rejected' % text, e, witness=None if e else {'kind': 'filter_text', 'text': text})
    T.extra_units = rd.units()


class rd_adapter(object):
    """what zincread.oblige_included needs: alg + comp (witness texts without the context symbol)"""

    def __init__(self, rd):
        self.alg = rd.alg
        self.comp = _CompView(rd.comp)


class _CompView(object):
    def __init__(self, comp):
        self._c = comp

    def _clean(self, w):
        return [s for s in (w or []) if not (isinstance(s, int) and self._c.alg.is_kappa(s))]

    def text_of(self, w):
        return self._c.text_of(self._clean(w))

    def sample(self, w):
        return self._c.sample(self._clean(w))
