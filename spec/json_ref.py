"""Reference Haystack-JSON encoding (oracle for C05/C06/C02), written from the Project Haystack JSON specification
(DESIGN.md Appendix B), not from jsondumper/jsonparser.

For each value kind: the type prefix, the payload's lexical form (a regular language) and which parts of the value
the payload fields must spell.  `hull` is what a writer may emit."""
from hv.lang import sre2nfa as S, automata as A

NUM = r'-?\d+(\.\d+)?([eE][+-]?\d+)?'
REFNAME = r'[a-zA-Z0-9_:\-.~]+'
DATE = r'\d{4}-\d{2}-\d{2}'
TIME = r'\d{2}:\d{2}(:\d{2}(\.\d+)?)?'
OFFSET = r'(Z|[+-]\d{2}:\d{2})'
TZNAME = r'[A-Za-z0-9_+\-]+'

# kind -> (prefix, regex of the payload after the prefix; '.' must include newlines here: payload text is any JSON string)
HULL = {
    'marker': ('m:', r''),
    'na': ('z:', r''),
    'remove2': ('x:', r''),
    'remove3': ('-:', r''),
    'num': ('n:', r'(' + NUM + r'|INF|-INF|NaN)'),
    'qty': ('n:', r'(' + NUM + r'|INF|-INF|NaN) [^ ]+'),
    'str': ('s:', r'(?s:.*)'),
    'uri': ('u:', r'(?s:.*)'),
    'bin': ('b:', r'(?s:.*)'),
    'ref0': ('r:', REFNAME),
    'ref1': ('r:', REFNAME + r' (?s:.*)'),
    'date': ('d:', DATE),
    'time': ('h:', TIME),
    'datetime': ('t:', DATE + r'T\d{2}:\d{2}:\d{2}(\.\d+)?' + OFFSET + r'( ' + TZNAME + r')?'),
    'coord': ('c:', r'-?\d+(\.\d+)?,-?\d+(\.\d+)?'),
    'xstr': ('x:', r'[A-Za-z][a-zA-Z0-9_]*:(?s:.*)'),
}


def hull_language(kind):
    pre, rx = HULL[kind]
    return A.concat(A.lit(pre), S.body(rx))


# expected structure of the encoded string: prefix + sequence of (literal | payload field kind, which part of the value)
STRUCT = {
    'marker': ['m:'], 'na': ['z:'], 'remove2': ['x:'], 'remove3': ['-:'],
    'str': ['s:', ('text', 'text')],
    'uri': ['u:', ('text', 'text')],
    'bin': ['b:', ('text', 'text')],
    'ref0': ['r:', ('refname', 'name')],
    'ref1': ['r:', ('refname', 'name'), ' ', ('text', 'dis')],
    'date': ['d:', ('iso_date', 'v')],
    'time': ['h:', ('iso_time', 'v')],
    'datetime': ['t:', ('iso_datetime', 'v'), ' ', ('tzname', 'v')],
    'coord': ['c:', ('fmt6', 'lat'), ',', ('fmt6', 'lng')],
    'num': ['n:', ('fmt6', 'v')],
    'qty': ['n:', ('fmt6', 'value'), ' ', ('unit', 'unit')],
    'xstr': ['x:', ('xtype', 'enc'), ':', ('xdata', 'data')],
}


# ---------------------------------------------------------------- executable reference reader (plain Python, shares no code with hszinc)
import datetime as _dt
import re as _re

_NUM = _re.compile(r'^(' + NUM + r'|INF|-INF|NaN)( (.+))?$', _re.S)
_REF = _re.compile(r'^(' + REFNAME + r')( (.*))?$', _re.S)
_DT = _re.compile(r'^(\d{4})-(\d{2})-(\d{2})T(\d{2}):(\d{2}):(\d{2})(\.\d+)?(Z|z|[+-]\d{2}:\d{2})( (' + TZNAME + r'))?$')
_TIME = _re.compile(r'^(\d{2}):(\d{2})(:(\d{2})(\.(\d+))?)?$')


class BadEncoding(ValueError):
    pass


def _num(t):
    return {'INF': float('inf'), '-INF': float('-inf'), 'NaN': float('nan')}.get(t, None) if t in ('INF', '-INF', 'NaN') else float(t)


def decode_value(x, ver3=True):
    """reference decoding of one encoded JSON value into an HVal tuple"""
    if x is None:
        return ('null',)
    if isinstance(x, bool):
        return ('bool', x)
    if isinstance(x, (int, float)):
        return ('num', float(x))
    if isinstance(x, list):
        return ('list', tuple(decode_value(y, ver3) for y in x))
    if isinstance(x, dict):
        if {'meta', 'cols', 'rows'} <= set(x.keys()) or ('meta' in x and 'cols' in x):
            return decode_grid(x)
        return ('dict', tuple((k, decode_value(v, ver3)) for k, v in x.items()))
    if not isinstance(x, str):
        raise BadEncoding('not a JSON value: %r' % (x,))
    if len(x) < 2 or x[1] != ':':
        return ('str', x)
    p, body = x[0], x[2:]
    if p == 'm' and body == '':
        return ('marker',)
    if p == 'z' and body == '':
        return ('na',)
    if p in ('x', '-') and body == '':
        return ('remove',)
    if p == 's':
        return ('str', body)
    if p == 'u':
        return ('uri', body)
    if p == 'b':
        return ('bin', body)
    if p == 'n':
        m = _NUM.match(body)
        if not m:
            raise BadEncoding('bad number %r' % x)
        v = _num(m.group(1))
        unit = m.groups()[-1]
        return ('qty', v, unit) if unit is not None else ('num', v)
    if p == 'r':
        m = _REF.match(body)
        if not m:
            raise BadEncoding('bad ref %r' % x)
        return ('ref', m.group(1), m.group(3) if m.group(2) is not None else None)
    if p == 'd':
        if not _re.fullmatch(DATE, body, _re.A):
            raise BadEncoding('bad date %r (YYYY-MM-DD)' % x)
        y, mo, d = body.split('-')
        return ('date', int(y), int(mo), int(d))
    if p == 'h':
        m = _TIME.match(body)
        if not m:
            raise BadEncoding('bad time %r' % x)
        us = int((m.group(6) or '0')[:6].ljust(6, '0'))
        return ('time', int(m.group(1)), int(m.group(2)), int(m.group(4) or 0), us)
    if p == 't':
        m = _DT.match(body)
        if not m:
            raise BadEncoding('bad datetime %r' % x)
        y, mo, d, hh, mi, ss = (int(m.group(i)) for i in range(1, 7))
        us = int((m.group(7) or '.0')[1:7].ljust(6, '0'))
        off = m.group(8)
        secs = 0 if off in ('Z', 'z') else (1 if off[0] == '+' else -1) * (int(off[1:3]) * 3600 + int(off[4:6]) * 60)
        local = _dt.datetime(y, mo, d, hh, mi, ss, us)
        return ('datetime', local - _dt.timedelta(seconds=secs), secs)
    if p == 'c':
        if not _re.fullmatch(r'-?\d+(\.\d+)?,-?\d+(\.\d+)?', body, _re.A):
            raise BadEncoding('bad coordinate %r' % x)
        la, lo = body.split(',')
        return ('coord', float(la), float(lo))
    if p == 'x':
        enc, _, data = body.partition(':')
        if enc == 'hex':
            return ('xstr', enc, bytes.fromhex(data))
        if enc == 'b64':
            import base64
            return ('xstr', enc, base64.b64decode(data))
        return ('xstr', enc, data)
    return ('str', x)


def decode_grid(doc):
    if not isinstance(doc, dict) or 'meta' not in doc or 'cols' not in doc:
        raise BadEncoding('not a grid object')
    meta = doc['meta']
    ver = meta.get('ver')
    if not isinstance(ver, str):
        raise BadEncoding('missing ver')
    ver3 = not ver.startswith('2')
    cols = []
    for c in doc['cols']:
        if 'name' not in c:
            raise BadEncoding('column without name')
        cols.append((c['name'], tuple((k, decode_value(v, ver3)) for k, v in c.items() if k != 'name')))
    names = [c for c, _ in cols]
    rows = []
    for r in (doc.get('rows') or []):
        rows.append(tuple(decode_value(r.get(c), ver3) for c in names))
    return ('grid', ver, tuple((k, decode_value(v, ver3)) for k, v in meta.items() if k != 'ver'), tuple(cols), tuple(rows))


# ---------------------------------------------------------------- executable reference writer with spelling variation (C05)
def spellings_of(h, rnd=None):
    """all (a sample of) legal Haystack-JSON spellings of the HVal tuple h -> list of JSON-able objects"""
    k = h[0]
    if k == 'null':
        return [None]
    if k == 'marker':
        return ['m:']
    if k == 'na':
        return ['z:']
    if k == 'remove':
        return ['x:', '-:']
    if k == 'bool':
        return [h[1]]
    if k == 'num':
        v = h[1]
        if v != v:
            return ['n:NaN']
        if v in (float('inf'), float('-inf')):
            return ['n:INF' if v > 0 else 'n:-INF']
        outs = ['n:%r' % v if 'e' not in repr(v) else 'n:' + repr(v).replace('e', 'E'), v]
        if v == int(v) and abs(v) < 1e15:
            outs += ['n:%d' % int(v), int(v), 'n:%de0' % int(v), 'n:%d.0E+0' % int(v)]
        return outs
    if k == 'qty':
        return ['n:%r %s' % (h[1], h[2])] + (['n:%d %s' % (int(h[1]), h[2])] if h[1] == int(h[1]) else [])
    if k == 'str':
        t = h[1]
        outs = ['s:' + t]
        if len(t) < 2 or t[1] != ':':
            outs.append(t)
        return outs
    if k == 'uri':
        return ['u:' + h[1]]
    if k == 'bin':
        return ['b:' + h[1]]
    if k == 'ref':
        return ['r:' + h[1] + ('' if h[2] is None else ' ' + h[2])]
    if k == 'date':
        return ['d:%04d-%02d-%02d' % h[1:4]]
    if k == 'time':
        hh, mm, ss, us = h[1:5]
        outs = []
        if us:
            outs.append('h:%02d:%02d:%02d.%06d' % (hh, mm, ss, us))
            if us % 1000 == 0:
                outs.append('h:%02d:%02d:%02d.%03d' % (hh, mm, ss, us // 1000))
            outs.append('h:%02d:%02d:%02d.%06d000' % (hh, mm, ss, us))
        else:
            outs.append('h:%02d:%02d:%02d' % (hh, mm, ss))
            if ss == 0:
                outs.append('h:%02d:%02d' % (hh, mm))
        return outs
    if k == 'datetime':
        utc, off, zone = h[1], h[2], h[3] if len(h) > 3 else None
        local = utc + _dt.timedelta(seconds=off)
        base = local.strftime('%Y-%m-%dT%H:%M:%S') + (('.%06d' % local.microsecond) if local.microsecond else '')
        offs = ['%s%02d:%02d' % ('+' if off >= 0 else '-', abs(off) // 3600, abs(off) % 3600 // 60)]
        if off == 0:
            offs.append('Z')
        outs = []
        for o in offs:
            if zone:
                outs.append('t:%s%s %s' % (base, o, zone))
            outs.append('t:%s%s' % (base, o))
        return outs
    if k == 'coord':
        return ['c:%r,%r' % (h[1], h[2]), 'c:%.6f,%.6f' % (h[1], h[2])]
    if k == 'xstr':
        enc, data = h[1], h[2]
        if enc == 'hex':
            return ['x:hex:' + data.hex()]
        if enc == 'b64':
            import base64
            return ['x:b64:' + base64.b64encode(data).decode('ascii')]
        return ['x:%s:%s' % (enc, data)]
    if k == 'list':
        return [[spellings_of(x)[0] for x in h[1]]]
    if k == 'dict':
        return [{kk: spellings_of(x)[0] for kk, x in h[1]}]
    if k == 'grid':
        return [encode_grid(h)]
    raise ValueError(h)


def encode_grid(h, choose=None, rows_style='full'):
    choose = choose or (lambda opts: opts[0])
    _, ver, meta, cols, rows = h
    doc = {'meta': dict([('ver', ver)] + [(k, choose(spellings_of(v))) for k, v in meta]),
           'cols': [dict([('name', c)] + [(k, choose(spellings_of(v))) for k, v in cm]) for c, cm in cols]}
    names = [c for c, _ in cols]
    rr = []
    for r in rows:
        d = {}
        for c, v in zip(names, r):
            if v == ('null',) and rows_style == 'omit_nulls':
                continue
            d[c] = choose(spellings_of(v))
        rr.append(d)
    if rows or rows_style == 'full':
        doc['rows'] = rr
    elif rows_style == 'null':
        doc['rows'] = None
    return doc
