"""Reference Haystack filter semantics (oracle for C11 / C13), written from the Project Haystack filter specification
(DESIGN.md Appendix C); shares no code with hszinc.grid_filter.

filter := or ; or := and ("or" and)* ; and := term ("and" term)* ;
term := "(" filter ")" | "not" path | path cmpOp literal | path ; path := id ("->" id)*
Tokens are maximal: `notes` is one name.  A number is spelled as in ZINC, which includes INF, -INF and NaN.  and binds tighter than or; both left-associative."""
import re

TOK = re.compile(r'\s*(?:(?P<id>[a-z][a-zA-Z0-9_]*)|(?P<op>==|!=|<=|>=|<|>|->|\(|\))|(?P<lit>"(?:[^"\\]|\\.)*"|`[^`]*`|@[a-zA-Z0-9_:\-.~]+|-?[0-9][0-9_]*(?:\.[0-9_]+)?(?:[eE][+-]?[0-9]+)?|-?INF\b|NaN\b|true|false))')


class Has(object):
    def __init__(self, path):
        self.path = path


class Missing(object):
    def __init__(self, path):
        self.path = path


class Cmp(object):
    def __init__(self, op, path, lit):
        self.op, self.path, self.lit = op, path, lit


class And(object):
    def __init__(self, a, b):
        self.a, self.b = a, b


class Or(object):
    def __init__(self, a, b):
        self.a, self.b = a, b


def tokenize(text):
    out = []
    pos = 0
    text = text.strip()
    while pos < len(text):
        m = TOK.match(text, pos)
        if not m or m.end() == pos:
            raise ValueError('bad filter at %d: %r' % (pos, text[pos:pos + 10]))
        pos = m.end()
        if m.group('id'):
            w = m.group('id')
            out.append(('kw', w) if w in ('and', 'or', 'not', 'true', 'false') else ('id', w))
        elif m.group('op'):
            out.append(('op', m.group('op')))
        else:
            out.append(('lit', m.group('lit')))
    return out


def parse(text, literal=None):
    toks = tokenize(text)
    pos = [0]

    def peek():
        return toks[pos[0]] if pos[0] < len(toks) else (None, None)

    def take():
        t = peek()
        pos[0] += 1
        return t

    def path():
        k, v = take()
        if k != 'id':
            raise ValueError('expected a tag name')
        p = [v]
        while peek() == ('op', '->'):
            take()
            k, v = take()
            if k != 'id':
                raise ValueError('expected a tag name after ->')
            p.append(v)
        return p

    def lit():
        k, v = take()
        if k == 'kw' and v in ('true', 'false'):
            return v == 'true'
        if k != 'lit':
            raise ValueError('expected a literal')
        return literal(v) if literal else v

    def term():
        k, v = peek()
        if (k, v) == ('op', '('):
            take()
            e = or_()
            if take() != ('op', ')'):
                raise ValueError('expected )')
            return e
        if (k, v) == ('kw', 'not'):
            take()
            return Missing(path())
        p = path()
        k, v = peek()
        if k == 'op' and v in ('==', '!=', '<', '<=', '>', '>='):
            take()
            return Cmp(v, p, lit())
        return Has(p)

    def and_():
        e = term()
        while peek() == ('kw', 'and'):
            take()
            e = And(e, term())
        return e

    def or_():
        e = and_()
        while peek() == ('kw', 'or'):
            take()
            e = Or(e, and_())
        return e
    e = or_()
    if pos[0] != len(toks):
        raise ValueError('trailing tokens')
    return e


ABSENT = object()


def resolve(rows_by_id, row, path, is_ref, ref_name):
    """value of the path in `row`, following references through the row whose id equals the reference"""
    v = row.get(path[0], ABSENT) if isinstance(row, dict) else ABSENT
    for p in path[1:]:
        if v is ABSENT:
            return ABSENT
        if is_ref(v):
            target = rows_by_id(ref_name(v))
            if target is None:
                return ABSENT
            v = target.get(p, ABSENT)
        elif isinstance(v, dict):
            v = v.get(p, ABSENT)
        else:
            return ABSENT
    return v


def evaluate(e, row, rows_by_id, is_ref, ref_name, compare):
    if isinstance(e, Has):
        return resolve(rows_by_id, row, e.path, is_ref, ref_name) is not ABSENT
    if isinstance(e, Missing):
        return resolve(rows_by_id, row, e.path, is_ref, ref_name) is ABSENT
    if isinstance(e, Cmp):
        v = resolve(rows_by_id, row, e.path, is_ref, ref_name)
        if v is ABSENT:
            return False
        return compare(e.op, v, e.lit)
    if isinstance(e, And):
        return evaluate(e.a, row, rows_by_id, is_ref, ref_name, compare) and evaluate(e.b, row, rows_by_id, is_ref, ref_name, compare)
    if isinstance(e, Or):
        return evaluate(e.a, row, rows_by_id, is_ref, ref_name, compare) or evaluate(e.b, row, rows_by_id, is_ref, ref_name, compare)
    raise TypeError(e)


def select(rows, e, limit, rows_by_id, is_ref, ref_name, compare):
    out = []
    for r in rows:
        if evaluate(e, r, rows_by_id, is_ref, ref_name, compare):
            out.append(r)
        if limit and len(out) == limit:
            break
    return out
