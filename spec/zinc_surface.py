"""Reference ZINC surface syntax ("core": what a reader must accept), as regular languages unrolled to a nesting depth.
Written from DESIGN.md Appendix A (the Project Haystack ZINC grammar), not from hszinc's reader.

kinds(ver3) -> {kind: regex}   for the non-nested scalar kinds
value(ver3, depth)             -> NFA of every value spelling with at most `depth` levels of non-empty list/dict/grid nesting
grid(ver3, depth)              -> NFA of a grid whose cells / metadata values have at most depth-1 levels
"""
from hv.lang import sre2nfa as S, automata as A
from hv.lang.charset import CS

DIGITS = r'[0-9][0-9_]*'
DECIMAL = r'-?' + DIGITS + r'(\.' + DIGITS + r')?([eE][+-]?' + DIGITS + r')?'
UNIT = r'([a-zA-Z%_/$]|[\u0080-\U0010ffff])+'
STRCHAR = r'([^\x00-\x1f\\"]|\\[bfnrt\\"$]|\\[uU][0-9a-fA-F]{4})'
URICHAR = r'([^\x00-\x1f\\`]|\\[bfnrt:/?#\[\]@`\\&=;]|\\[uU][0-9a-fA-F]{4})'
STR = r'"' + STRCHAR + r'*"'
URI = r'`' + URICHAR + r'*`'
REFNAME = r'[a-zA-Z0-9_:\-.~]+'
DATE = r'[0-9]{4}-[0-9]{2}-[0-9]{2}'
TIME = r'[0-9]{2}:[0-9]{2}:[0-9]{2}(\.[0-9]+)?'
TZNAME = r'(UTC|GMT([+-][0-9]+|0)?|[A-Z][a-zA-Z0-9_\-]*)'
OFFSET = r'([Zz]|[+-][0-9]{2}:[0-9]{2})'
U_DATE = r'\d{4}-\d{2}-\d{2}'
U_TIME = r'\d{2}:\d{2}:\d{2}(\.\d+)?'
ID = r'[a-z][a-zA-Z0-9_]*'
VSEP = r' *, *'
NL = r'\r?\n'
COORDDEG = r'-?' + DIGITS + r'(\.' + DIGITS + r')?'


LENIENT = {
    # what hszinc's reader accepts beyond the core grammar; none of these is one of the structural faults C09 lists
    # (each is listed in the evidence of C09 as a tolerated leniency):
'empty reference name': None, 'coordinate degrees may omit digits': None,
    'date-time without UTC offset': None, 'UTC+n zone names': None, 'XStr type name may start with a lower-case letter or digit': None,
    'a lone separator in an otherwise empty list': None, 'dict tags not separated by a blank': None,
    'any Unicode decimal digit where dates, times, offsets and reference names expect a digit': None,
}


def kinds(ver3, lenient=False):
    if lenient:
        d = DIGITS
        dec = r'-?' + d + r'(\.' + d + r')?([eE][+-]?' + d + r')?'
        cdeg = r'-?(' + d + r')?(\.' + d + r')?'
        k = {
            'null': r'N', 'marker': r'M', 'remove': r'R', 'bool': r'[TF]',
            'number': r'(' + dec + r'|INF|-INF|NaN)', 'quantity': dec + UNIT, 'str': STR, 'uri': URI,
            'ref': r'@[a-zA-Z0-9_:\-.~\d]*( ' + STR + r')?', 'date': U_DATE, 'time': U_TIME,
            'datetime': U_DATE + r'[Tt]' + U_TIME + r'([Zz]|[+-]\d{2}:\d{2})?( ((UTC|GMT)([+-]\d+|0)?|[A-Z][a-zA-Z0-9_\-]*))?',
            'coord': r'C\(' + cdeg + VSEP + cdeg + r'\)',
        }
        if ver3:
            k['na'] = r'NA'
            k['xstr'] = r'[a-zA-Z0-9_]+\(' + STR + r'\)'
        else:
            k['bin'] = r'Bin\([\x20-\x27\x2a-\x7f]*\)'
        return k
    k = {
        'null': r'N', 'marker': r'M', 'remove': r'R', 'bool': r'[TF]',
        'number': r'(' + DECIMAL + r'|INF|-INF|NaN)',
        'quantity': DECIMAL + UNIT,
        'str': STR, 'uri': URI,
        'ref': r'@' + REFNAME + r'( ' + STR + r')?',
        'date': DATE, 'time': TIME,
        'datetime': DATE + r'[Tt]' + TIME + OFFSET + r'( ' + TZNAME + r')?',
        'coord': r'C\(' + COORDDEG + VSEP + COORDDEG + r'\)',
    }
    if ver3:
        k['na'] = r'NA'
        k['xstr'] = r'[A-Z][a-zA-Z0-9_]*\(' + STR + r'\)'
    else:
        k['bin'] = r'Bin\([\x20-\x27\x2a-\x7f]*\)'
    return k


def rx(p):
    return S.body(p)


def scalar(ver3, lenient=False):
    return A.union(*[rx(p) for p in kinds(ver3, lenient).values()])


def value(ver3, depth, lenient=False):
    """nesting convention (the same as the unrolling of the reader): a list/dict element is one level down, the cells of a
    nested grid two levels down"""
    v = scalar(ver3, lenient)
    if not ver3:
        return v
    inner = value(ver3, depth - 1, lenient) if depth > 0 else None
    parts = [v, collection_list(inner, lenient), collection_dict(inner, lenient)]
    if depth > 0:
        parts.append(A.concat(rx(r'<< *'), grid(ver3, depth - 1, lenient), rx(r' *>>')))
    return A.union(*parts)


def collection_list(inner, lenient=False):
    empty = rx(r'\[ *(, *)?\]') if lenient else rx(r'\[ *\]')
    if inner is None:
        return empty
    body = A.concat(inner, A.star(A.concat(rx(VSEP), inner)), A.opt(rx(VSEP)))
    return A.union(empty, A.concat(rx(r'\[ *'), body, rx(r' *\]')))


def collection_dict(inner, lenient=False):
    tag = rx(ID) if inner is None else A.union(rx(ID), A.concat(rx(ID), rx(r': *'), inner))
    body = A.concat(tag, A.star(A.concat(rx(r' *' if lenient else r' +'), tag)))
    return A.concat(rx(r'\{ *'), A.opt(body), rx(r' *\}'))


def meta(ver3, depth, lenient=False):
    inner = value(ver3, depth - 1, lenient) if depth > 0 else None
    item = rx(ID) if inner is None else A.union(rx(ID), A.concat(rx(ID), rx(r' *: *'), inner))
    return A.concat(item, A.star(A.concat(rx(r' '), item)))


def grid(ver3, depth, lenient=False, cell_marks=None):
    """grid whose values have nesting < depth (depth 0: only markers / empty cells); cell_marks = (mark for an empty cell,
    mark for a cell holding a value) inserts those marks in front of every cell of the outer grid"""
    inner = value(ver3, depth - 1, lenient) if depth > 0 else None
    m = meta(ver3, depth, lenient)
    ver = A.concat(rx(r'ver:'), rx(STR), A.opt(A.concat(rx(r' '), m)), rx(r' *'), rx(NL))
    col = A.concat(rx(ID), A.opt(A.concat(rx(r' '), m)))
    cols = A.concat(col, A.star(A.concat(rx(VSEP), col)), rx(r' *'), rx(NL))
    cell = A.epsilon() if inner is None else A.opt(inner)
    if cell_marks:
        cell = A.mark(cell_marks[0]) if inner is None else A.union(A.mark(cell_marks[0]), A.concat(A.mark(cell_marks[1]), inner))
    row = A.concat(cell, A.star(A.concat(rx(VSEP), cell)), rx(r' *'), rx(NL))
    return A.concat(ver, cols, A.star(row))
