"""The Haystack value domain as plain tuples (oracle layer), and abs(): hszinc objects -> HVal.
abs() only reads public attributes of the value classes; it shares nothing with dumpers/parsers."""
import datetime
import math


def abs_value(v):
    import hszinc
    from hszinc.datatypes import Qty
    if v is None:
        return ('null',)
    if v is hszinc.MARKER:
        return ('marker',)
    if v is hszinc.NA:
        return ('na',)
    if v is hszinc.REMOVE:
        return ('remove',)
    if isinstance(v, bool):
        return ('bool', v)
    if isinstance(v, hszinc.Ref):
        return ('ref', v.name, v.value if v.has_value else None)
    if isinstance(v, hszinc.Bin):
        return ('bin', str.__str__(v))
    if isinstance(v, hszinc.Uri):
        return ('uri', str.__str__(v))
    if isinstance(v, hszinc.XStr):
        d = v.data
        return ('xstr', v.encoding, bytes(d) if isinstance(d, (bytes, bytearray)) else d)
    if isinstance(v, str):
        return ('str', v)
    if isinstance(v, Qty):
        if v.unit in (None, ''):
            return ('num', float(v.value))
        return ('qty', float(v.value), v.unit)
    if isinstance(v, (int, float)):
        return ('num', float(v))
    if isinstance(v, datetime.datetime):
        off = v.utcoffset()
        return ('datetime', v.astimezone(datetime.timezone.utc).replace(tzinfo=None), None if off is None else int(off.total_seconds()))
    if isinstance(v, datetime.time):
        return ('time', v.hour, v.minute, v.second, v.microsecond)
    if isinstance(v, datetime.date):
        return ('date', v.year, v.month, v.day)
    if isinstance(v, hszinc.Coordinate):
        return ('coord', float(v.latitude), float(v.longitude))
    if isinstance(v, list):
        return ('list', tuple(abs_value(x) for x in v))
    if isinstance(v, hszinc.Grid):
        return abs_grid(v)
    if isinstance(v, dict) or hasattr(v, 'items'):
        return ('dict', tuple((k, abs_value(x)) for k, x in v.items()))
    return ('other', repr(v))


def abs_grid(g):
    cols = list(g.column.keys())
    return ('grid', str(g.version), tuple((k, abs_value(v)) for k, v in g.metadata.items()),
            tuple((c, tuple((k, abs_value(v)) for k, v in g.column[c].items())) for c in cols),
            tuple(tuple(abs_value(r.get(c)) for c in cols) for r in g))


def same(a, b, tol=0.0):
    """structural equality of HVals; floats within tol (0 = exact, NaN equals NaN)"""
    if isinstance(a, float) and isinstance(b, float):
        if math.isnan(a) or math.isnan(b):
            return math.isnan(a) and math.isnan(b)
        if math.isinf(a) or math.isinf(b):
            return a == b
        return abs(a - b) <= tol
    if isinstance(a, tuple) and isinstance(b, tuple):
        if len(a) != len(b):
            return False
        if a and a[0] == 'grid' and b and b[0] == 'grid':
            # versions compare as versions (3.0 == 3.0.0)
            return _ver(a[1]) == _ver(b[1]) and all(same(x, y, tol) for x, y in zip(a[2:], b[2:]))
        return all(same(x, y, tol) for x, y in zip(a, b))
    return type(a) is type(b) and a == b


def _ver(s):
    nums = [int(p or 0) for p in s.split('.') if p.strip('0123456789') == ''] if all(p.isdigit() or p == '' for p in s.split('.')) else None
    if nums is None:
        return s
    while len(nums) > 1 and nums[-1] == 0:
        nums.pop()
    return tuple(nums)
