"""Python list model for C14 (written from the language reference, independent of hv.vc.ops):
a list is (n, arr); every operation is given as explicit SMT definitions + the exception it raises."""
import z3

I = z3.IntSort()


def norm(i, n):
    return z3.If(i < 0, i + n, i)


def in_range(i, n):
    j = norm(i, n)
    return z3.And(j >= 0, j < n)


def getitem(n, arr, i):
    return z3.Select(arr, norm(i, n))


def setitem(n, arr, i, v):
    return n, z3.Store(arr, norm(i, n), v)


def delitem(n, arr, i):
    p = norm(i, n)
    j = z3.Int('j!ld')
    return n - 1, z3.Lambda([j], z3.If(j < p, z3.Select(arr, j), z3.Select(arr, j + 1)))


def insert(n, arr, i, v):
    p = z3.If(i < 0, z3.If(i + n < 0, 0, i + n), z3.If(i > n, n, i))
    j = z3.Int('j!li')
    return n + 1, z3.Lambda([j], z3.If(j < p, z3.Select(arr, j), z3.If(j == p, v, z3.Select(arr, j - 1))))


def slice_bounds(n, lo, hi):
    def c(x, dflt):
        if x is None:
            return dflt
        t = z3.If(x < 0, x + n, x)
        return z3.If(t < 0, 0, z3.If(t > n, n, t))
    return c(lo, z3.IntVal(0)), c(hi, n)


def getslice(n, arr, lo, hi):
    a, b = slice_bounds(n, lo, hi)
    j = z3.Int('j!ls')
    return z3.If(b - a < 0, 0, b - a), z3.Lambda([j], z3.Select(arr, a + j))


def delslice(n, arr, lo, hi):
    a, b = slice_bounds(n, lo, hi)
    cnt = z3.If(b - a < 0, 0, b - a)
    j = z3.Int('j!lds')
    return n - cnt, z3.Lambda([j], z3.If(j < a, z3.Select(arr, j), z3.Select(arr, j + cnt)))


def reverse(n, arr):
    j = z3.Int('j!lr')
    return n, z3.Lambda([j], z3.Select(arr, n - 1 - j))


def equal(n1, a1, n2, a2):
    i = z3.Int('i!leq')
    return z3.And(n1 == n2, z3.ForAll([i], z3.Implies(z3.And(i >= 0, i < n1), z3.Select(a1, i) == z3.Select(a2, i))))
