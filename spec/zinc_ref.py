"""Reference ZINC grammar (oracle for C04 / C03), written from the Project Haystack ZINC specification (DESIGN.md Appendix A),
not from hszinc's reader or writer.  `hull` = what a writer may emit."""
from hv.lang import sre2nfa as S, automata as A

DIGITS = r'[0-9][0-9_]*'
DECIMAL = r'-?' + DIGITS + r'(\.' + DIGITS + r')?([eE][+-]?' + DIGITS + r')?'
UNIT = r'([a-zA-Z%_/$]|[\u0080-\U0010ffff])+'
STRCHAR = r'([^\x00-\x1f\\"]|\\[bfnrt\\"$]|\\u[0-9a-fA-F]{4})'
URICHAR = r'([^\x00-\x1f\\`]|\\[bfnrt:/?#\[\]@`\\&=;]|\\u[0-9a-fA-F]{4})'
STR = r'"' + STRCHAR + r'*"'
URI = r'`' + URICHAR + r'*`'
REFNAME = r'[a-zA-Z0-9_:\-.~]+'
DATE = r'\d{4}-\d{2}-\d{2}'
TIME = r'\d{2}:\d{2}:\d{2}(\.\d+)?'
TZNAME = r'(UTC|GMT([+-]\d+)?|[A-Z][a-zA-Z0-9_\-+]*)'
ID = r'[a-z][a-zA-Z0-9_]*'

HULL = {
    'null': r'N', 'marker': r'M', 'remove': r'R', 'na': r'NA', 'bool': r'[TF]',
    'num': r'(' + DECIMAL + r'|INF|-INF|NaN)',
    'qty': DECIMAL + UNIT,
    'str': STR, 'uri': URI,
    'ref0': r'@' + REFNAME, 'ref1': r'@' + REFNAME + r' ' + STR,
    'date': DATE, 'time': TIME,
    'datetime': DATE + r'T' + TIME + r'(Z|[+-]\d{2}:\d{2}) ' + TZNAME,
    'coord': r'C\(-?\d+(\.\d+)?,-?\d+(\.\d+)?\)',
    'xstr': r'[A-Za-z][a-zA-Z0-9_]*\(' + STR + r'\)',
    'bin2': r'Bin\([\x20-\x27\x2a-\x7f]*\)',          # ver 2.0
    'bin3': r'Bin\(' + STR + r'\)',                    # ver 3.0: an XStr named Bin
}


def hull_language(kind):
    return S.body(HULL[kind])


STR_ESC = {'b': 8, 'f': 12, 'n': 10, 'r': 13, 't': 9, '\\': 92, '"': 34, '$': 36}
URI_ESC = dict({'b': 8, 'f': 12, 'n': 10, 'r': 13, 't': 9}, **{c: ord(c) for c in ':/?#[]@`\\&=;'})


# ---------------------------------------------------------------- executable reference reader (plain Python; shares no code with hszinc)
import datetime as _dt
import re as _re


class BadZinc(ValueError):
    pass


class _P(object):
    def __init__(self, text, ver3):
        self.t, self.i, self.ver3 = text, 0, ver3

    def peek(self, n=1):
        return self.t[self.i:self.i + n]

    def eat(self, s):
        if not self.t.startswith(s, self.i):
            raise BadZinc('expected %r at %d in %r' % (s, self.i, self.t[max(0, self.i - 10):self.i + 20]))
        self.i += len(s)

    def rx(self, pattern):
        m = _re.compile(pattern).match(self.t, self.i)
        if not m:
            return None
        self.i = m.end()
        return m

    def quoted(self, q, esc):
        self.eat(q)
        out = []
        while True:
            if self.i >= len(self.t):
                raise BadZinc('unterminated literal')
            c = self.t[self.i]
            if c == q:
                self.i += 1
                return ''.join(out)
            if c == '\\':
                e = self.t[self.i + 1:self.i + 2]
                if e == 'u':
                    h = self.t[self.i + 2:self.i + 6]
                    if not _re.fullmatch(r'[0-9a-fA-F]{4}', h):
                        raise BadZinc('bad \\u escape')
                    out.append(chr(int(h, 16)))
                    self.i += 6
                elif e in esc:
                    out.append(chr(esc[e]))
                    self.i += 2
                else:
                    raise BadZinc('illegal escape \\%s' % e)
            elif ord(c) < 0x20:
                raise BadZinc('raw control character U+%04X inside a literal' % ord(c))
            else:
                out.append(c)
                self.i += 1

    def val(self):
        t = self
        c = t.peek()
        if c == '"':
            return ('str', t.quoted('"', STR_ESC))
        if c == '`':
            return ('uri', t.quoted('`', URI_ESC))
        if c == '@':
            t.i += 1
            m = t.rx(REFNAME)
            if not m:
                raise BadZinc('empty ref')
            if t.peek(2) == ' "':
                t.i += 1
                return ('ref', m.group(0), t.quoted('"', STR_ESC))
            return ('ref', m.group(0), None)
        if c == '[':
            if not t.ver3:
                raise BadZinc('list under 2.0')
            t.i += 1
            t.rx(r' *')
            items = []
            while t.peek() != ']':
                items.append(t.val())
                t.rx(r' *')
                if t.peek() == ',':
                    t.i += 1
                    t.rx(r' *')
                elif t.peek() != ']':
                    raise BadZinc('bad list')
            t.i += 1
            return ('list', tuple(items))
        if c == '{':
            if not t.ver3:
                raise BadZinc('dict under 2.0')
            t.i += 1
            t.rx(r' *')
            items = []
            while t.peek() != '}':
                m = t.rx(ID)
                if not m:
                    raise BadZinc('bad dict tag')
                if t.peek() == ':':
                    t.i += 1
                    items.append((m.group(0), t.val()))
                else:
                    items.append((m.group(0), ('marker',)))
                t.rx(r' *')
            t.i += 1
            return ('dict', tuple(items))
        if t.peek(2) == '<<':
            if not t.ver3:
                raise BadZinc('nested grid under 2.0')
            t.i += 2
            g = t.grid(nested=True)
            t.eat('>>')
            return g
        m = t.rx(r'C\((-?\d+(?:\.\d+)?),(-?\d+(?:\.\d+)?)\)')
        if m:
            return ('coord', float(m.group(1)), float(m.group(2)))
        m = t.rx(r'(\d{4})-(\d{2})-(\d{2})T(\d{2}):(\d{2}):(\d{2})(\.\d+)?(Z|z|[+-]\d{2}:\d{2})( ' + TZNAME + r')?')
        if m:
            y, mo, d, hh, mi, ss = (int(m.group(k)) for k in range(1, 7))
            us = int((m.group(7) or '.0')[1:7].ljust(6, '0'))
            off = m.group(8)
            secs = 0 if off in 'Zz' else (1 if off[0] == '+' else -1) * (int(off[1:3]) * 3600 + int(off[4:6]) * 60)
            return ('datetime', _dt.datetime(y, mo, d, hh, mi, ss, us) - _dt.timedelta(seconds=secs), secs)
        m = t.rx(r'(\d{4})-(\d{2})-(\d{2})')
        if m:
            return ('date', int(m.group(1)), int(m.group(2)), int(m.group(3)))
        m = t.rx(r'(\d{2}):(\d{2}):(\d{2})(\.(\d+))?')
        if m:
            return ('time', int(m.group(1)), int(m.group(2)), int(m.group(3)), int((m.group(5) or '0')[:6].ljust(6, '0')))
        m = t.rx(r'(INF|-INF|NaN)')
        if m:
            return ('num', {'INF': float('inf'), '-INF': float('-inf'), 'NaN': float('nan')}[m.group(1)])
        m = t.rx(DECIMAL)
        if m:
            v = float(m.group(0).replace('_', ''))
            u = t.rx(UNIT)
            return ('qty', v, u.group(0)) if u else ('num', v)
        if not t.ver3:
            m = t.rx(r'Bin\(([\x20-\x27\x2a-\x7f]*)\)')
            if m:
                return ('bin', m.group(1))
        m = t.rx(r'([A-Za-z][a-zA-Z0-9_]*)\((?=")')
        if m:
            if not t.ver3:
                raise BadZinc('xstr under 2.0')
            data = t.quoted('"', STR_ESC)
            t.eat(')')
            name = m.group(1)
            if name == 'Bin':
                return ('bin', data)
            if name == 'hex':
                return ('xstr', name, bytes.fromhex(data))
            if name == 'b64':
                import base64
                return ('xstr', name, base64.b64decode(data))
            return ('xstr', name, data)
        for lit, v in (('NA', ('na',)), ('N', ('null',)), ('M', ('marker',)), ('R', ('remove',)), ('T', ('bool', True)), ('F', ('bool', False))):
            if t.t.startswith(lit, t.i) and (lit != 'NA' or t.ver3) and not _re.match(r'[A-Za-z0-9_(]', t.t[t.i + len(lit):t.i + len(lit) + 1] or ' '):
                t.i += len(lit)
                return v
        raise BadZinc('no value at %d: %r' % (t.i, t.t[t.i:t.i + 20]))

    def meta(self, stop):
        items = []
        while self.peek() == ' ':
            self.rx(r' +')
            m = self.rx(ID)
            if not m:
                break
            if self.peek() == ':':
                self.i += 1
                items.append((m.group(0), self.val()))
            else:
                items.append((m.group(0), ('marker',)))
        return tuple(items)

    def nl(self):
        if not self.rx(r' *\r?\n'):
            raise BadZinc('expected end of line at %d: %r' % (self.i, self.t[self.i:self.i + 20]))

    def grid(self, nested=False):
        self.eat('ver:')
        ver = self.quoted('"', STR_ESC)
        ver3_outer = self.ver3
        self.ver3 = not ver.startswith('2')
        meta = self.meta('\n')
        self.nl()
        cols = []
        while True:
            m = self.rx(ID)
            if not m:
                raise BadZinc('bad column name at %d' % self.i)
            cols.append((m.group(0), self.meta(',')))
            if self.rx(r' *, *') is None:
                break
        self.nl()
        rows = []
        while self.i < len(self.t) and not (nested and self.t.startswith('>>', self.i)) and self.peek() not in ('\n', '\r'):
            cells = []
            while True:
                if self.peek() in (',', '\n', '\r', '') or (self.peek() == ' ' and _re.match(r' *[,\r\n]', self.t[self.i:])):
                    cells.append(('null',))
                else:
                    cells.append(self.val())
                if self.rx(r' *, *') is None:
                    break
            if len(cells) != len(cols):
                raise BadZinc('row has %d cells for %d columns' % (len(cells), len(cols)))
            rows.append(tuple(cells))
            if self.i >= len(self.t):
                break
            self.nl()
        g = ('grid', ver, meta, tuple(cols), tuple(rows))
        self.ver3 = ver3_outer
        return g


def decode_scalar(text, ver3=True):
    p = _P(text, ver3)
    v = p.val()
    if p.i != len(text):
        raise BadZinc('trailing text %r' % text[p.i:p.i + 20])
    return v


def decode_document(text):
    """-> list of grids"""
    text = _re.sub(r'(\r?\n)+\Z', '\n', text)
    out = []
    p = _P(text, True)
    while p.i < len(text):
        out.append(p.grid())
        while p.i < len(text) and p.peek() in '\r\n':
            p.i += 1
    return out
