"""Oracle for C18, written from the property statement (not from version.py):
a version is (nums: non-empty sequence of naturals, extra: optional text); numeric groups are
compared after zero-padding, then the suffix, a missing suffix sorting before any suffix and
suffixes by code-point order (an uninterpreted strict total order on abstract strings: A-bi-strorder).

Two definitions of the same relation: SMT (for proof) and plain Python (for replay / bounded runs).
"""
import re
import z3

from hv.vc import smt

key_lt = z3.Function('key_lt', smt.KEY, smt.KEY, z3.BoolSort())


def strorder_axioms():
    x, y, z = z3.Consts('sx sy sz', smt.KEY)
    return [z3.ForAll([x], z3.Not(key_lt(x, x))),
            z3.ForAll([x, y], z3.Or(x == y, key_lt(x, y), key_lt(y, x))),
            z3.ForAll([x, y], z3.Not(z3.And(key_lt(x, y), key_lt(y, x)))),
            z3.ForAll([x, y, z], z3.Implies(z3.And(key_lt(x, y), key_lt(y, z)), key_lt(x, z)))]


class V(object):
    """Abstract version for the SMT side: ln, arr (Array Int Int), extra: z3 Key term or None."""

    def __init__(self, ln, arr, extra):
        self.ln, self.arr, self.extra = ln, arr, extra

    def pad(self, j):
        return z3.If(j < self.ln, z3.Select(self.arr, j), 0)

    def wf(self):
        j = z3.Int('j!wf')
        return z3.And(self.ln >= 1, z3.ForAll([j], z3.Implies(z3.And(j >= 0, j < self.ln), z3.Select(self.arr, j) >= 0)))


_n = [0]


def _fresh(base):
    _n[0] += 1
    return z3.Int('%s!%d' % (base, _n[0]))


def LTnum(a, b):
    w, j = _fresh('w'), _fresh('j')
    return z3.Exists([w], z3.And(w >= 0, z3.ForAll([j], z3.Implies(z3.And(j >= 0, j < w), a.pad(j) == b.pad(j))),
                                 a.pad(w) < b.pad(w)))


def EQnum(a, b):
    j = _fresh('j')
    return z3.ForAll([j], z3.Implies(j >= 0, a.pad(j) == b.pad(j)))


def ex_lt(p, q):
    if p is None:
        return z3.BoolVal(q is not None)
    if q is None:
        return z3.BoolVal(False)
    return key_lt(p, q)


def ex_eq(p, q):
    if p is None or q is None:
        return z3.BoolVal(p is None and q is None)
    return p == q


def LT(a, b):
    return z3.Or(LTnum(a, b), z3.And(EQnum(a, b), ex_lt(a.extra, b.extra)))


def EQ(a, b):
    return z3.And(EQnum(a, b), ex_eq(a.extra, b.extra))


def cmp_post(r, a, b):
    return z3.Or(z3.And(r == -1, LT(a, b)), z3.And(r == 0, EQ(a, b)), z3.And(r == 1, LT(b, a)))


# ---------------------------------------------------------------- plain Python oracle
_VER = re.compile(r'^([0-9][0-9.]*)(.*)$', re.S)


def py_parse(s):
    """Reference reading of a version string: leading digits-and-dots, then the rest (the suffix).
    Returns (nums tuple, extra or None) or None if it does not start with a digit."""
    m = _VER.match(s)
    if not m:
        return None
    nums = tuple(int(p) if p else 0 for p in m.group(1).split('.'))
    extra = m.group(2) or None
    return nums, extra


def py_cmp(a, b):
    (na, ea), (nb, eb) = a, b
    n = max(len(na), len(nb))
    pa = na + (0,) * (n - len(na))
    pb = nb + (0,) * (n - len(nb))
    if pa != pb:
        return -1 if pa < pb else 1
    if ea == eb:
        return 0
    if ea is None:
        return -1
    if eb is None:
        return 1
    return -1 if ea < eb else 1
