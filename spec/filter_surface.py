"""Reference surface syntax of Haystack filters (DESIGN.md Appendix C), as regular languages unrolled to a parenthesis depth,
with the parse structure written into the text as marks - written from the specification, not from hszinc.grid_filter.

filter := or ; or := and ("or" and)* ; and := term ("and" term)* ;
term   := "(" filter ")" | "not" path | path cmpOp val | path ;  path := name ("->" name)* ;
val    := bool | ref | str | uri | number | date | time              (the literal kinds of the Haystack filter grammar)
Keywords are whole words: a name may not be a keyword.  Blanks (space, tab, line ends) may surround every token; they are
required where two word tokens would otherwise touch.

Marks (the structure the reader must find):  ‹@parens›/‹@missing›/‹@cmp›/‹@has› in front of every term (for a term that follows a
keyword the mark comes directly after the keyword, before the blanks - the convention of a recursive-descent reader that skips
blanks when it enters an alternative); ‹@v:kind› in front of every literal; ‹<and› in front of every and-level group (so `a or b and c` must be read ‹<and›a or ‹<and›b and c)."""
from hv.lang import sre2nfa as S, automata as A
from hv.lang.charset import CS
from spec import zinc_surface as ZS

WS = r'[ \t\n\r]*'
WS1 = r'[ \t\n\r]+'
KEYWORDS = ('and', 'or', 'not', 'true', 'false')
ID = r'[a-z][a-zA-Z0-9_]*'
CMPOPS = ('==', '!=', '<=', '>=', '<', '>')
VAL = {
    'bool': r'(true|false)',
    'ref': r'@' + ZS.REFNAME,
    'str': ZS.STR,
    'uri': ZS.URI,
    # a unit never begins with e/E (exponent) or "_" (digit separator): the grammar's own maximal munch would read them otherwise
    'number': r'(-?[0-9][0-9_]*(\.[0-9][0-9_]*)?([eE][+-]?[0-9][0-9_]*)?(([a-df-zA-DF-Z%/$]|[\u0080-\U0010ffff])([a-zA-Z%_/$]|[\u0080-\U0010ffff])*)?|INF|-INF|NaN)',
    'date': ZS.DATE,
    'time': ZS.TIME.replace(r'(\.[0-9]+)?', r'(\.[0-9]{1,6})?'),
}


def rx(p):
    return S.body(p)


def name():
    """identifiers that are not keywords"""
    from hv.vc.shapes import _intersect_complement
    return _intersect_complement(rx(ID), A.union(*[A.lit(k) for k in KEYWORDS]))


def path():
    n = name()
    return A.concat(n, A.star(A.concat(rx(WS), A.lit('->'), rx(WS), n)))


def val(marks=True):
    """a literal after optional blanks (the kind mark directly in front of the literal)"""
    alts = []
    for k, p in VAL.items():
        alts.append(A.concat(rx(WS), A.mark('@v:' + k), rx(p)) if marks else A.concat(rx(WS), rx(p)))
    return A.union(*alts)


def term(depth, marks=True, lead=None):
    """lead: NFA of the blanks that come between the term's mark and its text (None: none)"""
    def m(tag, body):
        parts = []
        if marks:
            parts.append(A.mark(tag))
        if lead is not None:
            parts.append(lead)
        parts.append(body)
        return A.concat(*parts)
    p = path()
    alts = [m('@missing', A.concat(A.lit('not'), rx(WS1), p)),
            m('@cmp', A.concat(p, rx(WS), A.union(*[A.lit(o) for o in CMPOPS]), val(marks))),
            m('@has', p)]
    if depth > 0:
        alts.append(m('@parens', A.concat(A.lit('('), rx(WS), filt(depth - 1, marks), rx(WS), A.lit(')'))))
    return A.union(*alts)


def and_group(depth, marks=True):
    """one and-level group, opened by the mark <and (no closing mark: where the blanks after a group end up is an artefact
    of the reader; the opening marks and the term marks determine the structure)"""
    first = term(depth, marks)
    more = term(depth, marks, lead=rx(WS1))
    body = A.concat(first, A.star(A.concat(rx(WS1), A.lit('and'), more)))
    return A.concat(A.mark('<and'), body) if marks else body


def filt(depth, marks=True):
    g = and_group(depth, marks)
    return A.concat(g, A.star(A.concat(rx(WS1), A.lit('or'), rx(WS1), g)))


def document(depth, marks=True):
    return A.concat(rx(WS), filt(depth, marks), rx(WS))


# ---------------------------------------------------------------------------------------------------------------------
# Upper bound of what may be accepted as a literal: the seven kinds above plus the ZINC scalar kinds and collections hszinc
# documents as an extension, with blanks tolerated between the tokens of a composite literal.  Deliberately generous about
# blanks and digits (the leniencies listed in zinc_surface.LENIENT); what it does NOT contain is any text that is not a
# spelling of a value at all - the purpose of the bound ("a token that is not a valid filter is rejected").
def lenient_kinds():
    k = dict(ZS.kinds(True, lenient=True))
    k.update(ZS.kinds(False, lenient=True))            # Bin(...) of 2.0 as well
    k['bool'] = r'(true|false)'
    d = r'[0-9_]+'          # digit runs may hold '_' anywhere; float() rejects the malformed ones afterwards (ValueError)
    dec = r'-?' + d + r'(\.' + d + r')?([eE][+-]?' + d + r')?'
    k['number'] = r'(' + dec + r'|INF|-INF|NaN)'
    k['quantity'] = dec + ZS.UNIT
    W = WS
    k['ref'] = r'@' + W + r'[a-zA-Z0-9_:\-.~\d]*(' + W + ZS.STR + r')?'
    k['datetime'] = ZS.U_DATE + r'[Tt]' + ZS.U_TIME + r'([Zz]|[+-]\d{2}:\d{2})?(' + W + r'((UTC|GMT)([+-]\d+|0)?|[A-Z][a-zA-Z0-9_\-]*))?'
    cdeg = r'-?(' + ZS.DIGITS + r')?(\.' + ZS.DIGITS + r')?'
    k['coord'] = r'C\(' + W + cdeg + W + r',' + W + cdeg + W + r'\)'
    k['xstr'] = r'[a-zA-Z0-9_]+' + W + r'\(' + W + ZS.STR + W + r'\)'
    return k


def lenient_value(depth):
    sc = A.union(*[rx(p) for p in lenient_kinds().values()])
    if depth <= 0:
        inner = None
    else:
        inner = lenient_value(depth - 1)
    W = rx(WS)
    comma = A.concat(W, A.lit(','), W)
    if inner is None:
        lst = A.concat(A.lit('['), W, A.opt(comma), A.lit(']'))
        tag = rx(ID)
    else:
        lst = A.concat(A.lit('['), W, A.opt(A.concat(inner, A.star(A.concat(comma, inner)))), A.opt(comma), W, A.lit(']'))
        tag = A.concat(rx(ID), A.opt(A.concat(W, A.lit(':'), W, inner)))
    dct = A.concat(A.lit('{'), W, A.opt(A.concat(tag, A.star(A.concat(W, tag)))), W, A.lit('}'))
    return A.union(sc, lst, dct)


def lenient_document(depth, val_depth=1):
    """upper bound of the accepted filters: the reference structure with any blanks between tokens, any identifier as a name
    and any lenient literal as a value (precision - keywords, required blanks, structure - is the job of document())"""
    W = rx(WS)
    p = A.concat(rx(ID), A.star(A.concat(W, A.lit('->'), W, rx(ID))))
    v = lenient_value(val_depth)

    def filt_(d):
        alts = [A.concat(A.lit('not'), W, p), A.concat(p, W, A.union(*[A.lit(o) for o in CMPOPS]), W, v), p]
        if d > 0:
            alts.append(A.concat(A.lit('('), W, filt_(d - 1), W, A.lit(')')))
        t = A.union(*alts)
        g = A.concat(t, A.star(A.concat(W, A.lit('and'), W, t)))
        return A.concat(g, A.star(A.concat(W, A.lit('or'), W, g)))
    return A.concat(W, filt_(depth), W)
