"""Reference surface syntax of Haystack filters (DESIGN.md Appendix C), as regular languages unrolled to a parenthesis depth,
with the parse structure written into the text as marks - written from the specification, not from hszinc.grid_filter.

filter := or ; or := and ("or" and)* ; and := term ("and" term)* ;
term   := "(" filter ")" | "not" path | path cmpOp val | path ;  path := name ("->" name)* ;
val    := bool | ref | str | uri | number | date | time              (the literal kinds of the Haystack filter grammar)
Keywords are whole words: a name may not be a keyword.  Blanks (space, tab, line ends) may surround every token; they are
required where two word tokens would otherwise touch.

Marks (the structure the reader must find):  ‹@parens›/‹@missing›/‹@cmp›/‹@has› in front of every term (for a term that follows a
keyword the mark comes directly after the keyword, before the blanks - the convention of a recursive-descent reader that skips
blanks when it enters an alternative); ‹@v:kind› in front of every literal; ‹<and› in front of every and-level group (so `a or b and c` must be read ‹<and›a or ‹<and›b and c)."""
from hv.lang import sre2nfa as S, automata as A
from hv.lang.charset import CS
from spec import zinc_surface as ZS

WS = r'[ \t\n\r]*'
WS1 = r'[ \t\n\r]+'
KEYWORDS = ('and', 'or', 'not', 'true', 'false')
ID = r'[a-z][a-zA-Z0-9_]*'
CMPOPS = ('==', '!=', '<=', '>=', '<', '>')
VAL = {
    'bool': r'(true|false)',
    'ref': r'@' + ZS.REFNAME,
    'str': ZS.STR,
    'uri': ZS.URI,
    # a unit never begins with e/E (exponent) or "_" (digit separator): the grammar's own maximal munch would read them otherwise
    'number': r'-?[0-9][0-9_]*(\.[0-9][0-9_]*)?([eE][+-]?[0-9][0-9_]*)?(([a-df-zA-DF-Z%/$]|[\u0080-\U0010ffff])([a-zA-Z%_/$]|[\u0080-\U0010ffff])*)?',
    'date': ZS.DATE,
    'time': ZS.TIME.replace(r'(\.[0-9]+)?', r'(\.[0-9]{1,6})?'),
}


def rx(p):
    return S.body(p)


def name():
    """identifiers that are not keywords"""
    from hv.vc.shapes import _intersect_complement
    return _intersect_complement(rx(ID), A.union(*[A.lit(k) for k in KEYWORDS]))


def path():
    n = name()
    return A.concat(n, A.star(A.concat(rx(WS), A.lit('->'), rx(WS), n)))


def val(marks=True):
    """a literal after optional blanks (the kind mark directly in front of the literal)"""
    alts = []
    for k, p in VAL.items():
        alts.append(A.concat(rx(WS), A.mark('@v:' + k), rx(p)) if marks else A.concat(rx(WS), rx(p)))
    return A.union(*alts)


def term(depth, marks=True, lead=None):
    """lead: NFA of the blanks that come between the term's mark and its text (None: none)"""
    def m(tag, body):
        parts = []
        if marks:
            parts.append(A.mark(tag))
        if lead is not None:
            parts.append(lead)
        parts.append(body)
        return A.concat(*parts)
    p = path()
    alts = [m('@missing', A.concat(A.lit('not'), rx(WS1), p)),
            m('@cmp', A.concat(p, rx(WS), A.union(*[A.lit(o) for o in CMPOPS]), val(marks))),
            m('@has', p)]
    if depth > 0:
        alts.append(m('@parens', A.concat(A.lit('('), rx(WS), filt(depth - 1, marks), rx(WS), A.lit(')'))))
    return A.union(*alts)


def and_group(depth, marks=True):
    """one and-level group, opened by the mark <and (no closing mark: where the blanks after a group end up is an artefact
    of the reader; the opening marks and the term marks determine the structure)"""
    first = term(depth, marks)
    more = term(depth, marks, lead=rx(WS1))
    body = A.concat(first, A.star(A.concat(rx(WS1), A.lit('and'), more)))
    return A.concat(A.mark('<and'), body) if marks else body


def filt(depth, marks=True):
    g = and_group(depth, marks)
    return A.concat(g, A.star(A.concat(rx(WS1), A.lit('or'), rx(WS1), g)))


def document(depth, marks=True):
    return A.concat(rx(WS), filt(depth, marks), rx(WS))
