"""Reference ordered-map model for C16, written from the property statement and add_item's docstring.

An ordered map is an association list with unique keys.
  store(k, v)                      : existing key -> value replaced, position kept; new key -> appended
  add(k, v, index=i)   (i >= 0)    : k ends at position min(i, last) of the result; others keep their relative order
  add(k, v, pos_key=P, after=b)    : k lands immediately before / after P; others keep their relative order
  rejected (index and pos_key both given -> ValueError; unknown P -> KeyError; existing k with replace=False -> KeyError)
                                   : map unchanged
  delete(k), pop_at(i), reverse(), sort(): as for a Python list of keys + dict of values
  append(k, v=MARKER, replace) / extend(items): store each item in turn (positions kept on replace)

SMT side: state M = (n, ord, dom, val) + ghost pos (inverse of ord) used only to state well-formedness.
Python side (`PyOMap`): the executable oracle used by replays and the bounded stand-in.
"""
import z3

from hv.vc import smt

I = z3.IntSort()


class M(object):
    def __init__(self, n, ord_, dom, val, pos=None):
        self.n, self.ord, self.dom, self.val, self.pos = n, ord_, dom, val, pos

    def wf(self):
        i = z3.Int('i!wf')
        k = z3.Const('k!wf', smt.KEY)
        p = self.pos
        return z3.And(self.n >= 0,
                      z3.ForAll([i], z3.Implies(z3.And(i >= 0, i < self.n),
                                                z3.And(z3.Select(p, z3.Select(self.ord, i)) == i, z3.Select(self.dom, z3.Select(self.ord, i))))),
                      z3.ForAll([k], z3.Implies(z3.Select(self.dom, k),
                                                z3.And(z3.Select(p, k) >= 0, z3.Select(p, k) < self.n,
                                                       z3.Select(self.ord, z3.Select(p, k)) == k))))


def fresh_M(ctx, name):
    n = ctx.fresh(name + '_n', I)
    o = ctx.fresh(name + '_ord', z3.ArraySort(I, smt.KEY))
    d = ctx.fresh(name + '_dom', z3.ArraySort(smt.KEY, z3.BoolSort()))
    v = ctx.fresh(name + '_val', z3.ArraySort(smt.KEY, smt.VAL))
    p = ctx.fresh(name + '_pos', z3.ArraySort(smt.KEY, I))
    return M(n, o, d, v, p)


def same(a, b):
    """state equality (the ghost pos is not part of the state)"""
    i = z3.Int('i!same')
    k = z3.Const('k!same', smt.KEY)
    return z3.And(a.n == b.n,
                  z3.ForAll([i], z3.Implies(z3.And(i >= 0, i < a.n), z3.Select(a.ord, i) == z3.Select(b.ord, i))),
                  z3.ForAll([k], z3.Select(a.dom, k) == z3.Select(b.dom, k)),
                  z3.ForAll([k], z3.Implies(z3.Select(a.dom, k), z3.Select(a.val, k) == z3.Select(b.val, k))))


def remove(m, k):
    """requires dom[k]"""
    p = z3.Select(m.pos, k)
    j = z3.Int('j!rm')
    x = z3.Const('x!rm', smt.KEY)
    o = z3.Lambda([j], z3.If(j < p, z3.Select(m.ord, j), z3.Select(m.ord, j + 1)))
    pos = z3.Lambda([x], z3.If(z3.Select(m.pos, x) > p, z3.Select(m.pos, x) - 1, z3.Select(m.pos, x)))
    return M(m.n - 1, o, z3.Store(m.dom, k, False), m.val, pos)


def insert_at(m, k, v, p):
    """requires not dom[k], 0 <= p <= n"""
    j = z3.Int('j!ins')
    x = z3.Const('x!ins', smt.KEY)
    o = z3.Lambda([j], z3.If(j < p, z3.Select(m.ord, j), z3.If(j == p, k, z3.Select(m.ord, j - 1))))
    pos = z3.Lambda([x], z3.If(x == k, p, z3.If(z3.Select(m.pos, x) >= p, z3.Select(m.pos, x) + 1, z3.Select(m.pos, x))))
    return M(m.n + 1, o, z3.Store(m.dom, k, True), z3.Store(m.val, k, v), pos)


def clamp(i, n):
    return z3.If(i > n, n, i)


def store(m, k, v, existing):
    if existing:
        return M(m.n, m.ord, m.dom, z3.Store(m.val, k, v), m.pos)
    return insert_at(m, k, v, m.n)


def add(m, k, v, existing, mode, arg=None):
    """mode: 'none' | 'index' (arg = i >= 0) | 'before' | 'after' (arg = P, P present, P != k)"""
    if mode == 'none':
        return store(m, k, v, existing)
    base = remove(m, k) if existing else m
    if mode == 'index':
        return insert_at(base, k, v, clamp(arg, base.n))
    q = z3.Select(base.pos, arg)
    return insert_at(base, k, v, q if mode == 'before' else q + 1)


def reverse(m):
    j = z3.Int('j!rev')
    x = z3.Const('x!rev', smt.KEY)
    return M(m.n, z3.Lambda([j], z3.Select(m.ord, m.n - 1 - j)), m.dom, m.val,
             z3.Lambda([x], m.n - 1 - z3.Select(m.pos, x)))


# sort: A-bi-sort -- list.sort(key=f, reverse=r) yields SORT(old, f, r): a permutation (bijection perm / inverse) of the old list that
# depends on the list, the key function (0: none) and the reverse flag and on nothing else; no relation between the results for different
# (f, r) is assumed (in particular sort(reverse=True) is NOT reverse(sort()): list.sort is stable in both directions)
SORT_perm = z3.Function('sort_perm', z3.ArraySort(I, smt.KEY), I, I, z3.BoolSort(), I, I)       # (ord, n, keyfn, reverse, i) -> old index
SORT_inv = z3.Function('sort_inv', z3.ArraySort(I, smt.KEY), I, I, z3.BoolSort(), I, I)


def _b(x):
    return z3.BoolVal(x) if isinstance(x, bool) else x


def sort_axioms(ordarr, n, fid=0, rev=False):
    i = z3.Int('i!sp')
    rev = _b(rev)
    P = lambda x: SORT_perm(ordarr, n, fid, rev, x)
    Q = lambda x: SORT_inv(ordarr, n, fid, rev, x)
    ax = [z3.ForAll([i], z3.Implies(z3.And(i >= 0, i < n), z3.And(P(i) >= 0, P(i) < n, Q(P(i)) == i))),
          z3.ForAll([i], z3.Implies(z3.And(i >= 0, i < n), z3.And(Q(i) >= 0, Q(i) < n, P(Q(i)) == i)))]
    if isinstance(fid, int) and fid == 0:
        # without a key function the keys themselves are compared; they are pairwise distinct (wf) and strictly totally ordered,
        # so there are no ties and the descending order is the ascending order read backwards
        T_, F_ = z3.BoolVal(True), z3.BoolVal(False)
        ax.append(z3.ForAll([i], z3.Implies(z3.And(i >= 0, i < n), SORT_perm(ordarr, n, 0, T_, i) == SORT_perm(ordarr, n, 0, F_, n - 1 - i))))
    return ax


def sorted_arr(ordarr, n, fid=0, rev=False):
    j = z3.Int('j!srt')
    return z3.Lambda([j], z3.Select(ordarr, SORT_perm(ordarr, n, fid, _b(rev), j)))


def sort(m, fid=0, rev=False):
    x = z3.Const('x!srt', smt.KEY)
    return M(m.n, sorted_arr(m.ord, m.n, fid, rev), m.dom, m.val, z3.Lambda([x], SORT_inv(m.ord, m.n, fid, _b(rev), z3.Select(m.pos, x))))


# ------------------------------------------------------------------ executable oracle
class PyOMap(object):
    def __init__(self, items=()):
        self.items = list(items)      # list of [k, v]

    def keys(self):
        return [k for k, _ in self.items]

    def _idx(self, k):
        for i, (kk, _) in enumerate(self.items):
            if kk == k:
                return i
        return None

    def store(self, k, v):
        i = self._idx(k)
        if i is None:
            self.items.append([k, v])
        else:
            self.items[i][1] = v

    def add(self, k, v, after=False, index=None, pos_key=None, replace=True):
        """returns None or the name of the exception the statement prescribes (map unchanged)."""
        if index is not None and pos_key is not None:
            return 'ValueError'
        if pos_key is not None and self._idx(pos_key) is None:
            return 'KeyError'
        i = self._idx(k)
        if i is not None and not replace:
            return 'KeyError'
        if index is None and pos_key is None:
            self.store(k, v)
            return None
        if pos_key is not None and pos_key == k:
            return 'unspecified'
        rest = [it for it in self.items if it[0] != k]
        if pos_key is not None:
            q = [kk for kk, _ in rest].index(pos_key)
            p = q + 1 if after else q
        else:
            p = index + 1 if after else index
        rest.insert(min(p, len(rest)), [k, v])
        self.items = rest
        return None

    def delete(self, k):
        i = self._idx(k)
        if i is None:
            return 'KeyError'
        del self.items[i]
        return None
