"""Symbolic Haystack values for the writers/readers (C02, C04, C05, C06, C08, C12) and the ledger facts
about how CPython spells them (A-fl floats, A-tz dates/times, A-bi str/int)."""
import z3

from hv.vc import smt
from hv.vc.values import SObj, SVal, SKey, ClassRef, Builtin, AbstractCallable, PyExc, OutOfSubset
from hv.vc.shapes import Shape, Lit, Field, SStrPlugin, to_shape
from hv.lang import automata as A, sre2nfa as S
from hv.lang.charset import CS
from hv.frontend import extract
from contracts import kinds as KD

V = smt.VAL
DMOD = 'hszinc.datatypes'


class TaggedShape(Shape):
    """an instance of a str subclass (Uri, Bin): the text as a Shape + the class name"""

    def __init__(self, parts, pycls, cons=(), neg=()):
        Shape.__init__(self, parts, cons, neg)
        self.pycls = pycls


# ---- languages (ledger) -------------------------------------------------------------------------------------
def L(rx):
    return S.body(rx)


SIGMA = A.sigma_star
LANG = {
    'text': lambda: SIGMA(),
    'fmt6': lambda: L(r'-?[0-9]+\.[0-9]{6}'),                                            # A-fl(3): '%f' % finite float
    'repr_float': lambda: L(r'-?([0-9]+\.[0-9]+|[0-9]+(\.[0-9]+)?e[+-][0-9]+)'),                # A-fl(1): repr/str of a finite float
    'repr_int': lambda: L(r'-?[0-9]+'),                                              # A-fl(5)
    'iso_date': lambda: L(r'[0-9]{4}-[0-9]{2}-[0-9]{2}'),                                  # A-tz: date.isoformat(), years 1000..9999 zero padded
    'iso_time': lambda: L(r'[0-9]{2}:[0-9]{2}:[0-9]{2}(\.[0-9]{6})?'),                        # A-tz: naive time.isoformat()
    'iso_datetime': lambda: L(r'[0-9]{4}-[0-9]{2}-[0-9]{2}T[0-9]{2}:[0-9]{2}:[0-9]{2}(\.[0-9]{6})?[+-][0-9]{2}:[0-9]{2}'),   # aware datetime.isoformat(), whole-minute offset (pytz / iso8601 tzinfo)
    'refname': lambda: L(r'[a-zA-Z0-9_:\-.~]+'),
    'unit': lambda: L(r'([a-zA-Z%_/$]|[\u0080-￿])+'),
    'xtype': lambda: L(r'[A-Z][a-zA-Z0-9_]*'),
    'hex': lambda: L(r'([0-9a-f]{2})*'),
    'b64': lambda: L(r'([A-Za-z0-9+/]{4})*([A-Za-z0-9+/]{2}==|[A-Za-z0-9+/]{3}=)?'),
    'id': lambda: L(r'[a-z][a-zA-Z0-9_]*'),
    'bintext': lambda: L(r'[\x20-\x27\x2a-\x7f]*'),
}
_tz = [None]


def tzname_lang():
    if _tz[0] is None:
        m = extract.module('hszinc.zoneinfo')
        import ast
        names = None
        for node in ast.walk(m.tree):
            if isinstance(node, ast.Assign) and any(isinstance(t, ast.Name) and t.id == 'HAYSTACK_TIMEZONES' for t in node.targets):
                v = node.value      # """...""".split('\n')
                if isinstance(v, ast.Call) and isinstance(v.func, ast.Attribute) and isinstance(v.func.value, ast.Constant):
                    names = v.func.value.value.split('\n')
        if not names:
            raise OutOfSubset('HAYSTACK_TIMEZONES is not a literal list')
        _tz[0] = A.union(*[A.lit(n) for n in names if n])
    return _tz[0]


def field(name, kind, den=None):
    lang = tzname_lang() if kind == 'tzname' else LANG[kind]()
    return Field(name, lang, kind, den)


class NumInfo(object):
    """what a float/int SVal is (set by the proof script per path): finite float, int, inf, -inf, nan"""

    def __init__(self):
        self.cls = {}

    def set(self, term, c):
        self.cls[str(term)] = c

    def get(self, v):
        return self.cls.get(str(v.term), None)


round6 = z3.Function('round6', V, V)      # A-fl(3): float('%f' % x) for finite x; |round6(x) - x| <= 5e-7
neg = z3.Function('float_neg', V, V)
date_of = {n: z3.Function('parsed_' + n, V, V) for n in ('date', 'time', 'datetime')}


def install(world):
    """string plugin + kind lattice + writer-side formatting lemmas"""
    KD.install(world)
    plug = SStrPlugin(world)
    world.strings = plug
    plug.num = NumInfo()
    base_isinst = world.hooks.get('isinstance')

    def isinst(it, v, cls):
        name = cls.name if isinstance(cls, (ClassRef, Builtin)) else getattr(cls, '__name__', None)
        if isinstance(v, TaggedShape):
            return name in (v.pycls, 'str', 'object')
        if isinstance(v, Shape):
            return name in ('str', 'object')
        return base_isinst(it, v, cls) if base_isinst else NotImplemented
    world.hooks['isinstance'] = isinst
    base_ident = world.hooks.get('identical')

    def identical(it, a, b):
        if (isinstance(a, SObj) and isinstance(b, (SVal, Shape))) or (isinstance(b, SObj) and isinstance(a, (SVal, Shape))):
            return False
        if isinstance(a, Shape) or isinstance(b, Shape):
            return a is b
        return base_ident(it, a, b) if base_ident else NotImplemented
    world.hooks['identical'] = identical

    base_cmp = world.hooks.get('compare')        # installed by the string plugin

    def compare(it, op, a, b):
        # comparisons the writers use to recognise non-finite numbers: x != x, x == float('inf'), x == float('-inf')
        if isinstance(a, SVal) and plug.num.get(a) is not None and op in ('Eq', 'NotEq'):
            c = plug.num.get(a)
            if b is a:
                r = c != 'nan'
                return r if op == 'Eq' else not r
            if isinstance(b, float):
                import math
                if math.isinf(b):
                    r = (c == ('inf' if b > 0 else '-inf'))
                    return r if op == 'Eq' else not r
        return base_cmp(it, op, a, b) if base_cmp else NotImplemented
    world.hooks['compare'] = compare

    def fmt_f(it, v):
        if isinstance(v, SVal):
            c = plug.num.get(v)
            if c in ('finite', 'int'):
                return field('fmt6(%s)' % v.term, 'fmt6', den=v.term)
            if c in ('inf', '-inf', 'nan'):
                return Lit(c)                                      # A-fl(3): '%f' % inf == 'inf', ...
            raise OutOfSubset('%%f of a number of unknown class')
        if isinstance(v, (int, float)) and not isinstance(v, bool):
            return Lit('%f' % v)
        it.raise_('TypeError', 'must be real number')
    plug.fmt['f'] = fmt_f

    def fmt_04x(it, v):
        # '%04x' % o: lower-case hex, at least 4 digits
        from hv.vc.values import SInt
        if isinstance(v, int):
            return Lit('%04x' % v)
        if isinstance(v, SInt):
            if it.ctx.branch(z3.And(v.term >= 0, v.term <= 0xFFFF)):
                return Field('hex4(%s)' % v.term, L(r'[0-9a-f]{4}'), 'hex4', v.term, fixed_len=4)
            return Field('hexN(%s)' % v.term, L(r'[0-9a-f]{5,6}'), 'hexN', v.term)
        raise OutOfSubset('%%04x of %r' % (v,))
    plug.fmt['04x'] = fmt_04x
    if 'r' not in plug.fmt:
        plug.fmt['r'] = lambda it, v: Field('repr(%s)' % id(v), SIGMA(), 'text', ('repr', v)) if isinstance(v, Shape) else NotImplemented

    def b_ord(it, args, kw):
        from hv.vc.shapes import CharField
        from hv.vc.values import SInt
        x = args[0]
        if isinstance(x, Shape) and len(x.parts) == 1 and isinstance(x.parts[0], CharField):
            d = x.parts[0].den
            return d if isinstance(d, int) else SInt(d)
        if isinstance(x, Shape) and x.concrete() is not None and len(x.concrete()) == 1:
            return ord(x.concrete())
        raise OutOfSubset('ord of %r' % (x,))
    world.hooks['builtin_ord'] = b_ord

    def fmt_s(it, v):
        r = str_of(it, v)
        return r
    plug.fmt['s'] = fmt_s

    def str_of(it, v):
        if isinstance(v, Shape):
            return v
        if isinstance(v, str):
            return Lit(v)
        if isinstance(v, SVal):
            c = plug.num.get(v)
            if c == 'finite':
                return field('repr(%s)' % v.term, 'repr_float', den=v.term)
            if c == 'int':
                return field('str(%s)' % v.term, 'repr_int', den=v.term)
            if c in ('inf', '-inf', 'nan'):
                return Lit(c)                                      # A-fl(1): str(inf) == 'inf'
            raise OutOfSubset('str() of opaque value %s' % v.term)
        if isinstance(v, SObj):
            r = it.call(it.world.builtins['str'], [v])
            return to_shape(r) if isinstance(r, (Shape, str)) else r
        if v is None:
            return Lit('None')
        if isinstance(v, bool) or isinstance(v, (int, float)):
            return Lit(str(v))
        raise OutOfSubset('str() of %r' % (v,))
    world.hooks['str'] = lambda it, v: _as_shape(str_of(it, v))
    plug.str_of = str_of

    def _as_shape(x):
        if isinstance(x, (Lit, Field)):
            return Shape([x])
        return x

    def val_getattr(it, obj, name):
        if isinstance(obj, SVal) and name == 'isoformat':
            def iso(it2, a, k):
                for kname, fk in (('datetime', 'iso_datetime'), ('date', 'iso_date'), ('time', 'iso_time')):
                    if it2.ctx.branch(KD.kind(obj.term) == KD.KID[kname]):
                        return Shape([field('iso(%s)' % obj.term, fk, den=obj.term)])
                it2.raise_('AttributeError', 'isoformat')
            return AbstractCallable('isoformat', iso)
        return plug.getattr(it, obj, name)
    world.hooks['val_getattr'] = val_getattr
    return plug


def cls(world, name):
    return world.class_ref(extract.module(DMOD), name)


def singleton(it, world, name):
    return world.global_lookup(it, extract.module(DMOD), name)


# ---- writer inputs --------------------------------------------------------------------------------------------
WRITER_KINDS = ['none', 'marker', 'na', 'remove', 'bool_t', 'bool_f', 'num_finite', 'num_int', 'num_inf', 'num_ninf', 'num_nan',
                'qty', 'qty_nounit', 'qty_emptyunit', 'str', 'uri', 'bin', 'ref0', 'ref1', 'date', 'time', 'datetime', 'coord',
                'xstr_hex', 'xstr_b64', 'xstr_other']


def mk_wvalue(it, world, kind):
    """-> (value as the real writer sees it, {part name: denotation term / payload Field})"""
    c = it.ctx
    plug = world.strings

    def num(name, klass):
        t = c.fresh(name, V)
        c.assume(KD.kind(t) == KD.KID['int' if klass == 'int' else 'float'])
        plug.num.set(t, klass)
        return SVal(t), t

    def text(name, fk='text'):
        f = field(name, fk, den=name)
        return Shape([f]), f
    if kind == 'none':
        return None, {}
    if kind in ('marker', 'na', 'remove'):
        return singleton(it, world, kind.upper()), {}
    if kind in ('bool_t', 'bool_f'):
        return kind == 'bool_t', {}
    if kind.startswith('num_'):
        klass = {'finite': 'finite', 'int': 'int', 'inf': 'inf', 'ninf': '-inf', 'nan': 'nan'}[kind[4:]]
        v, t = num('value', klass)
        return v, {'v': t, 'class': klass}
    if kind.startswith('qty'):
        v, t = num('value', 'inf' if kind == 'qty_inf' else 'finite')
        if kind == 'qty_nounit':
            u, uf = None, None
        elif kind == 'qty_emptyunit':
            u, uf = '', None
        else:
            u, uf = text('unit', 'unit')
        return SObj(cls(world, 'BasicQuantity'), {'value': v, 'unit': u}), {'value': t, 'unit': uf, 'class': 'inf' if kind == 'qty_inf' else 'finite'}
    if kind == 'str':
        s, f = text('text')
        return s, {'text': f}
    if kind in ('uri', 'bin'):
        f = field('text', 'text' if kind == 'uri' else 'text', den='text')
        return TaggedShape([f], 'Uri' if kind == 'uri' else 'Bin'), {'text': f}
    if kind in ('ref0', 'ref1'):
        n, nf = text('name', 'refname')
        if kind == 'ref0':
            return SObj(cls(world, 'Ref'), {'name': n, 'value': None, 'has_value': False}), {'name': nf}
        d, df = text('dis')
        return SObj(cls(world, 'Ref'), {'name': n, 'value': d, 'has_value': True}), {'name': nf, 'dis': df}
    if kind in ('date', 'time', 'datetime'):
        t = c.fresh('value', V)
        c.assume(KD.kind(t) == KD.KID[kind])
        return SVal(t), {'v': t}
    if kind == 'coord':
        la, lt = num('lat', 'finite')
        lo, lg = num('lng', 'finite')
        return SObj(cls(world, 'Coordinate'), {'latitude': la, 'longitude': lo}), {'lat': lt, 'lng': lg}
    if kind.startswith('xstr'):
        enc = kind[5:]
        if enc == 'other':
            e, ef = text('enc', 'xtype')
            # an encoding that is neither "hex" nor "b64": data is kept as text
            d, df = text('data')
            return SObj(cls(world, 'XStr'), {'encoding': e, 'data': d, '$enc': 'other'}), {'enc': ef, 'data': df}
        t = c.fresh('data_bytes', V)
        return SObj(cls(world, 'XStr'), {'encoding': enc, 'data': SVal(t), '$enc': enc}), {'enc': enc, 'data': t}
    raise KeyError(kind)


def xstr_data_to_string_contract(it, args, kw):
    """XStr.data_to_string(): hex / b64 spelling of the bytes (A-bi-base64: b2a_hex / b2a_base64 are total on bytes and
    yield [0-9a-f]{2}* / canonical base64 without newline), or the text itself for other encodings"""
    x = args[0]
    enc = x.fields.get('$enc')
    if enc == 'other':
        return x.fields['data']
    return Shape([field('%s(data)' % enc, 'hex' if enc == 'hex' else 'b64', den=x.fields['data'].term)])


def timezone_name_contract(it, args, kw):
    """zoneinfo.timezone_name(dt): a Haystack zone name (element of the table), or ValueError (verified in C17)"""
    dt = args[0]
    if it.ctx.branch(it.ctx.fresh('tzname_unavailable', z3.BoolSort())):
        it.raise_('ValueError', 'Unable to get timezone')
    return Shape([field('tzname(%s)' % dt.term, 'tzname', den=dt.term)])
