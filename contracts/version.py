"""Sidecar contracts for hszinc/version.py (C18; reused by C10/C03/C07).

Keyed by qualified name and loop ordinal; /repo is not annotated.
"""
import z3

from hv.vc import smt
from hv.vc.values import SObj, SSeq, SKey, SInt, PyExc, OutOfSubset, Sym
from hv.vc.world import LoopSpec
from hv.vc.ops import has_sym
from hv.frontend import extract
from spec import version_order as VO

MOD = 'hszinc.version'

# Version.__init__ on an abstract string s (contract; proved from the real regex by E2 in C18/init tasks):
#   valid(s)  -> a well-formed version whose components are functions of s;  not valid(s) -> ValueError
v_valid = z3.Function('ver_valid', smt.KEY, z3.BoolSort())
v_len = z3.Function('ver_len', smt.KEY, z3.IntSort())
v_nums = z3.Function('ver_nums', smt.KEY, z3.ArraySort(z3.IntSort(), z3.IntSort()))
v_hasx = z3.Function('ver_has_extra', smt.KEY, z3.BoolSort())
v_extra = z3.Function('ver_extra', smt.KEY, smt.KEY)


def version_class(world):
    return world.class_ref(extract.module(MOD), 'Version')


def sym_version(it, world, name, has_extra):
    ln = it.ctx.fresh(name + '_len', z3.IntSort())
    arr = it.ctx.fresh(name + '_nums', z3.ArraySort(z3.IntSort(), z3.IntSort()))
    ex = it.ctx.fresh(name + '_extra', smt.KEY) if has_extra else None
    v = VO.V(ln, arr, ex)
    it.ctx.assume(v.wf())       # requires: well-formed input (established by __init__, see init tasks)
    jj = z3.Int('j!small')
    it.ctx.small_hints += [ln <= 3, z3.ForAll([jj], z3.Implies(z3.And(jj >= 0, jj < ln), z3.Select(arr, jj) <= 9))]
    obj = SObj(version_class(world), {'version_nums': SSeq(ln, arr, z3.IntSort(), mutable=False, kind='tuple'),
                                      'version_extra': SKey(ex) if has_extra else None})
    return obj, v


def abstract(it, obj):
    """SObj Version -> spec view V (reads the two fields)."""
    nums = obj.fields['version_nums']
    ex = obj.fields['version_extra']
    if isinstance(nums, tuple):
        arr = z3.K(z3.IntSort(), z3.IntVal(0))
        for i, x in enumerate(nums):
            arr = z3.Store(arr, i, it.as_term(x))
        ln = z3.IntVal(len(nums))
    elif isinstance(nums, SSeq):
        ln, arr = nums.length, nums.arr
    else:
        raise OutOfSubset('version_nums is %r' % (nums,))
    if ex is None:
        ext = None
    elif isinstance(ex, SKey):
        ext = ex.term
    elif isinstance(ex, str):
        ext = it.world.key_const(it, ex)
    else:
        raise OutOfSubset('version_extra is %r' % (ex,))
    return VO.V(ln, arr, ext)


def is_concrete_version(obj):
    return isinstance(obj, SObj) and not has_sym(obj.fields.get('version_nums')) and not isinstance(obj.fields.get('version_extra'), Sym)


def install(world, use_cmp_contract=True, ctor_contract=True):
    world.hooks['compare'] = compare_hook
    world.hooks['as_term'] = as_term_hook
    world.loop_specs[(MOD + '.Version._cmp', 0)] = LoopSpec(cmp_loop_inv)
    world.loop_specs[(MOD + '.Version.__hash__', 0)] = LoopSpec(hash_loop_inv, havoc=hash_loop_havoc, variant=hash_loop_variant)
    world.hooks['hash'] = hash_hook
    world.hooks['set_order'] = lambda it, s: sorted(s, key=lambda o: repr(o.fields.get('version_nums')) if isinstance(o, SObj) else repr(o))
    if ctor_contract:
        world.class_ctor['Version'] = version_ctor
    if use_cmp_contract:
        world.contracts[MOD + '.Version._cmp'] = cmp_contract


def as_term_hook(it, v, sort):
    if isinstance(v, str) and (sort is None or sort == smt.KEY):
        return it.world.key_const(it, v)
    return None


def compare_hook(it, op, a, b):
    if isinstance(a, (SKey, str)) and isinstance(b, (SKey, str)) and (isinstance(a, SKey) or isinstance(b, SKey)) \
            and op in ('Lt', 'Gt', 'LtE', 'GtE'):
        x, y = it.as_term(a, smt.KEY), it.as_term(b, smt.KEY)
        t = {'Lt': VO.key_lt(x, y), 'Gt': VO.key_lt(y, x), 'LtE': z3.Or(x == y, VO.key_lt(x, y)),
             'GtE': z3.Or(x == y, VO.key_lt(y, x))}[op]
        return it.wrap(t)
    return NotImplemented


# ---- loop 0 of Version._cmp: `for (p1, p2) in zip(num1, num2)` -- all earlier positions equal
def cmp_loop_inv(it, env, i, seq):
    n1, n2 = env['num1'], env['num2']
    n1, n2 = it.world.ops.to_seq(it, n1, z3.IntSort()), it.world.ops.to_seq(it, n2, z3.IntSort())
    j = z3.Int('j!inv')
    return z3.ForAll([j], z3.Implies(z3.And(j >= 0, j < i), z3.Select(n1.arr, j) == z3.Select(n2.arr, j)))


# ---- loop 0 of Version.__hash__ (after the fix): strip trailing zero groups
def _hash_parts(it, env):
    orig = env['self'].fields['version_nums']
    orig = it.world.ops.to_seq(it, orig, z3.IntSort())
    nums = it.world.ops.to_seq(it, env['nums'], z3.IntSort())
    return orig, nums


def hash_loop_inv(it, env, i, seq):
    orig, nums = _hash_parts(it, env)
    j = z3.Int('j!hinv')
    return z3.And(nums.length >= 1, nums.length <= orig.length,
                  z3.ForAll([j], z3.Implies(z3.And(j >= 0, j < nums.length), z3.Select(nums.arr, j) == z3.Select(orig.arr, j))),
                  z3.ForAll([j], z3.Implies(z3.And(j >= nums.length, j < orig.length), z3.Select(orig.arr, j) == 0)))


def hash_loop_havoc(it, env):
    ln = it.ctx.fresh('hnums_len', z3.IntSort())
    arr = it.ctx.fresh('hnums', z3.ArraySort(z3.IntSort(), z3.IntSort()))
    env['nums'] = SSeq(ln, arr, z3.IntSort(), mutable=False, kind='tuple')


def hash_loop_variant(it, env):
    return _hash_parts(it, env)[1].length


class HashKey(object):
    """hash(x): the structure whose equality implies equal hashes (A-bi-hash: hash of tuples/ints/str/None
    is a function of their value)."""

    def __init__(self, key):
        self.key = key


def hash_hook(it, v):
    return HashKey(v)


def hashkeys_equal(it, ka, kb):
    """z3 Bool: the two hashed structures are equal values (so their hashes are equal)."""
    a, b = ka.key, kb.key
    return _struct_eq(it, a, b)


def _struct_eq(it, a, b):
    if isinstance(a, tuple) and isinstance(b, tuple) and not (a and not has_sym(a) and not has_sym(b)):
        if len(a) != len(b):
            return z3.BoolVal(False)
        return z3.And(*[_struct_eq(it, x, y) for x, y in zip(a, b)]) if a else z3.BoolVal(True)
    if isinstance(a, (SSeq, tuple)) and isinstance(b, (SSeq, tuple)):
        sa, sb = it.world.ops.to_seq(it, a, z3.IntSort()), it.world.ops.to_seq(it, b, z3.IntSort())
        j = z3.Int('j!heq')
        return z3.And(sa.length == sb.length,
                      z3.ForAll([j], z3.Implies(z3.And(j >= 0, j < sa.length), z3.Select(sa.arr, j) == z3.Select(sb.arr, j))))
    if a is None or b is None:
        return z3.BoolVal(a is None and b is None)
    if isinstance(a, (SKey, str)) and isinstance(b, (SKey, str)):
        return it.as_term(a, smt.KEY) == it.as_term(b, smt.KEY)
    if isinstance(a, (SInt, int)) and isinstance(b, (SInt, int)):
        return it.as_term(a) == it.as_term(b)
    if isinstance(a, HashKey) and isinstance(b, HashKey):
        return _struct_eq(it, a.key, b.key)
    raise OutOfSubset('hash key comparison of %r and %r' % (a, b))


# ---- Version(x)
def version_ctor(it, cls, args, kwargs):
    x = args[0] if args else kwargs.get('ver_str')
    if isinstance(x, SKey):
        s = x.term
        if not it.ctx.branch(v_valid(s)):
            it.raise_('ValueError', 'Not a valid version string')
        ln, arr = v_len(s), v_nums(s)
        has = it.ctx.branch(v_hasx(s))
        v = VO.V(ln, arr, v_extra(s) if has else None)
        it.ctx.assume(v.wf())
        return SObj(cls, {'version_nums': SSeq(ln, arr, z3.IntSort(), mutable=False, kind='tuple'),
                          'version_extra': SKey(v_extra(s)) if has else None})
    obj = SObj(cls, {})
    c, m = cls.find_method('__init__')
    it.call_closure(it.world.method_closure(c, m), [obj] + list(args), kwargs)
    return obj


# ---- Version._cmp(self, other): contract used at call sites (callers are checked against this, not the body)
def cmp_contract(it, args, kwargs):
    selfv, other = args[0], args[1]
    if is_concrete_version(selfv) and (is_concrete_version(other) or isinstance(other, str)):
        clo = it.world.function(MOD, 'Version._cmp')
        return it.call_closure(clo, args, kwargs, inline=True)
    if not isinstance(other, SObj):
        other = it.call(version_class(it.world), [other])      # may raise ValueError (ctor contract)
    a, b = abstract(it, selfv), abstract(it, other)
    r = it.ctx.fresh('cmp', z3.IntSort())
    it.ctx.assume(VO.cmp_post(r, a, b))
    return SInt(r)
