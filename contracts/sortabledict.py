"""Sidecar contracts for hszinc/sortabledict.py and hszinc/metadata.py (C16; reused by C10, C01/C02 assembly)."""
import z3

from hv.vc import smt
from hv.vc.values import SObj, SSeq, SMap, SKey, SVal, SView
from hv.vc.world import LoopSpec
from hv.frontend import extract
from spec import omap_model as OM

MOD = 'hszinc.sortabledict'
MMOD = 'hszinc.metadata'


def cls_ref(world, name='SortableDict'):
    if name == 'MetadataObject':
        return world.class_ref(extract.module(MMOD), 'MetadataObject')
    return world.class_ref(extract.module(MOD), 'SortableDict')


def sym_sdict(it, world, name, cls='SortableDict', validate=None):
    """requires: a well-formed map (rep. invariant wf): returns (object, spec view M with ghost pos)."""
    m = OM.fresh_M(it.ctx, name)
    it.ctx.assume(m.wf())
    obj = SObj(cls_ref(world, cls), {
        '_values': SMap(m.dom, m.val, m.n, smt.KEY, smt.VAL),
        '_order': SSeq(m.n, m.ord, smt.KEY, mutable=True, kind='list'),
        '_validate_fn': validate})
    return obj, m


def view(it, obj):
    """abstraction function: object -> model state (no ghost)."""
    o, v = obj.fields['_order'], obj.fields['_values']
    return OM.M(o.length, o.arr, v.dom, v.val)


def install(world):
    world.hooks.setdefault('as_term', as_term_hook)
    world.hooks['list_sort'] = list_sort_hook
    world.hooks['wrap_val'] = lambda it, t: SVal(t)


def as_term_hook(it, v, sort):
    if isinstance(v, str) and (sort is None or sort == smt.KEY):
        return it.world.key_const(it, v)
    return None


SORT_KEY_FUNCTIONS = {}      # name of an abstract key function -> its number in the model (0 is "no key function")


def sort_key_function(name):
    """an opaque key function handed to sort(key=...); list.sort is the only thing that may call it"""
    from hv.vc.values import AbstractCallable, OutOfSubset

    def apply(it, args, kw):
        raise OutOfSubset('the sort key function is called outside list.sort')
    SORT_KEY_FUNCTIONS.setdefault(name, len(SORT_KEY_FUNCTIONS) + 1)
    return AbstractCallable(name, apply)


def list_sort_hook(it, seq, args, kw):
    """A-bi-sort: list.sort(key=f, reverse=r) yields SORT(old, f, r), a permutation of the old list determined by (old, f, r)."""
    from hv.vc.values import OutOfSubset, AbstractCallable
    if args:
        it.raise_('TypeError', 'sort() takes no positional arguments')
    extra = set(kw) - {'key', 'reverse'}
    if extra:
        it.raise_('TypeError', 'sort() got an unexpected keyword argument')
    f = kw.get('key')
    if f is None:
        fid = 0
    elif isinstance(f, AbstractCallable) and f.name in SORT_KEY_FUNCTIONS:
        fid = SORT_KEY_FUNCTIONS[f.name]
    else:
        raise OutOfSubset('list.sort with a key function that is not the caller\'s')
    r = kw.get('reverse', False)
    if isinstance(r, bool) or r in (0, 1):
        rev = bool(r)
    else:
        rev = it.truth(r) if hasattr(it, 'truth') else None
        if rev is None:
            raise OutOfSubset('list.sort with a symbolic reverse flag')
    old_arr, n = seq.arr, seq.length
    for ax in OM.sort_axioms(old_arr, n, fid, rev):
        it.ctx.assume(ax)
    seq.arr = OM.sorted_arr(old_arr, n, fid, rev)
