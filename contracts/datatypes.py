"""Symbolic Haystack values and the CPython dispatch facts their equality relies on (C19; reused by C11/C12).

A-disp: x == y evaluates type(x).__eq__(x, y) first, unless type(y) is a proper subclass of type(x) overriding
__eq__ (then y's first); NotImplemented -> the other side; both -> identity.  A str subclass inherits str.__eq__ /
str.__ne__ / str.__hash__ (text based) for the methods it does not define.  Builtin payloads (numbers, str) compare
with a symmetric, never-raising == whose negation is !=  (A-num)."""
import z3

from hv.vc import smt
from hv.vc.values import SObj, SVal, SKey, SInt, SBool, ClassRef, AbstractCallable, PyExc, OutOfSubset
from hv.frontend import extract
from contracts import kinds as KD

MOD = 'hszinc.datatypes'
V, K, B = smt.VAL, smt.KEY, z3.BoolSort()
eqv = z3.Function('builtin_eq', V, V, B)          # == on builtin payloads
text_of = z3.Function('str_text', V, K)           # text of a str-kind value
HSZ_KINDS = ['qty', 'coord', 'uri', 'bin', 'xstr', 'ref0', 'ref1', 'marker', 'na', 'remove']
BUILTIN_KINDS = ['none', 'bool', 'int', 'float', 'str', 'list', 'dict', 'date', 'time', 'datetime']


def axioms():
    a, b, c = z3.Consts('a!e b!e c!e', V)
    num = lambda t: KD.is_kind(t, ['bool', 'int', 'float'])
    return [z3.ForAll([a, b], eqv(a, b) == eqv(b, a)),
            # A-num: builtin == is False across kinds, except among numbers
            z3.ForAll([a, b], z3.Implies(eqv(a, b), z3.Or(z3.And(num(a), num(b)), KD.kind(a) == KD.kind(b))))] + KD.axioms()


def cls(world, name):
    return world.class_ref(extract.module(MOD), name)


_singletons = {}


def mk(it, world, kind, name):
    """-> (python-level value, description dict of its symbolic payload terms)"""
    c = it.ctx
    if kind == 'qty':
        v, u = c.fresh(name + '_value', V), c.fresh(name + '_unit', K)
        c.assume(KD.is_kind(v, ['int', 'float']))
        return SObj(cls(world, 'BasicQuantity'), {'value': SVal(v), 'unit': SKey(u)}), {'value': v, 'unit': u}
    if kind == 'coord':
        la, lo = c.fresh(name + '_lat', V), c.fresh(name + '_lng', V)
        c.assume(z3.And(KD.is_kind(la, ['float', 'int']), KD.is_kind(lo, ['float', 'int'])))
        return SObj(cls(world, 'Coordinate'), {'latitude': SVal(la), 'longitude': SVal(lo)}), {'lat': la, 'lng': lo}
    if kind in ('uri', 'bin'):
        t = c.fresh(name + '_text', K)
        return SObj(cls(world, 'Uri' if kind == 'uri' else 'Bin'), {'$text': SKey(t)}), {'text': t}
    if kind == 'xstr':
        e, d = c.fresh(name + '_enc', K), c.fresh(name + '_data', V)
        return SObj(cls(world, 'XStr'), {'encoding': SKey(e), 'data': SVal(d)}), {'enc': e, 'data': d}
    if kind in ('ref0', 'ref1'):
        n = c.fresh(name + '_name', K)
        if kind == 'ref0':
            return SObj(cls(world, 'Ref'), {'name': SKey(n), 'value': None, 'has_value': False}), {'name': n}
        d = c.fresh(name + '_dis', K)
        return SObj(cls(world, 'Ref'), {'name': SKey(n), 'value': SKey(d), 'has_value': True}), {'name': n, 'dis': d}
    if kind in ('marker', 'na', 'remove'):
        key = (id(world), kind)
        if key not in _singletons:
            _singletons[key] = SObj(cls(world, {'marker': 'MarkerType', 'na': 'NAType', 'remove': 'RemoveType'}[kind]), {})
        return _singletons[key], {}
    if kind == 'none':
        return None, {}
    t = c.fresh(name + '_' + kind, V)
    c.assume(KD.kind(t) == KD.KID[kind])
    return SVal(t), {'v': t}


def text_term(it, x):
    if isinstance(x, SObj) and '$text' in x.fields:
        return x.fields['$text'].term
    if isinstance(x, SVal):
        return text_of(x.term)
    if isinstance(x, SKey):
        return x.term
    return None


def is_strlike(x):
    return isinstance(x, SObj) and '$text' in x.fields


def install(world):
    KD.install(world)
    h = world.hooks

    def compare(it, op, a, b):
        # == / != between two builtin payloads
        if isinstance(a, SVal) and isinstance(b, SVal) and op in ('Eq', 'NotEq'):
            t = eqv(a.term, b.term)
            return it.wrap(t if op == 'Eq' else z3.Not(t))
        if (isinstance(a, SVal) and b is None) or (a is None and isinstance(b, SVal)):
            t = (a if isinstance(a, SVal) else b).term == KD.NONE_C
            return it.wrap(t if op == 'Eq' else z3.Not(t))
        if isinstance(a, (SVal, SKey)) and isinstance(b, (SVal, SKey)) and op in ('Eq', 'NotEq') and type(a) is not type(b):
            ta, tb = text_term(it, a), text_term(it, b)
            t = z3.And(KD.is_kind(a.term if isinstance(a, SVal) else b.term, ['str', 'uri', 'bin']), ta == tb)
            return it.wrap(t if op == 'Eq' else z3.Not(t))
        return NotImplemented
    h['compare'] = compare
    base_identical = h.get('identical')

    def identical(it, a, b):
        # an instance of an hszinc class is never the same object as a builtin-kind value
        if (isinstance(a, SObj) and isinstance(b, SVal)) or (isinstance(a, SVal) and isinstance(b, SObj)):
            return False
        return base_identical(it, a, b) if base_identical else NotImplemented
    h['identical'] = identical

    def native_rich_compare(it, x, meth, y):
        """builtin type's own comparison method applied to an hszinc object"""
        if isinstance(x, SVal) and is_strlike(y) and meth in ('__eq__', '__ne__'):
            # str.__eq__(s, uri): text equality if s is a str (uri is a str instance)
            if it.ctx.branch(KD.is_kind(x.term, ['str', 'uri', 'bin'])):
                t = text_of(x.term) == y.fields['$text'].term
                return it.wrap(t if meth == '__eq__' else z3.Not(t))
        return NotImplemented
    h['native_rich_compare'] = native_rich_compare

    def right_first(it, a, b, rev):
        # the right operand's class is a proper subclass of str and the left one is a plain str
        if isinstance(a, SVal) and is_strlike(b):
            c, m = b.cls.find_method(rev)
            if m is not None:
                return it.ctx.branch(KD.kind(a.term) == KD.KID['str'])
        return False
    h['right_first'] = right_first

    def builtin_base_method(it, x, meth, y):
        if is_strlike(x) and meth in ('__eq__', '__ne__'):
            ty = text_term(it, y) if (is_strlike(y) or isinstance(y, SKey)) else None
            if isinstance(y, SVal):
                if not it.ctx.branch(KD.is_kind(y.term, ['str', 'uri', 'bin'])):
                    return NotImplemented
                ty = text_of(y.term)
            if ty is None:
                return NotImplemented
            t = x.fields['$text'].term == ty
            return it.wrap(t if meth == '__eq__' else z3.Not(t))
        return None
    h['builtin_base_method'] = builtin_base_method

    def super_getattr(it, proxy, name):
        if is_strlike(proxy.selfv) and name in ('__eq__', '__ne__', '__repr__', '__hash__'):
            def call(it2, args, kw):
                r = builtin_base_method(it2, proxy.selfv, name, args[0]) if name in ('__eq__', '__ne__') else None
                if r is None:
                    raise OutOfSubset('str.%s' % name)
                return r
            return AbstractCallable('str.' + name, call)
        return NotImplemented
    h['super_getattr'] = super_getattr

    class HashKey(object):
        def __init__(self, key):
            self.key = key
    world.HashKey = HashKey

    def hash_hook(it, v):
        return HashKey(v)
    h['hash'] = hash_hook

    def binop(it, op, a, b):
        if isinstance(a, HashKey) and isinstance(b, HashKey) and op == 'BitXor':
            return HashKey(('xor', a, b))
        return NotImplemented
    h['binop'] = binop
    h['as_term'] = lambda it, v, sort: it.world.key_const(it, v) if isinstance(v, str) and (sort is None or sort == K) else None
    h['truth'] = lambda it, v: z3.Function('truth', V, B)(v.term) if isinstance(v, SVal) else (_ for _ in ()).throw(OutOfSubset('truth of key'))


def hash_equal(it, world, a, b):
    """z3 Bool: two recorded hash computations give equal results, given A-bi-hash (equal payloads hash equally)"""
    HK = world.HashKey
    if isinstance(a, HK) and isinstance(b, HK):
        return hash_equal(it, world, a.key, b.key)
    if isinstance(a, tuple) and isinstance(b, tuple):
        if len(a) != len(b):
            return z3.BoolVal(False)
        return z3.And(*[hash_equal(it, world, x, y) for x, y in zip(a, b)]) if a else z3.BoolVal(True)
    if isinstance(a, SVal) and isinstance(b, SVal):
        return z3.Or(a.term == b.term, eqv(a.term, b.term))
    if isinstance(a, SKey) and isinstance(b, SKey):
        return a.term == b.term
    if a is None or b is None or isinstance(a, (bool, str, int)) or isinstance(b, (bool, str, int)):
        return z3.BoolVal(type(a) is type(b) and a == b)
    if isinstance(a, ClassRef) and isinstance(b, ClassRef):
        return z3.BoolVal(a is b)
    return z3.BoolVal(False)
