"""Sidecar contracts and symbolic state for hszinc/grid.py (C14, C15; reused by C10, C11)."""
import z3

from hv.vc import smt
from hv.vc.values import (SObj, SSeq, SMap, SKey, SVal, SInt, SBool, SView, ClassRef, AbstractCallable, PyExc, OutOfSubset)
from hv.vc.world import LoopSpec
from hv.frontend import extract

MOD = 'hszinc.grid'
V, K, I, B = smt.VAL, smt.KEY, z3.IntSort(), z3.BoolSort()

# rows are opaque Python objects; what Grid reads from them:
is_dict = z3.Function('is_dict', V, B)            # isinstance(row, dict)
has_id = z3.Function('has_id', V, B)              # "id" in row
id_of = z3.Function('id_of', V, V)                # row["id"]
str_of = z3.Function('str_of', V, K)              # str(x)
nvals = z3.Function('nvals', V, I)                # len(row.values())
val_at = z3.Function('val_at', V, I, V)           # list(row.values())[j]
is30 = z3.Function('is_30_only_kind', V, B)      # value is NA / list / dict / Grid / (XStr): decided by _detect_or_validate (C10)
has30 = z3.Function('row_has_30_only_value', V, B)      # defined: some value of the row is 3.0-only
w30 = z3.Function('row_30_witness', V, I)


def has30_definition():
    r = z3.Const('r!h30', V)
    j = z3.Int('j!h30')
    return [z3.ForAll([r, j], z3.Implies(z3.And(j >= 0, j < nvals(r), is30(val_at(r, j))), has30(r))),
            z3.ForAll([r], z3.Implies(has30(r), z3.And(w30(r) >= 0, w30(r) < nvals(r), is30(val_at(r, w30(r))))))]


is_slice = z3.Function('is_slice', V, B)
is_number = z3.Function('is_number', V, B)


def sid(r):
    return str_of(id_of(r))


def grid_class(world):
    return world.class_ref(extract.module(MOD), 'Grid')


class GState(object):
    """snapshot of the symbolic grid state (for posts / frames)"""

    def __init__(self, n, rows, index_none, idom, ival, wit, version, given, metadata, column, lt30=None):
        self.lt30 = lt30
        self.n, self.rows, self.index_none, self.idom, self.ival, self.wit = n, rows, index_none, idom, ival, wit
        self.version, self.given, self.metadata, self.column = version, given, metadata, column


def J_body(n, rows, idom, ival, wit):
    """index invariant (with ghost witness wit: key -> position of a row carrying that id)"""
    k = z3.Const('k!J', K)
    i = z3.Int('i!J')
    w = z3.Select(wit, k)
    return z3.And(
        z3.ForAll([k], z3.Implies(z3.Select(idom, k),
                                  z3.And(w >= 0, w < n, z3.Select(rows, w) == z3.Select(ival, k),
                                         has_id(z3.Select(ival, k)), sid(z3.Select(ival, k)) == k))),
        z3.ForAll([i], z3.Implies(z3.And(i >= 0, i < n, has_id(z3.Select(rows, i))), z3.Select(idom, sid(z3.Select(rows, i))))))


def sym_grid(it, world, name, index='map', given=None):
    """A symbolic grid satisfying the representation invariant (rows: list of dict rows; index None or J)."""
    c = it.ctx
    n = c.fresh(name + '_n', I)
    rows = c.fresh(name + '_rows', z3.ArraySort(I, V))
    c.assume(n >= 0)
    i = z3.Int('i!rows')
    c.assume(z3.ForAll([i], z3.Implies(z3.And(i >= 0, i < n), is_dict(z3.Select(rows, i)))))
    ver = c.fresh(name + '_version', V)
    giv = c.fresh(name + '_version_given', B) if given is None else z3.BoolVal(given)
    md = c.fresh(name + '_metadata', V)
    col = c.fresh(name + '_column', V)
    fields = {'_row': SSeq(n, rows, V, mutable=True, kind='list'), '_version': SVal(ver),
              '_version_given': it.wrap(giv), 'metadata': SVal(md), 'column': SVal(col)}
    lt30 = c.fresh(name + '_lt30', B)           # ghost: nearest_version < 3.0
    fields['$lt30'] = it.wrap(lt30)
    # representation invariant (C10's Inv): a grid whose version is below 3.0 holds no 3.0-only value
    for ax in has30_definition():
        c.assume(ax)
    c.assume(z3.Implies(lt30, z3.ForAll([i], z3.Implies(z3.And(i >= 0, i < n), z3.Not(has30(z3.Select(rows, i)))))))
    idom = ival = wit = None
    if index == 'map':
        idom = c.fresh(name + '_idom', z3.ArraySort(K, B))
        ival = c.fresh(name + '_ival', z3.ArraySort(K, V))
        isz = c.fresh(name + '_isize', I)
        wit = c.fresh(name + '_wit', z3.ArraySort(K, I))
        c.assume(J_body(n, rows, idom, ival, wit))
        k = z3.Const('k!sz', K)
        c.assume(z3.And(isz >= 0, z3.ForAll([k], z3.Implies(z3.Select(idom, k), isz > 0)),
                        z3.Implies(isz > 0, z3.Exists([k], z3.Select(idom, k)))))
        fields['_index'] = SMap(idom, ival, isz, K, V)
    else:
        fields['_index'] = None
    if wit is not None:
        fields['$wit'] = wit
    g = SObj(grid_class(world), fields)
    return g, GState(n, rows, index != 'map', idom, ival, wit, ver, giv, md, col, lt30)


def snapshot(it, g):
    from hv.vc.values import unmap
    r = g.fields['_row']
    if isinstance(r, list):
        r = it.world.ops.to_seq(it, r, V) if r else SSeq(z3.IntVal(0), z3.K(I, z3.Const('noval', V)), V)
    ix = unmap(g.fields['_index'])
    if isinstance(ix, dict):
        ix = None if len(ix) else SMap(z3.K(K, z3.BoolVal(False)), z3.K(K, z3.Const('noval', V)), z3.IntVal(0), K, V)
    return GState(r.length, r.arr, ix is None, None if ix is None else ix.dom, None if ix is None else ix.val, None,
                  g.fields['_version'].term if isinstance(g.fields['_version'], SVal) else None,
                  it.truth_term(g.fields['_version_given']), getattr(g.fields['metadata'], 'term', None), getattr(g.fields['column'], 'term', None),
                  it.truth_term(g.fields['$lt30']))


def rows_equal(n1, a1, n2, a2):
    i = z3.Int('i!req')
    return z3.And(n1 == n2, z3.ForAll([i], z3.Implies(z3.And(i >= 0, i < n1), z3.Select(a1, i) == z3.Select(a2, i))))


def unchanged(it, g, s0, check_index=True):
    """whole grid state unchanged (rows, version, metadata, columns, and the index content)"""
    s1 = snapshot(it, g)
    parts = [rows_equal(s1.n, s1.rows, s0.n, s0.rows), s1.version == s0.version, s1.metadata == s0.metadata, s1.column == s0.column]
    if isinstance(s1.given, bool) or isinstance(s0.given, bool):
        parts.append(z3.BoolVal(True) if s1.given is s0.given else (s1.given == s0.given))
    else:
        parts.append(s1.given == s0.given)
    return z3.And(*parts)


def install(world, detect_contract=True):
    h = world.hooks

    def isinst(it, v, cls):
        if isinstance(v, SVal):
            name = cls.name if isinstance(cls, ClassRef) else getattr(cls, 'name', getattr(cls, '__name__', None))
            if name == 'dict':
                return is_dict(v.term)
            if name == 'slice':
                return is_slice(v.term)
            if name == 'Number':
                return z3.And(is_number(v.term), z3.Not(is_slice(v.term)))
        if isinstance(v, slice):
            name = cls.name if isinstance(cls, ClassRef) else None
            return name == 'slice'
        return NotImplemented
    h['isinstance'] = isinst

    def val_contains(it, container, x):
        if isinstance(container, SVal) and x == 'id':
            return it.wrap(has_id(container.term))
        raise OutOfSubset('in on opaque row for key %r' % (x,))
    h['val_contains'] = val_contains

    def val_getitem(it, obj, key):
        if isinstance(obj, SVal) and key == 'id':
            if not it.ctx.branch(has_id(obj.term)):
                it.raise_('KeyError', 'id')
            return SVal(id_of(obj.term))
        raise OutOfSubset('subscript of opaque row with %r' % (key,))
    h['val_getitem'] = val_getitem

    def val_getattr(it, obj, name):
        if isinstance(obj, SVal) and name == 'values':
            def values(it2, args, kw):
                if not it2.ctx.branch(is_dict(obj.term)):
                    it2.raise_('AttributeError', 'values')
                t = obj.term
                it2.ctx.assume(nvals(t) >= 0)
                return SView(nvals(t), lambda it3, j: SVal(val_at(t, j)))
            return AbstractCallable('dict.values', values)
        return NotImplemented
    h['val_getattr'] = val_getattr
    h['str'] = lambda it, v: SKey(str_of(v.term)) if isinstance(v, SVal) else (_ for _ in ()).throw(OutOfSubset('str of %r' % (v,)))
    h['wrap_val'] = lambda it, t: SVal(t)

    def as_term(it, v, sort):
        if isinstance(v, str) and (sort is None or sort == K):
            return it.world.key_const(it, v)
        return None
    h['as_term'] = as_term
    if detect_contract:
        world.contracts[MOD + '.Grid._detect_or_validate'] = detect_contract_fn
    # for val in value.values(): self._detect_or_validate(val)   -- loop 0 of insert / __setitem__
    for meth in ('insert', '__setitem__'):
        world.loop_specs[(MOD + '.Grid.' + meth, 0)] = LoopSpec(validate_loop_inv, validate_loop_havoc,
                                                                 enter=lambda it, env: env.__setitem__('$loop_entry', snapshot(it, env['self'])))
    world.loop_specs[(MOD + '.Grid.reindex', 0)] = LoopSpec(reindex_inv, reindex_havoc, unfold=reindex_unfold)


# ---- Grid._detect_or_validate(val) as seen by the row operations (its real body is verified in C10):
#      raises ValueError without changing anything (only possible when the version was given), or returns having
#      changed at most _version (only when the version was not given).
def detect_contract_fn(it, args, kwargs):
    g = args[0]
    val = args[1]
    giv = it.truth_term(g.fields['_version_given'])
    lt = it.truth_term(g.fields['$lt30'])
    giv = z3.BoolVal(giv) if isinstance(giv, bool) else giv
    lt = z3.BoolVal(lt) if isinstance(lt, bool) else lt
    if it.ctx.branch(z3.And(is30(val.term), lt)):
        if it.ctx.branch(giv):
            it.raise_('ValueError', 'Data type requires version')
        g.fields['_version'] = SVal(it.ctx.fresh('upgraded_version', V))
        g.fields['$lt30'] = False
    return None


def _ghost(it, env, name, mk):
    g = env['self']
    if name not in g.fields:
        g.fields[name] = mk()
    return g.fields[name]


def validate_loop_inv(it, env, i, seq):
    """rows untouched; a given version is never changed"""
    g = env['self']
    s0 = env['$loop_entry']
    s1 = snapshot(it, g)
    giv = s0.given
    giv = z3.BoolVal(giv) if isinstance(giv, bool) else giv
    lt1 = it.truth_term(g.fields['$lt30'])
    lt1 = z3.BoolVal(lt1) if isinstance(lt1, bool) else lt1
    lt0 = s0.lt30
    keep = z3.And(z3.Implies(giv, z3.And(s1.version == s0.version, lt1 == lt0)), z3.Implies(lt1, lt0),
                  z3.Implies(lt1 == lt0, s1.version == s0.version))
    # values already validated do not need the old (pre-upgrade) version any more
    val = env.get('value')
    seen = z3.BoolVal(True)
    if i is not None and isinstance(val, SVal):
        j = z3.Int('j!seen')
        seen = z3.And(z3.ForAll([j], z3.Implies(z3.And(j >= 0, j < i), z3.Not(z3.And(is30(val_at(val.term, j)), lt1)))),
                      z3.Implies(lt1 != lt0, has30(val.term)))      # an upgrade happens only because of a 3.0-only value
    return z3.And(rows_equal(s1.n, s1.rows, s0.n, s0.rows), keep, s1.metadata == s0.metadata, s1.column == s0.column, seen)


def validate_loop_havoc(it, env):
    g = env['self']
    g.fields['_version'] = SVal(it.ctx.fresh('loop_version', V))
    g.fields['$lt30'] = it.wrap(it.ctx.fresh('loop_lt30', B))


# ---- reindex(): loop 0 `for item in self._row` builds IDX(rows, i); ghost witness W(i, k)
IDXdom = z3.Function('IDX_dom', I, z3.ArraySort(K, B))
IDXval = z3.Function('IDX_val', I, z3.ArraySort(K, V))
IDXwit = z3.Function('IDX_wit', I, z3.ArraySort(K, I))
IDXsz = z3.Function('IDX_size', I, I)


def reindex_unfold(it, env, i):
    g = env['self']
    rows = g.fields['_row'].arr
    r = z3.Select(rows, i)
    k = sid(r)
    return z3.If(has_id(r),
                 z3.And(IDXdom(i + 1) == z3.Store(IDXdom(i), k, True), IDXval(i + 1) == z3.Store(IDXval(i), k, r),
                        IDXwit(i + 1) == z3.Store(IDXwit(i), k, i)),
                 z3.And(IDXdom(i + 1) == IDXdom(i), IDXval(i + 1) == IDXval(i), IDXwit(i + 1) == IDXwit(i)))


def reindex_inv(it, env, i, seq):
    g = env['self']
    from hv.vc.values import unmap
    ix = unmap(g.fields['_index'])
    if isinstance(ix, dict) and len(ix) == 0:
        ix = SMap(z3.K(K, z3.BoolVal(False)), z3.K(K, z3.Const('noval', V)), z3.IntVal(0), K, V)
    if not isinstance(ix, SMap):
        return z3.BoolVal(False)
    rows = g.fields['_row']
    k = z3.Const('k!ri', K)
    same = z3.And(z3.ForAll([k], z3.Select(ix.dom, k) == z3.Select(IDXdom(i), k)),
                  z3.ForAll([k], z3.Implies(z3.Select(ix.dom, k), z3.Select(ix.val, k) == z3.Select(IDXval(i), k))))
    s0 = g.fields.get('$entry')
    fr = z3.BoolVal(True)
    if s0 is not None:
        fr = rows_equal(rows.length, rows.arr, s0.n, s0.rows)
    return z3.And(same, J_body(i, rows.arr, IDXdom(i), IDXval(i), IDXwit(i)), fr)


def reindex_havoc(it, env):
    g = env['self']
    c = it.ctx
    g.fields['_index'] = SMap(c.fresh('ri_dom', z3.ArraySort(K, B)), c.fresh('ri_val', z3.ArraySort(K, V)), c.fresh('ri_size', I), K, V)


def reindex_contract(it, args, kwargs):
    """reindex(): ensures _index is a dict satisfying J for the current rows (ghost witness returned in $wit); rows unchanged."""
    g = args[0]
    c = it.ctx
    rows = g.fields['_row']
    if isinstance(rows, list):
        rows = it.world.ops.to_seq(it, rows, V) if rows else SSeq(z3.IntVal(0), z3.K(I, z3.Const('noval', V)), V)
    idom, ival = c.fresh('rx_dom', z3.ArraySort(K, B)), c.fresh('rx_val', z3.ArraySort(K, V))
    wit, isz = c.fresh('rx_wit', z3.ArraySort(K, I)), c.fresh('rx_size', I)
    c.assume(J_body(rows.length, rows.arr, idom, ival, wit))
    k = z3.Const('k!sz', K)
    c.assume(z3.And(isz >= 0, z3.ForAll([k], z3.Implies(z3.Select(idom, k), isz > 0)), z3.Implies(isz > 0, z3.Exists([k], z3.Select(idom, k)))))
    g.fields['_index'] = SMap(idom, ival, isz, K, V)
    g.fields['$wit'] = wit
    g.fields['$reindexed'] = True
    return None


def insert_ghost(it, args, kwargs):
    """Grid.insert at call sites: the real body is executed inline, then the ghost witness $wit is updated
    (ghost code; the rule is the one proved to re-establish J in C15's insert task)."""
    g = args[0]
    rows = g.fields['_row']
    n0 = rows.length
    pre = g.fields.get('$wit')
    g.fields.pop('$reindexed', None)
    clo = it.world.function(MOD, 'Grid.insert')
    r = it.call_closure(clo, args, kwargs, inline=True)
    i = it.as_term(args[1] if len(args) > 1 else kwargs['index'])
    v = (args[2] if len(args) > 2 else kwargs['value']).term
    idx = z3.If(i < 0, z3.If(i + n0 < 0, 0, i + n0), z3.If(i > n0, n0, i))
    if g.fields.pop('$reindexed', False):
        g.fields['$wit'] = z3.Store(g.fields['$wit'], sid(v), idx)
    elif pre is not None:
        k = z3.Const('k!w', K)
        shifted = z3.Lambda([k], z3.If(z3.Select(pre, k) >= idx, z3.Select(pre, k) + 1, z3.Select(pre, k)))
        g.fields['$wit'] = z3.If(has_id(v), z3.Store(shifted, sid(v), idx), shifted)
    return r


# ---- stdlib MutableSequence.extend: `for v in values: self.append(v)` on a Grid (loop 0)
def _seqview(it, values):
    v = it.world.ops.iter_view(it, values)
    if isinstance(v, list):
        v = it.world.ops.to_seq(it, v, V) if v else SSeq(z3.IntVal(0), z3.K(I, z3.Const('noval', V)), V)
    return v


def ext_enter(it, env):
    g = env['self']
    r = g.fields['_row']
    if isinstance(r, list):
        g.fields['_row'] = it.world.ops.to_seq(it, r, V) if r else SSeq(z3.IntVal(0), z3.K(I, z3.Const('noval', V)), V, mutable=True, kind='list')
    env['$loop_entry'] = snapshot(it, g)


def ext_inv(it, env, i, seq):
    g = env['self']
    s0 = env['$loop_entry']
    s1 = snapshot(it, g)
    j = z3.Int('j!ext')
    elem = (lambda t: z3.Select(seq.arr, t)) if isinstance(seq, SSeq) else None
    if elem is None:
        raise OutOfSubset('extend over a non-list iterable')
    lt1 = z3.BoolVal(s1.lt30) if isinstance(s1.lt30, bool) else s1.lt30
    lt0 = z3.BoolVal(s0.lt30) if isinstance(s0.lt30, bool) else s0.lt30
    giv = z3.BoolVal(s0.given) if isinstance(s0.given, bool) else s0.given
    parts = [s1.n == s0.n + i,
             z3.ForAll([j], z3.Implies(z3.And(j >= 0, j < s0.n), z3.Select(s1.rows, j) == z3.Select(s0.rows, j))),
             z3.ForAll([j], z3.Implies(z3.And(j >= s0.n, j < s0.n + i), z3.Select(s1.rows, j) == elem(j - s0.n))),
             z3.ForAll([j], z3.Implies(z3.And(j >= 0, j < s1.n), is_dict(z3.Select(s1.rows, j)))),
             s1.metadata == s0.metadata, s1.column == s0.column,
             z3.Implies(giv, z3.And(s1.version == s0.version, lt1 == lt0)), z3.Implies(lt1, lt0), z3.Implies(lt1 == lt0, s1.version == s0.version),
             z3.Implies(lt1, z3.ForAll([j], z3.Implies(z3.And(j >= 0, j < s1.n), z3.Not(has30(z3.Select(s1.rows, j))))))]
    ix = g.fields['_index']
    from hv.vc.values import unmap
    ix = unmap(ix)
    if ix is not None and not (isinstance(ix, dict) and len(ix) == 0):
        if not isinstance(ix, SMap) or '$wit' not in g.fields:
            return z3.BoolVal(False)
        parts.append(J_body(s1.n, s1.rows, ix.dom, ix.val, g.fields['$wit']))
    return z3.And(*parts)


def ext_havoc(it, env):
    g = env['self']
    c = it.ctx
    g.fields['_row'] = SSeq(c.fresh('ex_n', I), c.fresh('ex_rows', z3.ArraySort(I, V)), V, mutable=True, kind='list')
    g.fields['_version'] = SVal(c.fresh('ex_version', V))
    g.fields['$lt30'] = it.wrap(c.fresh('ex_lt30', B))
    from hv.vc.values import unmap
    ix = unmap(g.fields['_index'])
    if ix is not None:
        isz = c.fresh('ex_isize', I)
        idom = c.fresh('ex_idom', z3.ArraySort(K, B))
        g.fields['_index'] = SMap(idom, c.fresh('ex_ival', z3.ArraySort(K, V)), isz, K, V)
        g.fields['$wit'] = c.fresh('ex_wit', z3.ArraySort(K, I))
        k = z3.Const('k!sz', K)
        c.assume(z3.And(isz >= 0, z3.ForAll([k], z3.Implies(z3.Select(idom, k), isz > 0)), z3.Implies(isz > 0, z3.Exists([k], z3.Select(idom, k)))))


def install_extend_spec(world):
    world.loop_specs[('stdlib._collections_abc.MutableSequence.extend', 0)] = LoopSpec(ext_inv, ext_havoc, enter=ext_enter)
