"""Opaque-operand model (C20, C19): CPython's outcome of an operator on values hszinc does not
inspect is an uninterpreted function of the operands -- a value, or an exception -- so proofs
hold for *all* operands (ints, floats, inf, nan, bool, anything) without modelling arithmetic.
"""
import z3

from hv.vc import smt
from hv.vc.values import SVal, SKey, SInt, SBool, SObj, PyExc, AbstractCallable, OutOfSubset

V = smt.VAL
_F = {}


def fn(name, arity):
    key = (name, arity)
    if key not in _F:
        _F[key] = (z3.Function('op_' + name, *([V] * arity + [V])),
                   z3.Function('raises_' + name, *([V] * arity + [z3.BoolSort()])))
    return _F[key]


NONE = z3.Const('PyNone', V)


def vterm(it, x):
    if isinstance(x, SVal):
        return x.term
    if x is None:
        return NONE
    if isinstance(x, SKey):
        return z3.Function('val_of_key', smt.KEY, V)(x.term)
    if isinstance(x, bool):
        return z3.Const('PyBool_%s' % x, V)
    if isinstance(x, int):
        return z3.Function('val_of_int', z3.IntSort(), V)(z3.IntVal(x))
    if isinstance(x, SInt):
        return z3.Function('val_of_int', z3.IntSort(), V)(x.term)
    raise OutOfSubset('opaque operand %r' % (x,))


def outcome(it, name, args):
    """Apply uninterpreted operator `name`: raises PyExc('OpaqueExc', (name, args)) or returns SVal."""
    ts = [vterm(it, a) for a in args]
    f, r = fn(name, len(ts))
    if it.ctx.branch(r(*ts)):
        raise PyExc('OpaqueExc', (name,) + tuple(ts))
    return SVal(f(*ts))


def expected(name, ts):
    f, r = fn(name, len(ts))
    return f(*ts), r(*ts)


def install(world):
    def binop(it, op, a, b):
        if isinstance(a, SVal) or isinstance(b, SVal):
            if isinstance(a, SObj) or isinstance(b, SObj):
                return NotImplemented
            return outcome(it, op, [a, b])
        return NotImplemented

    def unop(it, op, v):
        if isinstance(v, SVal):
            return outcome(it, op, [v])
        return NotImplemented

    def compare(it, op, a, b):
        if (isinstance(a, SVal) or isinstance(b, SVal)) and not isinstance(a, SObj) and not isinstance(b, SObj):
            return outcome(it, op, [a, b])
        return NotImplemented

    def builtin(name):
        def h(it, args, kw):
            if kw:
                raise OutOfSubset('%s with keywords' % name)
            args = list(args)
            if name == 'pow':
                # A-bi-pow: pow(x, y) and pow(x, y, None) are x ** y
                if len(args) == 3 and args[2] is None:
                    args = args[:2]
                if len(args) == 2:
                    return outcome(it, 'Pow', args)
                return outcome(it, 'pow3', args)
            return outcome(it, name, args)
        return h
    world.hooks['binop'] = binop
    world.hooks['unop'] = unop
    world.hooks['compare'] = compare
    world.hooks['abs'] = lambda it, v: outcome(it, 'abs', [v])
    world.hooks['int'] = lambda it, args, kw: outcome(it, 'int', list(args))
    for n in ('float', 'complex', 'divmod', 'pow', 'oct', 'hex', 'round'):
        world.hooks['builtin_' + n] = builtin(n)
    world.hooks['truth'] = lambda it, v: z3.Function('truth', V, z3.BoolSort())(vterm(it, v))
    world.hooks['wrap_val'] = lambda it, t: SVal(t)

    def val_getattr(it, obj, name):
        if isinstance(obj, SVal) and name.startswith('__') and name.endswith('__'):
            return AbstractCallable(name, lambda it2, args, kw: outcome(it2, 'method' + name, [obj] + list(args)))
        return NotImplemented
    world.hooks['val_getattr'] = val_getattr
