"""Kind model of opaque Python values (used where code walks an isinstance ladder: C10, C19, writers).

kind(v) is an uninterpreted function into a finite enumeration; the isinstance lattice is CPython's:
bool < int, datetime < date, Uri/Bin < str, BasicQuantity registered on Quantity, singletons by identity."""
import z3

from hv.vc import smt
from hv.vc.values import SVal, ClassRef, Builtin

V = smt.VAL
KINDS = ['none', 'na', 'marker', 'remove', 'list', 'dict', 'sdict', 'grid', 'xstr', 'bool', 'ref', 'bin', 'uri', 'str',
         'datetime', 'time', 'date', 'coord', 'qty', 'float', 'int', 'other']
KID = {k: i for i, k in enumerate(KINDS)}
kind = z3.Function('kind', V, z3.IntSort())

# class name -> kinds that are instances of it
ISA = {
    'list': ['list'], 'dict': ['dict'], 'SortableDict': ['sdict'], 'MetadataObject': ['sdict'], 'Grid': ['grid'], 'XStr': ['xstr'],
    'bool': ['bool'], 'int': ['bool', 'int'], 'float': ['float'], 'Ref': ['ref'], 'Bin': ['bin'], 'Uri': ['uri'],
    'str': ['bin', 'uri', 'str'], 'datetime.datetime': ['datetime'], 'datetime.date': ['datetime', 'date'], 'datetime.time': ['time'],
    'Coordinate': ['coord'], 'Quantity': ['qty'], 'Qty': ['qty'], 'BasicQuantity': ['qty'],
    'Number': ['bool', 'int', 'float'], 'NAType': ['na'], 'MarkerType': ['marker'], 'RemoveType': ['remove'],
}
THREE_ONLY = ['na', 'list', 'dict', 'grid', 'xstr']     # transcribed from the property statement
DICT_LIKE = ['sdict']      # SortableDict as a value: not a Haystack kind; either decision is allowed

NA_C, MARKER_C, REMOVE_C, NONE_C = (z3.Const(n, V) for n in ('NA_obj', 'MARKER_obj', 'REMOVE_obj', 'None_obj'))
SINGLETONS = {'na': NA_C, 'marker': MARKER_C, 'remove': REMOVE_C, 'none': NONE_C}


def is_kind(t, names):
    return z3.Or(*[kind(t) == KID[n] for n in names])


def axioms():
    v = z3.Const('v!k', V)
    ax = [z3.ForAll([v], z3.And(kind(v) >= 0, kind(v) < len(KINDS)))]
    for k, c in SINGLETONS.items():
        ax.append(kind(c) == KID[k])
        ax.append(z3.ForAll([v], z3.Implies(kind(v) == KID[k], v == c)))
    return ax


def is30(t):
    return is_kind(t, THREE_ONLY)


def install(world):
    def isinst(it, v, cls):
        if isinstance(v, SVal):
            name = cls.name if isinstance(cls, (ClassRef, Builtin)) else getattr(cls, '__name__', None)
            if name in ISA:
                return is_kind(v.term, ISA[name])
            if name == 'object':
                return True
            return NotImplemented
        return NotImplemented
    world.hooks['isinstance'] = isinst

    def identical(it, a, b):
        def term(x):
            if isinstance(x, SVal):
                return x.term
            if x is None:
                return NONE_C
            return None
        ta, tb = term(a), term(b)
        if ta is not None and tb is not None:
            return it.wrap(ta == tb)
        return NotImplemented
    world.hooks['identical'] = identical
    world.hooks['is_none'] = lambda it, v: it.wrap(v.term == NONE_C) if isinstance(v, SVal) else False
    world.hooks['wrap_val'] = lambda it, t: SVal(t)


def singleton_overrides(world, modnames):
    """module-level names NA / MARKER / REMOVE denote the singleton objects"""
    for m in modnames:
        world.global_overrides[(m, 'NA')] = SVal(NA_C)
        world.global_overrides[(m, 'MARKER')] = SVal(MARKER_C)
        world.global_overrides[(m, 'REMOVE')] = SVal(REMOVE_C)
