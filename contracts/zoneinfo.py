"""Sidecar contracts for hszinc/zoneinfo.py (C17): the Haystack-name <-> Olson-zone maps and timezone_name().

Abstract strings are Keys.  What the code reads from them (ledger A-str-slash): `'/' in s` is the predicate
contains_slash(s); `s.split('/', 1)` of a string containing a slash is [split_prefix(s), split_suffix(s)].
Nothing else about the text of a zone name is used by the proofs.

Date-times are abstract values (ledger A-tz): an aware date-time is (instant, utcoffset, tzinfo).  The tz database
is two uninterpreted functions: zone_offset_at(zone, instant) and, for pytz's `tz.utcoffset(naive)` with
is_dst=None, local_time_invalid(zone, local) / zone_offset_of_local(zone, local) with the one linking fact
    not invalid  =>  zone_offset_at(zone, local - zone_offset_of_local(zone, local)) == zone_offset_of_local(zone, local)
(the localised value has that local time and that offset, so its instant is local - offset).  These library
contracts are validated exhaustively on the host tz database by props/C17_concrete.py (bounded, labelled).
"""
import z3

from hv.vc import smt
from hv.vc.values import (Sym, SKey, SInt, SBool, SSeq, SView, SMap, SSet, SVal, LazyDict, unmap, Builtin, AbstractCallable,
                          ClassRef, PyExc, OutOfSubset)
from hv.vc.world import World, LoopSpec
from hv.vc.ops import NotImpl

MOD = 'hszinc.zoneinfo'
K, I, B = smt.KEY, z3.IntSort(), z3.BoolSort()

has_slash = z3.Function('contains_slash', K, B)
spl_pre = z3.Function('split_prefix', K, K)
spl_suf = z3.Function('split_suffix', K, K)
is_empty = z3.Function('is_empty_string', K, B)

# pytz.all_timezones: a duplicate-free list of names (A-tz-distinct; checked on the host list by the bounded part)
ALL = z3.Const('pytz_all_timezones', z3.ArraySort(I, K))
NALL = z3.Int('len_pytz_all_timezones')
pos = z3.Function('index_in_all_timezones', K, I)
# the Haystack name table (any set)
HDOM = z3.Const('haystack_timezones_set', z3.ArraySort(K, B))

zone_off = z3.Function('zone_offset_at', K, I, I)
local_invalid = z3.Function('local_time_invalid', K, I, B)
local_ambiguous = z3.Function('local_time_ambiguous', K, I, B)
local_off = z3.Function('zone_offset_of_local', K, I, I)

Pair = z3.Datatype('PairKK')
Pair.declare('mk', ('fst', K), ('snd', K))
Pair = Pair.create()


def all_axioms():
    j = z3.Int('j!all')
    a = z3.Select(ALL, j)
    return [NALL >= 0, z3.ForAll([j], z3.Implies(z3.And(j >= 0, j < NALL), z3.And(
        pos(a) == j, z3.Not(is_empty(a)), z3.Implies(has_slash(a), z3.Not(is_empty(spl_suf(a)))))))]


def in_prefix(v, i):
    return z3.And(pos(v) >= 0, pos(v) < i, z3.Select(ALL, pos(v)) == v)


def in_all(v):
    return in_prefix(v, NALL)


def cand(v, k):
    """the zone v is a candidate for the Haystack name k: exact match, or Region/k with a single slash"""
    return z3.Or(v == k, z3.And(has_slash(v), z3.Not(has_slash(spl_suf(v))), spl_suf(v) == k))


def as_smap(it, d):
    d0 = d
    d = unmap(d)
    if isinstance(d, SMap):
        return d
    if isinstance(d0, dict) and len(d0) == 0:
        return SMap(z3.K(K, z3.BoolVal(False)), z3.K(K, z3.Const('nokey', K)), z3.IntVal(0), K, K)
    raise OutOfSubset('expected the name map, got %r' % (d0,))


def wf_map(M, upto=None):
    """name -> zone map: injective, values are host zones (in the scanned prefix), keys are Haystack names,
    every value is the key itself or Region/key."""
    upto = NALL if upto is None else upto
    k = z3.Const('k!wf', K)
    k2 = z3.Const('k2!wf', K)
    dom = lambda x: z3.Select(M.dom, x)
    val = lambda x: z3.Select(M.val, x)
    return [z3.ForAll([k], z3.Implies(dom(k), z3.And(z3.Select(HDOM, k), in_prefix(val(k), upto), cand(val(k), k), z3.Not(is_empty(k))))),
            z3.ForAll([k, k2], z3.Implies(z3.And(dom(k), dom(k2), val(k) == val(k2)), k == k2))]


def used(M, v):
    """the zone v is the value of some name (by the shape clause that name is v itself or its suffix)"""
    return z3.Or(z3.And(z3.Select(M.dom, v), z3.Select(M.val, v) == v),
                 z3.And(has_slash(v), z3.Select(M.dom, spl_suf(v)), z3.Select(M.val, spl_suf(v)) == v))


def complete_map(M, T, upto):
    """every candidate zone (among those scanned so far) of a name that is not mapped (still in T) was given to another name"""
    k = z3.Const('k!cm', K)
    j = z3.Int('j!cm')
    return z3.ForAll([k, j], z3.Implies(z3.And(T(k), j >= 0, j < upto, cand(z3.Select(ALL, j), k)), used(M, z3.Select(ALL, j))))


def inverse(M, R):
    n = z3.Const('n!inv', K)
    z = z3.Const('z!inv', K)
    return [z3.ForAll([n], z3.Implies(z3.Select(M.dom, n), z3.And(z3.Select(R.dom, z3.Select(M.val, n)),
                                                                 z3.Select(R.val, z3.Select(M.val, n)) == n))),
            z3.ForAll([z], z3.Implies(z3.Select(R.dom, z), z3.And(z3.Select(M.dom, z3.Select(R.val, z)),
                                                                 z3.Select(M.val, z3.Select(R.val, z)) == z)))]


# ------------------------------------------------------------------ _map_timezones loop 0
def map_inv(it, env, i, seq):
    M = as_smap(it, env['tz_map'])
    T = env['todo']
    k = z3.Const('k!mi', K)
    td = lambda x: z3.Select(T.dom, x)
    parts = [z3.ForAll([k], z3.And(z3.Select(HDOM, k) == z3.Or(td(k), z3.Select(M.dom, k)),
                                   z3.Not(z3.And(td(k), z3.Select(M.dom, k)))))]
    parts += wf_map(M, i)
    parts.append(complete_map(M, td, i))
    return z3.And(*parts)


def map_havoc(it, env):
    d = env['tz_map']
    sm = SMap(it.ctx.fresh('tzmap_dom', z3.ArraySort(K, B)), it.ctx.fresh('tzmap_val', z3.ArraySort(K, K)),
              it.ctx.fresh('tzmap_size', I), K, K)
    if isinstance(d, LazyDict):
        d.clear()
        d.sym = sm
    else:
        env['tz_map'] = sm
    T = env['todo']
    T.dom = it.ctx.fresh('todo_dom', z3.ArraySort(K, B))
    T.size = it.ctx.fresh('todo_size', I)


# ------------------------------------------------------------------ abstract date-times (A-tz)
class Model(Sym):
    """python-side model object; attribute access goes through hv_getattr"""


class TD(Model):
    """datetime.timedelta: an offset (Int term)"""

    def __init__(self, term):
        self.term = term


class TZ(Model):
    """tzinfo.  kind 'input': the tzinfo of the symbolic input (may or may not have .zone);
    'utc': pytz.utc; 'zone': a pytz zone tzinfo (any of the per-offset instances of that zone); 'fixed': iso8601 offset"""

    def __init__(self, kind, zone=None, has_zone=None):
        self.kind = kind
        self.zone = zone
        self.has_zone = has_zone

    def hv_getattr(self, it, name):
        if name == 'zone':
            if self.kind == 'utc':
                return SKey(it.world.key_const(it, 'UTC'))
            if self.kind == 'zone':
                return SKey(self.zone)
            if self.kind == 'input':
                if it.ctx.branch(self.has_zone):
                    return SKey(self.zone)
            it.raise_('AttributeError', 'tzinfo has no attribute zone')
        if name == 'utcoffset' and self.kind == 'zone':
            zone = self.zone

            def utcoffset(it2, a, k):
                d = a[0]
                if not isinstance(d, DT) or d.off is not None:
                    raise OutOfSubset('tz.utcoffset of a non-naive value')
                loc = d.inst
                # A-tz (pytz, is_dst=None): ambiguous / skipped local times raise
                if it2.ctx.branch(local_invalid(zone, loc)):
                    if it2.ctx.branch(local_ambiguous(zone, loc)):
                        it2.raise_('pytz.AmbiguousTimeError', 'ambiguous')
                    it2.raise_('pytz.NonExistentTimeError', 'skipped')
                o = local_off(zone, loc)
                it2.ctx.assume(zone_off(zone, loc - o) == o)
                return TD(o)
            return Builtin('tz.utcoffset', utcoffset)
        if name in ('localize', 'localise', 'normalize'):
            raise OutOfSubset('tz.%s' % name)
        it.raise_('AttributeError', 'tzinfo has no attribute %s' % name)


class DT(Model):
    """datetime.datetime: inst = UTC instant for aware values / the local wall time for naive ones (off None)."""

    def __init__(self, inst, off, tz, tz_none=None):
        self.inst = inst
        self.off = off
        self.tz = tz
        self.tz_none = tz_none      # symbolic: the input may be naive

    def hv_getattr(self, it, name):
        if name == 'tzinfo':
            if self.tz_none is not None and it.ctx.branch(self.tz_none):
                return None
            return self.tz
        if name == 'utcoffset':
            def utcoffset(it2, a, k):
                if self.off is None or (self.tz_none is not None and it2.ctx.branch(self.tz_none)):
                    return None
                return TD(self.off)
            return Builtin('dt.utcoffset', utcoffset)
        if name == 'replace':
            def replace(it2, a, k):
                if a or set(k) != {'tzinfo'} or k['tzinfo'] is not None:
                    raise OutOfSubset('datetime.replace other than tzinfo=None')
                if self.off is None:
                    return DT(self.inst, None, None)
                return DT(self.inst + self.off, None, None)      # the wall-clock reading
            return Builtin('dt.replace', replace)
        if name == 'astimezone':
            def astimezone(it2, a, k):
                tz = a[0]
                if self.off is None or (self.tz_none is not None and it2.ctx.branch(self.tz_none)):
                    raise OutOfSubset('astimezone of a naive value (system local time)')
                if not isinstance(tz, TZ):
                    raise OutOfSubset('astimezone(%r)' % (tz,))
                if tz.kind == 'utc':
                    return DT(self.inst, z3.IntVal(0), tz)
                if tz.kind == 'zone':
                    return DT(self.inst, zone_off(tz.zone, self.inst), tz)
                if tz.kind == 'input':
                    # A-tz-zoneattr: a tzinfo whose .zone names a mapped Olson zone is pytz's tzinfo of that zone:
                    # astimezone() to it yields that zone's offset at the instant.  Any other tzinfo: unknown offset.
                    o = z3.If(z3.And(tz.has_zone, tz.is_mapped), zone_off(tz.zone, self.inst),
                              it2.ctx.fresh('foreign_offset', I))
                    return DT(self.inst, o, tz)
                raise OutOfSubset('astimezone to %s' % tz.kind)
            return Builtin('dt.astimezone', astimezone)
        if name == 'isoformat':
            raise OutOfSubset('isoformat of an abstract date-time (C04/C06)')
        it.raise_('AttributeError', 'datetime has no attribute %s' % name)


def install(w, with_map_contract=False):
    """model of the environment of hszinc.zoneinfo"""
    w.global_overrides[(MOD, 'LATEST_VER')] = SVal(z3.Const('LATEST_VER', smt.VAL))
    w.global_overrides[('hszinc.version', 'LATEST_VER')] = SVal(z3.Const('LATEST_VER', smt.VAL))
    w.global_overrides[(MOD, 'HAYSTACK_TIMEZONES_SET')] = lambda it: SSet(HDOM, z3.Int('len_haystack_set'), K)

    def pytz_timezone(it, a, k):
        name = a[0]
        t = it.as_term(name, K) if not isinstance(name, str) else it.world.key_const(it, name)
        if not it.ctx.branch(in_all(t)):
            it.raise_('pytz.UnknownTimeZoneError', name)
        return TZ('zone', zone=t)

    def all_timezones(it):
        for ax in all_axioms():
            it.ctx.assume(ax)
        return SSeq(NALL, ALL, K, mutable=True, kind='list')
    NS = World.Namespace

    class PytzNS(NS):
        def get(self, it, attr):
            if attr == 'all_timezones':
                return all_timezones(it)
            return NS.get(self, it, attr)
    w.externals['pytz'] = PytzNS('pytz', {'timezone': Builtin('pytz.timezone', pytz_timezone), 'utc': TZ('utc'),
                                          'InvalidTimeError': ClassRef('pytz.InvalidTimeError'),
                                          'AmbiguousTimeError': ClassRef('pytz.AmbiguousTimeError'),
                                          'NonExistentTimeError': ClassRef('pytz.NonExistentTimeError'),
                                          'UnknownTimeZoneError': ClassRef('pytz.UnknownTimeZoneError')})
    w.class_ctor['datetime.timedelta'] = _timedelta
    w.loop_specs[(MOD + '._map_timezones', 0)] = LoopSpec(map_inv, map_havoc)
    w.loop_specs[(MOD + '.timezone_name', 0)] = LoopSpec(lambda it, env, i, seq: z3.BoolVal(True))

    def val_contains(it, container, x):
        if isinstance(container, SKey) and x == '/':
            return it.wrap(has_slash(container.term))
        raise OutOfSubset('in on abstract string')
    w.hooks['val_contains'] = val_contains

    def val_getattr(it, obj, name):
        if isinstance(obj, Model) and hasattr(obj, 'hv_getattr'):
            return obj.hv_getattr(it, name)
        if isinstance(obj, SKey) and name == 'split':
            def split(it2, a, k):
                if list(a) != ['/', 1] or k:
                    raise OutOfSubset('split other than split("/", 1)')
                if it2.ctx.branch(has_slash(obj.term)):
                    return [SKey(spl_pre(obj.term)), SKey(spl_suf(obj.term))]
                return [obj]
            return Builtin('str.split', split)
        return NotImpl
    w.hooks['val_getattr'] = val_getattr

    def compare(it, op, a, b):
        if isinstance(a, TD) or isinstance(b, TD):
            if op not in ('Eq', 'NotEq'):
                raise OutOfSubset('ordering of timedeltas')
            if isinstance(a, TD) and isinstance(b, TD):
                t = a.term == b.term
                return it.wrap(t if op == 'Eq' else z3.Not(t))
            return op == 'NotEq'      # timedelta vs None / anything else
        return NotImpl
    w.hooks['compare'] = compare

    def as_term(it, v, sort):
        if isinstance(v, str) and (sort is None or sort == K):
            return it.world.key_const(it, v)
        if isinstance(v, tuple) and len(v) == 2:
            return Pair.mk(it.as_term(v[0], K), it.as_term(v[1], K))
        return None
    w.hooks['as_term'] = as_term

    def wrap(it, term):
        if term.sort() == Pair:
            return (SKey(z3.simplify(Pair.fst(term))), SKey(z3.simplify(Pair.snd(term))))
        raise OutOfSubset('cannot wrap sort %s' % term.sort())
    w.hooks['wrap'] = wrap

    def map_items(it, m):
        """A-bi-dict: items() enumerates every key exactly once, with its value"""
        n = m.size
        ek = it.ctx.fresh('items_key', z3.ArraySort(I, K))
        idx = z3.Function('items_index_%d' % it.ctx.counter_next(), K, I) if hasattr(it.ctx, 'counter_next') else \
            z3.Function('items_index_%s' % str(ek), K, I)
        j = z3.Int('j!it')
        k = z3.Const('k!it', K)
        it.ctx.assume(n >= 0)
        it.ctx.assume(z3.ForAll([j], z3.Implies(z3.And(j >= 0, j < n), z3.And(z3.Select(m.dom, z3.Select(ek, j)), idx(z3.Select(ek, j)) == j))))
        it.ctx.assume(z3.ForAll([k], z3.Implies(z3.Select(m.dom, k), z3.And(idx(k) >= 0, idx(k) < n, z3.Select(ek, idx(k)) == k))))
        return SSeq(n, z3.Lambda([j], Pair.mk(z3.Select(ek, j), z3.Select(m.val, z3.Select(ek, j)))), Pair, mutable=False, kind='tuple')
    w.hooks['map_items'] = map_items

    def dict_from_pairs(it, seq):
        """A-bi-dict: dict(pairs) has exactly the first components as keys; each value is the second component of
        a pair with that key (the last one: not needed, not stated)"""
        if not isinstance(seq, SSeq) or seq.esort != Pair:
            raise OutOfSubset('dict() of %r' % (seq,))
        n = seq.length
        R = SMap(it.ctx.fresh('dict_dom', z3.ArraySort(K, B)), it.ctx.fresh('dict_val', z3.ArraySort(K, K)), it.ctx.fresh('dict_size', I), K, K)
        wfn = z3.Function('dict_source_%s' % str(R.dom), K, I)
        j = z3.Int('j!dp')
        z = z3.Const('z!dp', K)
        it.ctx.assume(z3.And(R.size >= 0, R.size <= z3.If(n < 0, 0, n)))
        it.ctx.assume(z3.ForAll([j], z3.Implies(z3.And(j >= 0, j < n), z3.Select(R.dom, Pair.fst(z3.Select(seq.arr, j))))))
        it.ctx.assume(z3.ForAll([z], z3.Implies(z3.Select(R.dom, z), z3.And(
            wfn(z) >= 0, wfn(z) < n, Pair.fst(z3.Select(seq.arr, wfn(z))) == z, z3.Select(R.val, z) == Pair.snd(z3.Select(seq.arr, wfn(z)))))))
        d = LazyDict()
        d.sym = R
        return d
    w.hooks['dict_from_pairs'] = dict_from_pairs

    def truth(it, v):
        if isinstance(v, Model):
            return True
        if isinstance(v, SKey):
            return z3.Not(is_empty(v.term))
        raise OutOfSubset('truthiness of %r' % (v,))
    w.hooks['truth'] = truth
    return w


def _timedelta(it, cls, args, kw):
    if kw or len(args) != 1 or args[0] != 0:
        raise OutOfSubset('timedelta other than timedelta(0)')
    return TD(z3.IntVal(0))


# ------------------------------------------------------------------ the state the other functions see
class Maps(object):
    """a well-formed pair of maps (the post-condition of _gen_map)"""

    def __init__(self, it, tag='g'):
        self.M = SMap(it.ctx.fresh('TZ_MAP_dom', z3.ArraySort(K, B)), it.ctx.fresh('TZ_MAP_val', z3.ArraySort(K, K)), it.ctx.fresh('TZ_MAP_size', I), K, K)
        self.R = SMap(it.ctx.fresh('TZ_RMAP_dom', z3.ArraySort(K, B)), it.ctx.fresh('TZ_RMAP_val', z3.ArraySort(K, K)), it.ctx.fresh('TZ_RMAP_size', I), K, K)
        for ax in all_axioms():
            it.ctx.assume(ax)
        for f in wf_map(self.M) + inverse(self.M, self.R):
            it.ctx.assume(f)

    def as_dicts(self):
        a, b = LazyDict(), LazyDict()
        a.sym, b.sym = self.M, self.R
        return a, b


def sym_input_dt(it, maps):
    """any datetime.datetime: naive, or aware with any tzinfo (A-tz-zoneattr: see DT.astimezone)"""
    inst = it.ctx.fresh('instant', I)
    off = it.ctx.fresh('utcoffset', I)
    tz_none = it.ctx.fresh('tzinfo_is_None', B)
    tz = TZ('input', zone=it.ctx.fresh('tzinfo_zone', K), has_zone=it.ctx.fresh('tzinfo_has_zone', B))
    tz.is_mapped = z3.Select(maps.R.dom, tz.zone)
    return DT(inst, off, tz, tz_none=tz_none)
