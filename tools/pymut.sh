#!/bin/sh
# tools/pymut.sh <mutator.py> <arg> <prop> [check args]: python-scripted mutation on a scratch worktree
M="$1"; A="$2"; PROP="$3"; shift 3
S=$(mktemp -d /tmp/hvmut.XXXXXX)
trap 'git -C /repo worktree remove --force "$S/repo" 2>/dev/null; rm -rf "$S"' EXIT INT TERM
git -C /repo worktree add --detach "$S/repo" HEAD >/dev/null 2>&1
python3 "$M" "$S/repo" "$A"
( cd "$S/repo" && git diff --stat | tail -1 )
cd /verif
HV_REPO="$S/repo" ./check "$PROP" "$@" ; RC=$?
git -C /repo worktree remove --force "$S/repo"; rm -rf "$S"
echo "exit=$RC"
