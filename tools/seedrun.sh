#!/bin/sh
# run every stored seed against the check of its property (scratch worktree + HV_REPO); prints one line per seed
cd /verif
for d in seeded/*/; do
  s=$(basename $d); p=${s%%-*}
  S=$(mktemp -d /tmp/hvseed.XXXXXX)
  git -C /repo worktree add --detach "$S/repo" HEAD >/dev/null 2>&1
  git -C "$S/repo" apply /verif/$d/patch.diff
  out=$(HV_REPO="$S/repo" ./check $p 2>&1); rc=$?
  nv=$(echo "$out" | grep -ac "^VIOLATION")
  nr=$(echo "$out" | grep -a "^VIOLATION" | grep -avc "no-failing-input-found")
  first=$(echo "$out" | grep -a "^VIOLATION" | head -1 | sed 's/.*replay=replays\/[^\/]*\///' | cut -c1-90)
  echo "$s exit=$rc violations=$nv with-replayed-input=$nr first=$first"
  git -C /repo worktree remove --force "$S/repo"; rm -rf "$S"
done
