#!/bin/sh
# tools/verify_seed.sh <dir with patch.diff demo.py>: confirm a seeded change on a scratch worktree of the current /repo HEAD
D="$1"
S=$(mktemp -d /tmp/hvseed.XXXXXX)
git -C /repo worktree add --detach "$S/repo" HEAD >/dev/null 2>&1
cd "$S/repo"
echo "--- $D"
/venv/bin/python "$D/demo.py" >/dev/null 2>&1; echo "demo on unchanged tree: exit $?"
if git apply --check "$D/patch.diff" 2>/dev/null; then
  git apply "$D/patch.diff"
  /venv/bin/python "$D/demo.py" >/dev/null 2>&1; echo "demo on changed tree: exit $?"
  /venv/bin/python -m pytest -q -p no:cacheprovider 2>&1 | tail -1
else
  echo "PATCH DOES NOT APPLY"
fi
cd /; git -C /repo worktree remove --force "$S/repo"; rm -rf "$S"
