#!/bin/sh
# tools/tryseed.sh <seed dir under /verif/seeded> [check args]: run the property's check against a scratch worktree with the seed applied
d=$1; shift
s=$(basename $d); p=${s%%-*}
S=$(mktemp -d /tmp/hvseed.XXXXXX)
trap 'git -C /repo worktree remove --force "$S/repo" 2>/dev/null; rm -rf "$S"' EXIT INT TERM
git -C /repo worktree add --detach "$S/repo" HEAD >/dev/null 2>&1
git -C "$S/repo" apply /verif/seeded/$s/patch.diff || echo "PATCH DOES NOT APPLY"
cd /verif
out=$(HV_REPO="$S/repo" ./check $p "$@" 2>&1); rc=$?
echo "$out" | grep -a "^VIOLATION\|^KNOWN\|tier=" | cut -c1-260 | head -12
echo "$s exit=$rc violations=$(echo "$out" | grep -ac '^VIOLATION') with-input=$(echo "$out" | grep -a '^VIOLATION' | grep -avc no-failing-input-found)"
git -C /repo worktree remove --force "$S/repo"; rm -rf "$S"
