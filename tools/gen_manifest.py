#!/usr/bin/env python3
"""Regenerates MANIFEST.json from the table below (kept valid at all times)."""
import json, os
ROOT = os.path.dirname(os.path.dirname(os.path.abspath(__file__)))
BASE = json.load(open('/root/.vp/BASELINE.json'))
CLAIMED = json.load(open(os.path.join(ROOT, 'tools', 'claims.json')))
props = [json.loads(l) for l in open(os.path.join(ROOT, 'properties.jsonl'))]
checks, na = [], []
for p in props:
    c = CLAIMED.get(p['id'])
    if c is None or c.get('not_applicable'):
        na.append({'property_id': p['id'], 'reason': (c or {}).get('reason', 'check not built yet in this round (see DESIGN.md section 8 build order)')})
        continue
    checks.append({
        'property_id': p['id'],
        'quick_cmd': './check %s --tier quick' % p['id'],
        'thorough_cmd': './check %s --tier thorough' % p['id'],
        'evidence_file': 'evidence/%s.json' % p['id'],
        'replay_cmd_template': './check %s --replay {path}' % p['id'],
        'engine': c.get('engine', 'hv'),
        'level_claimed': {'category': 'proof', 'text': c['text'], 'design_ref': 'DESIGN.md section 4 %s and section 9' % p['id']},
        'level_note': c['note'],
        'technique': c['technique'],
    })
m = {
    'version': 1,
    'setup_cmd': './setup.sh',
    'hooks': {'guard': 'HSZINC_VERIF', 'enable': 'none: contracts are sidecar files keyed by qualified name, /repo is read (ast) and never instrumented',
              'baseline_off_cmd': BASE['cmd'].replace(' --junitxml=<file>', ''), 'source_commits': [], 'add_only': True},
    'engines': [
        {'name': 'hv/pyvc (E1)', 'path': 'hv/vc', 'serves_properties': sorted(CLAIMED), 'kind_free_text': 'own deductive verifier: symbolic execution of the real source ast into VCs with sidecar contracts/loop invariants, discharged by z3 then cvc5'},
        {'name': 'hv/relang (E2)', 'path': 'hv/lang', 'serves_properties': ['C01', 'C02', 'C03', 'C04', 'C05', 'C06', 'C07', 'C08', 'C09', 'C12', 'C18'],
         'kind_free_text': 'symbolic-automata decision procedure over U+0000..U+10FFFF for regular-language obligations; shape-typed symbolic strings (hv/vc/shapes.py)'},
        {'name': 'hv/peg (E3)', 'path': 'hv/peg', 'serves_properties': ['C01', 'C03', 'C07', 'C08', 'C09'],
         'kind_free_text': 'exact recursive-descent (PEG) semantics of the pyparsing object graph of the running hszinc.zincparser as marked regular languages (product automata, nesting unrolled), decided by language inclusion; token alignment for the real parse actions (props/zincact.py)'},
        {'name': 'og (E4)', 'path': 'props/C13.py', 'serves_properties': ['C13'],
         'kind_free_text': 'Owicki-Gries proof outline VCs over atomic actions extracted from the AST, discharged through E1/z3'},
    ],
    'checks': checks,
    'not_applicable': na,
    'notes': 'fix: commits in /repo are recorded in known_findings.json as fixed entries; DESIGN.md section 9 describes what was built, the known findings and the seeded changes (seeded/, tools/seedrun.sh).',
}
json.dump(m, open(os.path.join(ROOT, 'MANIFEST.json'), 'w'), indent=1)
print('claimed', [c['property_id'] for c in checks])
