#!/bin/sh
# tools/mutcheck.sh <patch.diff> <prop> [extra check args]: run a check against a scratch copy of /repo with the patch applied
set -e
P="$1"; PROP="$2"; shift 2
S=$(mktemp -d /tmp/hvmut.XXXXXX)
trap 'git -C /repo worktree remove --force "$S/repo" 2>/dev/null; rm -rf "$S"' EXIT INT TERM
git -C /repo worktree add --detach "$S/repo" HEAD >/dev/null 2>&1
( cd "$S/repo" && git apply --3way "$P" 2>/dev/null || git apply "$P" )
cd /verif
HV_REPO="$S/repo" ./check "$PROP" "$@" ; RC=$?
git -C /repo worktree remove --force "$S/repo"; rm -rf "$S"
echo "exit=$RC"
