#!/bin/sh
# tools/sedmut.sh <file rel to repo> <sed expr> <prop> [args]: check against a scratch copy with a sed edit
F="$1"; E="$2"; PROP="$3"; shift 3
S=$(mktemp -d /tmp/hvmut.XXXXXX)
trap 'git -C /repo worktree remove --force "$S/repo" 2>/dev/null; rm -rf "$S"' EXIT INT TERM
git -C /repo worktree add --detach "$S/repo" HEAD >/dev/null 2>&1
sed -i "$E" "$S/repo/$F"
( cd "$S/repo" && git diff --stat | tail -1 )
cd /verif
HV_REPO="$S/repo" ./check "$PROP" "$@" ; RC=$?
git -C /repo worktree remove --force "$S/repo"; rm -rf "$S"
echo "exit=$RC"
