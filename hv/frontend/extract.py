"""Front end: mechanical extraction of the real source, on every run.

Nothing here is a transcription: every function body the engines verify is the `ast` of the
file as it is on disk *now* (REPO = $HV_REPO or /repo).  What extraction drops is stated in
DESIGN.md 2.2: docstrings, comments, decorators are not executed, print()/LOG.*/warnings.warn
are no-ops.
"""
import ast
import hashlib
import os
import sys

REPO = os.environ.get('HV_REPO', '/repo')

_STDLIB_ABC = None


def stdlib_abc_path():
    import _collections_abc
    return _collections_abc.__file__


class Unit(object):
    """One extracted function / method / lambda."""

    def __init__(self, qualname, node, path, src, cls=None, module=None):
        self.qualname = qualname
        self.node = node
        self.path = path
        self.cls = cls
        self.module = module
        seg = ast.get_source_segment(src, node) or ''
        self.sha = hashlib.sha256(ast.dump(node, include_attributes=False).encode()).hexdigest()[:16]
        self.lines = (node.lineno, getattr(node, 'end_lineno', node.lineno))
        self.text = seg

    def describe(self):
        return {'function': self.qualname, 'file': os.path.relpath(self.path, REPO) if self.path.startswith(REPO) else self.path,
                'lines': '%d-%d' % self.lines, 'ast_sha': self.sha}


class ClassInfo(object):
    def __init__(self, name, node, module):
        self.name = name
        self.node = node
        self.module = module
        self.methods = {}
        self.bases = []
        for b in node.bases:
            self.bases.append(ast.unparse(b))
        for st in node.body:
            if isinstance(st, ast.FunctionDef):
                self.methods[st.name] = st


class Module(object):
    def __init__(self, name, path):
        self.name = name
        self.path = path
        with open(path, 'r', encoding='utf-8') as f:
            self.src = f.read()
        self.tree = ast.parse(self.src, filename=path)
        self.functions = {}
        self.classes = {}
        self.assigns = {}     # name -> list of value nodes (module level, in order)
        self.imports = {}     # local name -> (module, attr)
        self.star_imports = []  # modules imported with *
        self._index(self.tree.body)

    def _index(self, body):
        for st in body:
            if isinstance(st, ast.FunctionDef):
                self.functions[st.name] = st
            elif isinstance(st, ast.ClassDef):
                self.classes[st.name] = ClassInfo(st.name, st, self)
            elif isinstance(st, ast.Assign):
                for t in st.targets:
                    if isinstance(t, ast.Name):
                        self.assigns.setdefault(t.id, []).append(st.value)
            elif isinstance(st, ast.ImportFrom):
                for a in st.names:
                    if a.name == '*':
                        self.star_imports.append(('.' * st.level) + (st.module or ''))
                        continue
                    self.imports[a.asname or a.name] = (('.' * st.level) + (st.module or ''), a.name)
            elif isinstance(st, ast.Import):
                for a in st.names:
                    self.imports[a.asname or a.name] = (a.name, None)
            elif isinstance(st, (ast.If, ast.Try)):
                # module-level if/try: index every branch (later definitions win, as at import)
                for blk in ('body', 'orelse', 'finalbody'):
                    self._index(getattr(st, blk, []) or [])
                for h in getattr(st, 'handlers', []) or []:
                    # "except ImportError" fallbacks are dead on this interpreter; do not index
                    pass

    def unit(self, qual):
        """qual: 'func' or 'Class.method'"""
        if '.' in qual:
            c, m = qual.split('.', 1)
            ci = self.classes[c]
            node = ci.methods[m]
            return Unit('%s.%s' % (self.name, qual), node, self.path, self.src, cls=ci, module=self)
        node = self.functions[qual]
        return Unit('%s.%s' % (self.name, qual), node, self.path, self.src, module=self)

    def const(self, name):
        """Literal-evaluate the last module-level assignment of `name` (str/number/tuple/list)."""
        v = self.assigns[name][-1]
        return ast.literal_eval(v)

    def regex(self, name):
        """(pattern, flags) of NAME = re.compile(<str>[, flags=...]) at module level."""
        v = self.assigns[name][-1]
        if not (isinstance(v, ast.Call) and ast.unparse(v.func) in ('re.compile',)):
            raise KeyError('%s is not a re.compile(...) assignment' % name)
        pat = _const_str(v.args[0])
        flags = 0
        import re
        fl = None
        if len(v.args) > 1:
            fl = v.args[1]
        for kw in v.keywords:
            if kw.arg == 'flags':
                fl = kw.value
        if fl is not None:
            flags = _eval_flags(fl)
        return pat, flags

    def lambdas_in_assign(self, name):
        v = self.assigns[name][-1]
        return [n for n in ast.walk(v) if isinstance(n, ast.Lambda)]


def _const_str(node):
    """Evaluate a constant string expression (adjacent-literal concatenation, +)."""
    if isinstance(node, ast.Constant) and isinstance(node.value, str):
        return node.value
    if isinstance(node, ast.BinOp) and isinstance(node.op, ast.Add):
        return _const_str(node.left) + _const_str(node.right)
    raise ValueError('not a constant string: %s' % ast.dump(node))


def _eval_flags(node):
    import re
    if isinstance(node, ast.Attribute) and isinstance(node.value, ast.Name) and node.value.id == 're':
        return int(getattr(re, node.attr))
    if isinstance(node, ast.BinOp) and isinstance(node.op, ast.BitOr):
        return _eval_flags(node.left) | _eval_flags(node.right)
    if isinstance(node, ast.Constant) and isinstance(node.value, int):
        return node.value
    raise ValueError('unsupported flags expression')


_MODS = {}


def module(name):
    """name: 'hszinc.version' or 'stdlib._collections_abc'"""
    if name in _MODS:
        return _MODS[name]
    if name == 'stdlib._collections_abc':
        path = stdlib_abc_path()
    else:
        path = os.path.join(REPO, *name.split('.')) + '.py'
    m = Module(name, path)
    _MODS[name] = m
    return m


def reset_cache():
    _MODS.clear()


def repo_fingerprint(files):
    h = hashlib.sha256()
    for f in sorted(files):
        p = os.path.join(REPO, f)
        try:
            with open(p, 'rb') as fh:
                h.update(fh.read())
        except OSError:
            h.update(b'<missing>')
    return h.hexdigest()[:16]
