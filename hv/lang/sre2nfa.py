"""CPython `re` pattern -> NFA, from the exact parse tree CPython compiles (re._parser.parse)."""
import re
try:
    import re._parser as sre_parse
    import re._constants as sre_c
except ImportError:      # pragma: no cover
    import sre_parse
    import sre_constants as sre_c

from .charset import CS, category, MAXCP
from . import automata as A


class Unsupported(Exception):
    pass


def _in_set(items, flags):
    cs = CS()
    negate = False
    for op, av in items:
        if op is sre_c.NEGATE:
            negate = True
        elif op is sre_c.LITERAL:
            cs = cs | CS.rng(av, av)
        elif op is sre_c.RANGE:
            cs = cs | CS.rng(av[0], av[1])
        elif op is sre_c.CATEGORY:
            cs = cs | category(str(av))
        else:
            raise Unsupported('set item %s' % (op,))
    if negate:
        cs = ~cs
    return cs


def build(tree, flags, marks=(), top=True):
    """-> (NFA of the body, ends_with_dollar: bool)"""
    parts = []
    items = list(tree)
    dollar = False
    for idx, (op, av) in enumerate(items):
        if op is sre_c.LITERAL:
            if flags & re.IGNORECASE:
                raise Unsupported('IGNORECASE')
            parts.append(A.cset(CS.rng(av, av)))
        elif op is sre_c.NOT_LITERAL:
            parts.append(A.cset(~CS.rng(av, av)))
        elif op is sre_c.ANY:
            parts.append(A.cset(CS.full() if flags & re.DOTALL else ~CS.of('\n')))
        elif op is sre_c.IN:
            parts.append(A.cset(_in_set(av, flags)))
        elif op is sre_c.BRANCH:
            alts = []
            for alt in av[1]:
                n, d = build(alt, flags, marks, top=False)
                if d:
                    raise Unsupported('$ inside a branch')
                alts.append(n)
            parts.append(A.union(*alts))
        elif op is sre_c.SUBPATTERN:
            group, add_f, del_f, p = av
            n, d = build(p, (flags | add_f) & ~del_f, marks, top=False)
            if d:
                raise Unsupported('$ inside a group')
            if group is not None and group in marks:
                n = A.concat(A.mark('<%d' % group), n, A.mark('>%d' % group))
            parts.append(n)
        elif op in (sre_c.MAX_REPEAT, sre_c.MIN_REPEAT) or str(op) == 'POSSESSIVE_REPEAT':
            lo, hi, p = av
            n, d = build(p, flags, marks, top=False)
            if d:
                raise Unsupported('$ inside a repeat')
            if marks and n.marks() and not (lo == 0 and hi == 1):
                # a captured group inside a repetition: the capture is the last iteration; mark only that one
                plain = A.erase_marks(n)
                if lo == 0:
                    rep = A.union(A.epsilon(), A.concat(A.repeat(plain, 0, None if hi is sre_c.MAXREPEAT else hi - 1), n))
                else:
                    rep = A.concat(A.repeat(plain, lo - 1, None if hi is sre_c.MAXREPEAT else hi - 1), n)
                parts.append(rep)
            else:
                parts.append(A.repeat(n, lo, None if hi is sre_c.MAXREPEAT else hi))
        elif op is sre_c.AT:
            if av in (sre_c.AT_BEGINNING, sre_c.AT_BEGINNING_STRING):
                if idx != 0 or not top:
                    raise Unsupported('^ not at the start')
            elif av is sre_c.AT_END:
                if idx != len(items) - 1 or not top:
                    raise Unsupported('$ not at the end')
                dollar = True
            elif av is sre_c.AT_END_STRING:
                if idx != len(items) - 1 or not top:
                    raise Unsupported('\\Z not at the end')
                dollar = 'Z'
            else:
                raise Unsupported('anchor %s' % (av,))
        elif op is sre_c.ASSERT or op is sre_c.ASSERT_NOT:
            raise Unsupported('look-around')
        else:
            raise Unsupported('regex op %s' % (op,))
    return (A.concat(*parts) if parts else A.epsilon()), dollar


def parse(pattern, flags=0):
    return sre_parse.parse(pattern, flags)


def body(pattern, flags=0, marks=()):
    """language of the pattern proper (what fullmatch would accept if `$`/`^` are plain anchors)"""
    t = parse(pattern, flags)
    n, d = build(t, t.state.flags if hasattr(t, 'state') else flags, marks)
    return n


def match_language(pattern, flags=0, marks=()):
    """{ w : re.compile(pattern, flags).match(w) succeeds }  (prefix match; `$` semantics incl. MULTILINE modelled exactly)"""
    t = parse(pattern, flags)
    fl = t.state.flags if hasattr(t, 'state') else flags
    n, d = build(t, fl, marks)
    if d is True:
        if fl & re.MULTILINE:
            tail = A.union(A.epsilon(), A.concat(A.lit('\n'), A.sigma_star()))
        else:
            tail = A.union(A.epsilon(), A.lit('\n'))
        return A.concat(n, tail)
    if d == 'Z':
        return n
    return A.concat(n, A.sigma_star())


def group_language(pattern, group, flags=0):
    """language of what group `group` can capture (independent of match priorities)"""
    t = parse(pattern, flags)
    fl = t.state.flags if hasattr(t, 'state') else flags

    def find(tree, flags):
        for op, av in tree:
            if op is sre_c.SUBPATTERN:
                g, add_f, del_f, p = av
                f2 = (flags | add_f) & ~del_f
                if g == group:
                    return build(p, f2, (), top=False)[0]
                r = find(p, f2)
                if r is not None:
                    return r
            elif op is sre_c.BRANCH:
                for alt in av[1]:
                    r = find(alt, flags)
                    if r is not None:
                        return r
            elif op in (sre_c.MAX_REPEAT, sre_c.MIN_REPEAT):
                r = find(av[2], flags)
                if r is not None:
                    return r
        return None
    r = find(t, fl)
    if r is None:
        raise KeyError('no group %r' % (group,))
    return r


def ngroups(pattern, flags=0):
    return re.compile(pattern, flags).groups
