"""E2 `relang`: symbolic finite automata over U+0000..U+10FFFF (interval labels) plus named mark symbols.

Decision procedures: emptiness (shortest witness), intersection, inclusion (via determinisation on the
minterm partition and complement), ambiguity-free group alignment via marks.  Complete for regular languages."""
import collections

from .charset import CS, minterms


class NFA(object):
    def __init__(self):
        self.n = 0
        self.start = None
        self.finals = set()
        self.trans = []      # (src, label, dst); label: CS | str (mark) | None (epsilon)

    def new(self):
        self.n += 1
        return self.n - 1

    def add(self, s, label, d):
        self.trans.append((s, label, d))

    def copy_into(self, other):
        """append other's states; returns (offset)"""
        off = self.n
        self.n += other.n
        for s, l, d in other.trans:
            self.trans.append((s + off, l, d + off))
        return off

    def labels(self):
        return [l for _, l, _ in self.trans if isinstance(l, CS)]

    def marks(self):
        return {l for _, l, _ in self.trans if isinstance(l, str)}


def _single(label):
    a = NFA()
    s, f = a.new(), a.new()
    a.start = s
    a.finals = {f}
    a.add(s, label, f)
    return a


def epsilon():
    a = NFA()
    s = a.new()
    a.start = s
    a.finals = {s}
    return a


def empty():
    a = NFA()
    a.start = a.new()
    return a


def cset(cs):
    return _single(cs) if cs else empty()


def mark(name):
    return _single(name)


def lit(s):
    a = epsilon()
    for ch in s:
        a = concat(a, cset(CS.of(ch)))
    return a


def concat(*parts):
    parts = [p for p in parts]
    if not parts:
        return epsilon()
    out = NFA()
    off = out.copy_into(parts[0])
    out.start = parts[0].start + off
    finals = {f + off for f in parts[0].finals}
    for p in parts[1:]:
        off = out.copy_into(p)
        for f in finals:
            out.add(f, None, p.start + off)
        finals = {f + off for f in p.finals}
    out.finals = finals
    return out


def union(*parts):
    out = NFA()
    s = out.new()
    out.start = s
    for p in parts:
        off = out.copy_into(p)
        out.add(s, None, p.start + off)
        out.finals |= {f + off for f in p.finals}
    return out


def star(a):
    out = NFA()
    s = out.new()
    out.start = s
    out.finals = {s}
    off = out.copy_into(a)
    out.add(s, None, a.start + off)
    for f in a.finals:
        out.add(f + off, None, s)
    return out


def opt(a):
    return union(a, epsilon())


def plus(a):
    return concat(a, star(a))


def repeat(a, lo, hi):
    parts = [a] * lo
    if hi is None:
        parts.append(star(a))
    else:
        parts += [opt(a)] * (hi - lo)
    return concat(*parts) if parts else epsilon()


def sigma_star():
    return star(cset(CS.full()))


def erase_marks(a, names=None):
    out = NFA()
    out.n, out.start, out.finals = a.n, a.start, set(a.finals)
    for s, l, d in a.trans:
        if isinstance(l, str) and (names is None or l in names):
            out.add(s, None, d)
        else:
            out.add(s, l, d)
    return out


def allow_marks(a, names):
    """inverse of erasing: the marks may appear anywhere"""
    out = NFA()
    out.n, out.start, out.finals, out.trans = a.n, a.start, set(a.finals), list(a.trans)
    for q in range(a.n):
        for m in names:
            out.add(q, m, q)
    return out


class Alphabet(object):
    def __init__(self, automata, extra_sets=()):
        sets = []
        marks = set()
        for a in automata:
            sets += a.labels()
            marks |= a.marks()
        sets += list(extra_sets)
        self.classes = minterms(list(dict.fromkeys(sets)))
        self.marks = sorted(marks)
        self.nsym = len(self.classes) + len(self.marks)
        self._cache = {}

    def syms_of(self, label):
        if isinstance(label, str):
            return (len(self.classes) + self.marks.index(label),)
        r = self._cache.get(label)
        if r is None:
            r = tuple(i for i, c in enumerate(self.classes) if (c & label))
            self._cache[label] = r
        return r

    def show(self, sym):
        if sym < len(self.classes):
            return chr(self.classes[sym].sample())
        return self.marks[sym - len(self.classes)]


class DFA(object):
    def __init__(self, alpha):
        self.alpha = alpha
        self.delta = []       # state -> list over symbols of next state
        self.finals = set()
        self.start = 0


def determinize(a, alpha):
    eps = collections.defaultdict(list)
    step = collections.defaultdict(lambda: collections.defaultdict(set))
    for s, l, d in a.trans:
        if l is None:
            eps[s].append(d)
        else:
            for sym in alpha.syms_of(l):
                step[s][sym].add(d)

    def closure(states):
        seen = set(states)
        stack = list(states)
        while stack:
            q = stack.pop()
            for r in eps[q]:
                if r not in seen:
                    seen.add(r)
                    stack.append(r)
        return frozenset(seen)
    d = DFA(alpha)
    start = closure([a.start]) if a.start is not None else frozenset()
    ids = {start: 0}
    d.delta.append(None)
    work = [start]
    while work:
        S = work.pop()
        row = [None] * alpha.nsym
        nxt = collections.defaultdict(set)
        for q in S:
            for sym, ds in step[q].items():
                nxt[sym] |= ds
        for sym in range(alpha.nsym):
            T = closure(nxt[sym]) if sym in nxt else frozenset()
            if T not in ids:
                ids[T] = len(ids)
                d.delta.append(None)
                work.append(T)
            row[sym] = ids[T]
        d.delta[ids[S]] = row
        if S & a.finals:
            d.finals.add(ids[S])
    return d


def complement(d):
    c = DFA(d.alpha)
    c.delta = d.delta
    c.start = d.start
    c.finals = set(range(len(d.delta))) - d.finals
    return c


def product_witness(dfas, accept):
    """BFS over the product of DFAs (same alphabet); accept(tuple of bool finals) -> shortest witness or None"""
    alpha = dfas[0].alpha
    start = tuple(d.start for d in dfas)
    prev = {start: None}
    q = collections.deque([start])
    # dead-state pruning: a component in a non-accepting sink can never accept again
    dead = []
    for d in dfas:
        ds = set()
        for s, row in enumerate(d.delta):
            if s not in d.finals and all(t == s for t in row):
                ds.add(s)
        dead.append(ds)
    all_required = True
    try:
        all_required = accept(tuple([True] * len(dfas))) and not accept(tuple([False] + [True] * (len(dfas) - 1)))
    except Exception:
        all_required = False
    while q:
        st = q.popleft()
        if all_required and any(s in ds for s, ds in zip(st, dead)):
            continue
        if accept(tuple(s in d.finals for s, d in zip(st, dfas))):
            out = []
            cur = st
            while prev[cur] is not None:
                cur, sym = prev[cur][0], prev[cur][1]
                out.append(sym)
            out.reverse()
            return [alpha.show(s) for s in out]
        for sym in range(alpha.nsym):
            nx = tuple(d.delta[s][sym] for s, d in zip(st, dfas))
            if nx not in prev:
                prev[nx] = (st, sym)
                q.append(nx)
    return None


def _text(w):
    return None if w is None else ''.join(c for c in w if len(c) == 1), w


def is_empty(a):
    alpha = Alphabet([a])
    w = product_witness([determinize(a, alpha)], lambda f: f[0])
    return w is None, (''.join(w) if w is not None else None)


def intersect_witness(*autos):
    """shortest string in the intersection (marks rendered by name), or None"""
    alpha = Alphabet(autos)
    w = product_witness([determinize(a, alpha) for a in autos], lambda f: all(f))
    return None if w is None else ''.join(w)


def included(a, b):
    """L(a) subset of L(b)?  -> (True, None) or (False, witness in a \\ b)"""
    alpha = Alphabet([a, b])
    da, db = determinize(a, alpha), complement(determinize(b, alpha))
    w = product_witness([da, db], lambda f: all(f))
    return (w is None), (None if w is None else ''.join(w))


def difference_witness(a, *bs):
    """shortest string in a but in none of bs"""
    alpha = Alphabet([a] + list(bs))
    ds = [determinize(a, alpha)] + [complement(determinize(b, alpha)) for b in bs]
    w = product_witness(ds, lambda f: all(f))
    return None if w is None else ''.join(w)


def equivalent(a, b):
    ok, w = included(a, b)
    if not ok:
        return False, w
    return included(b, a)


def accepts(a, s):
    cur = _closure(a, {a.start})
    for ch in s:
        nxt = set()
        for st, l, d in a.trans:
            if st in cur and isinstance(l, CS) and ch in l:
                nxt.add(d)
        cur = _closure(a, nxt)
    return bool(cur & a.finals)


def _closure(a, states):
    seen = set(states)
    stack = list(states)
    while stack:
        q = stack.pop()
        for s, l, d in a.trans:
            if s == q and l is None and d not in seen:
                seen.add(d)
                stack.append(d)
    return seen


def exponential_ambiguity(a):
    """Does the (epsilon-)NFA have exponential degree of ambiguity: a state q and a word w with two DIFFERENT paths q -w-> q?
    (then w^n has 2^n runs, and a backtracking matcher that fails after w^n tries them all).
    Paths are compared as sequences of macro-steps (a simple epsilon path followed by one consuming transition), so that one side merely lagging
    behind on epsilon moves is not a difference.  Pair graph: nodes (p, p') of states reached after a consuming transition (or the start);
    an edge for every pair of macro-steps with intersecting labels; EDA iff a strongly connected component holds a diagonal node and either an
    off-diagonal node or a diagonal-to-diagonal edge made of two different macro-steps.  Returns None or (state, description)."""
    out = {}
    for idx, (s, l, d) in enumerate(a.trans):
        out.setdefault(s, []).append((idx, l, d))
    reach, st = set(), ([a.start] if a.start is not None else [])
    while st:
        q = st.pop()
        if q in reach:
            continue
        reach.add(q)
        st += [d for _, _, d in out.get(q, [])]
    rev = {}
    for s, l, d in a.trans:
        rev.setdefault(d, []).append(s)
    co, st = set(), list(a.finals)
    while st:
        q = st.pop()
        if q in co:
            continue
        co.add(q)
        st += rev.get(q, [])
    live = reach & co
    macro_cache = {}

    def macros(p):
        """[(macro-step id, label, target)] from p"""
        if p in macro_cache:
            return macro_cache[p]
        res = []

        def dfs(q, path, seen):
            for idx, l, d in out.get(q, []):
                if d not in live:
                    continue
                if l is None:
                    if d not in seen:
                        dfs(d, path + (idx,), seen | {d})
                else:
                    res.append((path + (idx,), l, d))
        dfs(p, (), {p})
        macro_cache[p] = res
        return res

    def meet(l, l2):
        return (isinstance(l, CS) and isinstance(l2, CS) and bool(l & l2)) or (isinstance(l, str) and l == l2)

    def succ(node):
        p, q = node
        for m1, l1, d1 in macros(p):
            for m2, l2, d2 in macros(q):
                if meet(l1, l2):
                    yield (d1, d2), (p == q and m1 != m2)
    index, low, onst, stack, comps = {}, {}, set(), [], []
    counter = [0]
    for q0 in sorted(live):
        root = (q0, q0)
        if root in index:
            continue
        index[root] = low[root] = counter[0]
        counter[0] += 1
        stack.append(root)
        onst.add(root)
        work = [(root, iter(list(succ(root))))]
        while work:
            v, it_ = work[-1]
            advanced = False
            for (w, _c) in it_:
                if w not in index:
                    index[w] = low[w] = counter[0]
                    counter[0] += 1
                    stack.append(w)
                    onst.add(w)
                    work.append((w, iter(list(succ(w)))))
                    advanced = True
                    break
                elif w in onst:
                    low[v] = min(low[v], index[w])
            if advanced:
                continue
            work.pop()
            if work:
                u = work[-1][0]
                low[u] = min(low[u], low[v])
            if low[v] == index[v]:
                comp = []
                while True:
                    w = stack.pop()
                    onst.discard(w)
                    comp.append(w)
                    if w == v:
                        break
                comps.append(comp)
    for comp in comps:
        cs = set(comp)
        cyclic = len(comp) > 1 or any(w in cs for w, _ in succ(comp[0]))
        if not cyclic:
            continue
        diag = [n for n in comp if n[0] == n[1]]
        if not diag:
            continue
        off = [n for n in comp if n[0] != n[1]]
        if off:
            return diag[0][0], 'two different paths around state %d over the same text (they pass through states %d and %d)' % (diag[0][0], off[0][0], off[0][1])
        for n in diag:
            for w, distinct in succ(n):
                if distinct and w in cs:
                    return n[0], 'two different epsilon routes from state %d to state %d over the same character, inside a loop' % (n[0], w[0])
    return None
