"""Sets of Unicode code points as sorted disjoint closed intervals over [0, 0x10FFFF]."""
import sys
import unicodedata

MAXCP = 0x10FFFF


class CS(object):
    __slots__ = ('iv',)

    def __init__(self, iv=()):
        self.iv = tuple(_norm(iv))

    @staticmethod
    def of(*chars):
        return CS([(ord(c), ord(c)) if isinstance(c, str) else (c, c) for c in chars])

    @staticmethod
    def rng(lo, hi):
        return CS([(lo, hi)])

    @staticmethod
    def full():
        return CS([(0, MAXCP)])

    def __bool__(self):
        return bool(self.iv)

    def __eq__(self, o):
        return isinstance(o, CS) and self.iv == o.iv

    def __hash__(self):
        return hash(self.iv)

    def __or__(self, o):
        return CS(self.iv + o.iv)

    def __invert__(self):
        out = []
        cur = 0
        for lo, hi in self.iv:
            if lo > cur:
                out.append((cur, lo - 1))
            cur = hi + 1
        if cur <= MAXCP:
            out.append((cur, MAXCP))
        return CS(out)

    def __and__(self, o):
        out = []
        i = j = 0
        a, b = self.iv, o.iv
        while i < len(a) and j < len(b):
            lo, hi = max(a[i][0], b[j][0]), min(a[i][1], b[j][1])
            if lo <= hi:
                out.append((lo, hi))
            if a[i][1] < b[j][1]:
                i += 1
            else:
                j += 1
        return CS(out)

    def __sub__(self, o):
        return self & ~o

    def __contains__(self, cp):
        if isinstance(cp, str):
            cp = ord(cp)
        for lo, hi in self.iv:
            if lo <= cp <= hi:
                return True
        return False

    def size(self):
        return sum(hi - lo + 1 for lo, hi in self.iv)

    def sample(self):
        """a representative code point, preferring printable ASCII"""
        for lo, hi in self.iv:
            for c in range(max(lo, 0x21), min(hi, 0x7e) + 1):
                return c
        return self.iv[0][0]

    def __repr__(self):
        def f(c):
            return repr(chr(c)) if 0x20 <= c < 0x7f else 'U+%04X' % c
        return '[' + ' '.join(f(lo) if lo == hi else '%s-%s' % (f(lo), f(hi)) for lo, hi in self.iv[:8]) + (' ...' if len(self.iv) > 8 else '') + ']'


def _norm(iv):
    iv = sorted((lo, hi) for lo, hi in iv if lo <= hi)
    out = []
    for lo, hi in iv:
        if out and lo <= out[-1][1] + 1:
            out[-1] = (out[-1][0], max(out[-1][1], hi))
        else:
            out.append((lo, hi))
    return out


def minterms(sets):
    """coarsest partition of the union-and-complement space induced by `sets` -> list of CS (non-empty, disjoint, covering Sigma)"""
    points = {0, MAXCP + 1}
    for s in sets:
        for lo, hi in s.iv:
            points.add(lo)
            points.add(hi + 1)
    pts = sorted(points)
    # elementary intervals, grouped by membership signature
    groups = {}
    for a, b in zip(pts, pts[1:]):
        sig = tuple(a in s for s in sets)
        groups.setdefault(sig, []).append((a, b - 1))
    return [CS(v) for v in groups.values()]


_CAT_CACHE = {}


def category(name):
    """sre category -> CS (str patterns: Unicode semantics)"""
    if name in _CAT_CACHE:
        return _CAT_CACHE[name]
    import re
    neg = 'NOT' in name
    base = name.replace('NOT_', '').replace('CATEGORY_', '').replace('UNI_', '')
    pat = {'DIGIT': r'\d', 'SPACE': r'\s', 'WORD': r'\w', 'LINEBREAK': r'\n'}[base]
    rx = re.compile(pat)
    iv = []
    start = None
    for cp in range(MAXCP + 1):
        m = rx.match(chr(cp)) is not None
        if m and start is None:
            start = cp
        elif not m and start is not None:
            iv.append((start, cp - 1))
            start = None
    if start is not None:
        iv.append((start, MAXCP))
    cs = CS(iv)
    if neg:
        cs = ~cs
    _CAT_CACHE[name] = cs
    return cs
