"""Runs a property's bounded stand-in / a witness replay against the REAL code (REPO first on sys.path).
Invoked in a fresh interpreter by hv.report.runner.  Output: one line `HVJSON {...}`."""
import argparse
import importlib
import io
import json
import os
import sys
import contextlib


def main():
    ap = argparse.ArgumentParser()
    ap.add_argument('prop')
    ap.add_argument('--tier', default='quick')
    ap.add_argument('--seed', type=int, default=0)
    ap.add_argument('--replay-json')
    a = ap.parse_args()
    repo = os.environ.get('HV_REPO', '/repo')
    if sys.path[0] != repo:
        sys.path.insert(0, repo)
    mod = importlib.import_module('props.%s_concrete' % a.prop)
    buf = io.StringIO()
    with contextlib.redirect_stdout(buf):      # the library prints debug text
        import hszinc  # noqa
        assert os.path.realpath(os.path.dirname(os.path.dirname(hszinc.__file__))) == os.path.realpath(repo), hszinc.__file__
        if a.replay_json:
            out = mod.replay(json.loads(a.replay_json))
        else:
            out = mod.bounded(a.tier, a.seed)
    print('HVJSON ' + json.dumps(out, default=repr))


if __name__ == '__main__':
    main()
