"""Check driver: runs a property's deductive tasks (16-process pool), its bounded stand-in, the
replays; applies known findings; writes evidence; prints VIOLATION / KNOWN-FINDING lines.

Exit codes: 0 held | 1 VIOLATION | 2 undecided on unchanged obligations | 3 checker error.
"""
import importlib
import json
import os
import re
import subprocess
import sys
import tempfile
import time
import traceback

ROOT = os.path.dirname(os.path.dirname(os.path.dirname(os.path.abspath(__file__))))
REPO = os.environ.get('HV_REPO', '/repo')


def _run_task_inproc(prop, tname, tier):
    t0 = time.time()
    try:
        mod = importlib.import_module('props.%s' % prop)
        res = mod.run_task(tname, tier)
        res.setdefault('task', tname)
        res['wall_s'] = time.time() - t0
        return res
    except Exception:
        return {'task': tname, 'error': traceback.format_exc(), 'obligations': [], 'units': [], 'wall_s': time.time() - t0}


def run_tasks(prop, tasks, tier, jobs, timeout, verbose=False):
    """One interpreter per task (isolation from solver crashes / hangs), at most `jobs` at a time, hard wall-clock limit."""
    env = dict(os.environ)
    env['PYTHONPATH'] = ROOT
    env.setdefault('PYTHONHASHSEED', '0')
    pending = list(tasks)
    running = {}
    results = []
    while pending or running:
        while pending and len(running) < jobs:
            t = pending.pop(0)
            of = tempfile.TemporaryFile(mode='w+')      # not a pipe: a large result must not block the child
            ef = tempfile.TemporaryFile(mode='w+')
            p = subprocess.Popen([sys.executable, '-m', 'hv.report.runner', prop, '--task', t, '--tier', tier],
                                 cwd=ROOT, env=env, stdout=of, stderr=ef, text=True)
            p._hv_files = (of, ef)
            running[t] = (p, time.time())
        time.sleep(0.05)
        for t, (p, t0) in list(running.items()):
            rc = p.poll()
            if rc is None:
                if time.time() - t0 > timeout:
                    p.kill()
                    p.wait()
                    for f in p._hv_files:
                        f.close()
                    del running[t]
                    results.append({'task': t, 'obligations': [{'name': 'task-completes', 'status': 'unknown', 'backend': 'hv', 'time_s': timeout,
                                                                'fp': 'timeout', 'reason': 'task exceeded its %ds wall-clock limit' % timeout, 'kind': 'limit'}],
                                    'units': [], 'wall_s': timeout})
                continue
            of, ef = p._hv_files
            of.seek(0)
            ef.seek(0)
            out, err = of.read(), ef.read()
            of.close()
            ef.close()
            del running[t]
            r = None
            for l in out.splitlines():
                if l.startswith('HVJSON '):
                    r = json.loads(l[7:])
            if r is None:
                r = {'task': t, 'error': 'task process exited %s: %s' % (rc, (err or out)[-1500:]), 'obligations': [], 'units': [], 'wall_s': time.time() - t0}
            results.append(r)
            if verbose:
                print('task %s: %d obligations, %.1fs%s' % (r['task'], len(r['obligations']), r['wall_s'], ' ERROR' if r.get('error') else ''), flush=True)
    return results


def load_findings():
    p = os.path.join(ROOT, 'known_findings.json')
    if not os.path.exists(p):
        return []
    with open(p) as f:
        return json.load(f).get('findings', [])


def open_findings(prop):
    return [f for f in load_findings() if f.get('property') == prop and f.get('status') == 'open']


def package_fingerprint():
    """AST hash of every module of the package under REPO (comments / layout do not count)"""
    import ast
    import hashlib
    out = {}
    base = os.path.join(REPO, 'hszinc')
    for fn in sorted(os.listdir(base)) if os.path.isdir(base) else []:
        if fn.endswith('.py'):
            try:
                with open(os.path.join(base, fn), encoding='utf-8') as f:
                    out[fn] = hashlib.sha256(ast.dump(ast.parse(f.read())).encode()).hexdigest()[:16]
            except Exception as e:
                out[fn] = 'unparsable: %s' % type(e).__name__
    return out


def load_baseline(prop):
    p = os.path.join(ROOT, 'baseline', '%s.json' % prop)
    if os.path.exists(p):
        with open(p) as f:
            return json.load(f)
    return None


def run_concrete(prop, tier, seed, timeout):
    """Bounded stand-in + witness replays run the real code in a fresh interpreter with REPO first on sys.path."""
    env = dict(os.environ)
    env['PYTHONPATH'] = REPO + os.pathsep + ROOT
    env['HV_REPO'] = REPO
    cmd = [sys.executable, '-m', 'hv.report.concrete', prop, '--tier', tier, '--seed', str(seed)]
    try:
        out = subprocess.run(cmd, cwd=ROOT, env=env, capture_output=True, text=True, timeout=timeout)
    except subprocess.TimeoutExpired:
        return {'error': 'bounded stand-in timed out after %ds' % timeout, 'failures': [], 'cases': 0}
    line = None
    for l in out.stdout.splitlines():
        if l.startswith('HVJSON '):
            line = l[7:]
    if line is None:
        return {'error': 'bounded stand-in crashed: %s' % (out.stderr[-1500:] or out.stdout[-500:]), 'failures': [], 'cases': 0}
    return json.loads(line)


def replay_input(prop, inp, timeout=120):
    env = dict(os.environ)
    env['PYTHONPATH'] = REPO + os.pathsep + ROOT
    env['HV_REPO'] = REPO
    cmd = [sys.executable, '-m', 'hv.report.concrete', prop, '--replay-json', json.dumps(inp)]
    try:
        out = subprocess.run(cmd, cwd=ROOT, env=env, capture_output=True, text=True, timeout=timeout)
    except subprocess.TimeoutExpired:
        return {'reproduced': None, 'detail': 'replay timed out'}
    for l in out.stdout.splitlines():
        if l.startswith('HVJSON '):
            return json.loads(l[7:])
    return {'reproduced': None, 'detail': 'replay crashed: ' + (out.stderr[-800:] or out.stdout[-300:])}


def finding_matches(f, ob_name=None, witness=None, failure_id=None):
    if ob_name is not None and f.get('obligation') and re.search(f['obligation'], ob_name):
        return True
    if failure_id is not None and f.get('failure_id') and re.search(f['failure_id'], failure_id):
        return True
    return False


def main(argv=None):
    import argparse
    ap = argparse.ArgumentParser()
    ap.add_argument('prop')
    ap.add_argument('--tier', default=os.environ.get('VERIF_TIER', 'quick'))
    ap.add_argument('--replay')
    ap.add_argument('--update-baseline', action='store_true')
    ap.add_argument('--jobs', type=int, default=int(os.environ.get('HV_JOBS', '16')))
    ap.add_argument('--only')
    ap.add_argument('--task')
    ap.add_argument('-v', action='store_true')
    a = ap.parse_args(argv)
    prop = a.prop
    seed = int(os.environ.get('VERIF_SEED', '0') or 0)
    sys.path.insert(0, ROOT)
    os.chdir(ROOT)

    if a.task:
        r = _run_task_inproc(prop, a.task, a.tier)
        print('HVJSON ' + json.dumps(r, default=str))
        return 0

    if a.replay:
        with open(a.replay) as f:
            rp = json.load(f)
        if rp.get('input') is None:
            print('replay file names obligation %s; no failing input was found by the verifier.' % rp.get('obligation'))
            print(json.dumps(rp.get('verifier_output'), indent=1)[:3000])
            return 1
        r = replay_input(prop, rp['input'])
        print(json.dumps(r, indent=1))
        if r.get('reproduced'):
            print('VIOLATION property=%s replay=%s' % (prop, a.replay))
            return 1
        return 0

    t0 = time.time()
    mod = importlib.import_module('props.%s' % prop)
    tasks = mod.task_names(a.tier)
    if a.only:
        tasks = [t for t in tasks if re.search(a.only, t)]
    findings = open_findings(prop)
    baseline = load_baseline(prop)
    # a run against a scratch tree (HV_REPO set: seeds, mutation scripts) must not replace the record of the real tree
    evdir = os.path.join(ROOT, 'evidence') if os.path.realpath(REPO) == '/repo' else os.path.join(ROOT, 'replays', '_scratch_evidence')
    os.makedirs(evdir, exist_ok=True)
    rdir = os.path.join(ROOT, 'replays', prop) if os.path.realpath(REPO) == '/repo' else os.path.join(ROOT, 'replays', '_scratch', prop)
    os.makedirs(rdir, exist_ok=True)
    for fn in os.listdir(rdir):
        try:
            os.unlink(os.path.join(rdir, fn))
        except OSError:
            pass

    results = []
    if tasks:
        tmo = getattr(mod, 'TASK_TIMEOUT', {}).get(a.tier, 600 if a.tier == 'quick' else 3600)
        results = run_tasks(prop, tasks, a.tier, a.jobs, tmo, verbose=a.v)
    results.sort(key=lambda r: r['task'])

    violations = []      # (message, replay path)
    known_lines = []
    undecided = []
    errors = []
    obligations = []
    units = {}
    by_backend = {}
    solver_time = 0.0
    pkg = package_fingerprint()
    base_pkg = (baseline or {}).get('package')
    for r in results:
        if r.get('error'):
            changed_files = sorted(k for k in set(pkg) | set(base_pkg or {}) if (base_pkg or {}).get(k) != pkg.get(k))
            ran_before = any(k.startswith(r['task'] + '/') for k in (baseline or {}).get('obligations', {}))
            if base_pkg is not None and changed_files and ran_before:
                # the task ran to completion on the baseline tree and cannot be carried out on the changed source: every obligation of the
                # task is undischarged (reported as one), not a fault of the checker
                last = [ln for ln in r['error'].strip().splitlines() if ln.strip()][-1]
                r['obligations'] = list(r.get('obligations', [])) + [{
                    'name': 'task-completes-on-the-changed-source', 'status': 'unknown', 'backend': 'hv', 'time_s': 0.0, 'fp': 'crash', 'model': None, 'kind': 'subset', 'witness': None,
                    'reason': 'the obligations of task %s could not be generated from the changed source (%s): %s' % (r['task'], ', '.join(changed_files), last[:300])}]
            else:
                errors.append('%s: %s' % (r['task'], r['error'][-1200:]))
        for u in r.get('units', []):
            units[u['function']] = u
        for o in r['obligations']:
            o['task'] = r['task']
            obligations.append(o)
            solver_time += o.get('time_s', 0)
            if o['status'] == 'proved':
                by_backend[o['backend']] = by_backend.get(o['backend'], 0) + 1

    base_units = (baseline or {}).get('units', {})
    changed_units = sorted(k for k, u in units.items() if k in base_units and base_units[k] != u['ast_sha'])
    new_units = sorted(k for k in units if baseline is not None and k not in base_units)
    code_changed = bool(changed_units or new_units)
    base_obs = (baseline or {}).get('obligations', {})

    n_replays = 0

    def write_replay(name, payload):
        nonlocal n_replays
        n_replays += 1
        fn = re.sub(r'[^A-Za-z0-9_.=-]+', '_', name)[:120] + '.json'
        p = os.path.join(rdir, fn)
        with open(p, 'w') as f:
            json.dump(payload, f, indent=1, default=str)
        return os.path.relpath(p, ROOT)

    proved = 0
    kf_obs = []
    for o in obligations:
        full = '%s/%s' % (o['task'], o['name'])
        o['id'] = full
        if o['status'] == 'proved':
            proved += 1
            continue
        changed = code_changed or (full in base_obs and base_obs[full].get('fp') != o.get('fp')) or (baseline is not None and full not in base_obs)
        kf = [f for f in findings if finding_matches(f, ob_name=full)]
        if o['status'] == 'refuted':
            wit = o.get('witness')
            rep = None
            if wit is not None:
                rep = replay_input(prop, wit)
            payload = {'property': prop, 'obligation': full, 'input': wit, 'verifier_output': o, 'replay_result': rep,
                       'how': './check %s --replay <this file>' % prop}
            if kf and (rep is None or rep.get('reproduced') is not False):
                known_lines.append('KNOWN-FINDING: property=%s %s [obligation %s]' % (prop, kf[0]['what'], full))
                kf_obs.append(full)
                continue
            if rep is not None and rep.get('reproduced'):
                p = write_replay(full, payload)
                violations.append('VIOLATION property=%s replay=%s' % (prop, p))
            elif changed or baseline is None:
                p = write_replay(full, payload)
                violations.append('VIOLATION property=%s replay=%s no-failing-input-found' % (prop, p))
            else:
                errors.append('obligation %s refuted on an unchanged VC but the counterexample does not replay: engine fault' % full)
        else:   # unknown / oos
            payload = {'property': prop, 'obligation': full, 'input': None, 'verifier_output': o,
                       'how': 'undischarged obligation (status %s): %s' % (o['status'], o.get('reason', ''))}
            if kf:
                known_lines.append('KNOWN-FINDING: property=%s %s [obligation %s undischarged]' % (prop, kf[0]['what'], full))
                kf_obs.append(full)
            elif changed and baseline is not None:
                o['_pending_changed'] = payload
            else:
                undecided.append(full + ': ' + o.get('reason', '')[:200])

    # vacuity / count guard
    if baseline is not None and not code_changed and not a.only:
        if len(obligations) < 0.8 * baseline.get('n_obligations', 0):
            errors.append('obligation count %d below baseline %d without a source change' % (len(obligations), baseline.get('n_obligations', 0)))
    if not obligations and tasks:
        errors.append('zero obligations generated')

    # bounded stand-in (real code, concrete inputs) -- never counted as proved
    bounded = {'cases': 0, 'failures': [], 'skipped': True}
    if hasattr(mod, 'HAS_CONCRETE') and mod.HAS_CONCRETE and not a.only:
        bounded = run_concrete(prop, a.tier, seed, timeout=getattr(mod, 'CONCRETE_TIMEOUT', {}).get(a.tier, 900))
        if bounded.get('error'):
            errors.append(bounded['error'])
        for fl in bounded.get('failures', []):
            kf = [f for f in findings if finding_matches(f, failure_id=fl.get('id'))]
            if kf:
                line = 'KNOWN-FINDING: property=%s %s' % (prop, kf[0]['what'])
                if line not in known_lines:
                    known_lines.append(line)
                continue
            p = write_replay('bounded_' + fl.get('id', 'x'), {'property': prop, 'obligation': 'bounded/' + fl.get('id', ''),
                                                               'input': fl.get('input'), 'verifier_output': fl,
                                                               'how': './check %s --replay <this file>' % prop})
            violations.append('VIOLATION property=%s replay=%s' % (prop, p))
    # undischarged obligations on changed code: violation (with an input if the stand-in found one above)
    for o in obligations:
        pl = o.pop('_pending_changed', None)
        if pl is not None:
            p = write_replay(o['id'], pl)
            violations.append('VIOLATION property=%s replay=%s no-failing-input-found' % (prop, p))
    # stale findings: a listed witness that no longer fails is reported (not an error)
    stale = []
    for f in findings:
        if f.get('witness') is not None:
            r = replay_input(prop, f['witness'])
            if r.get('reproduced') is False:
                stale.append(f['id'])
            elif r.get('reproduced'):
                line = 'KNOWN-FINDING: property=%s %s' % (prop, f['what'])
                if not any(f['what'] in k for k in known_lines):
                    known_lines.append(line)

    wall = time.time() - t0
    n_ob = len(obligations)
    samples = []
    for o in obligations[:3] + obligations[-2:]:
        samples.append({'obligation': o['id'], 'status': o['status'], 'backend': o.get('backend'), 'fp': o.get('fp')})
    assume_scan = scan_assumes()
    ev = {
        'property_id': prop, 'tier': a.tier, 'seed': seed, 'level': 'proof',
        'coverage': {
            'obligations': n_ob - len(kf_obs), 'discharged': proved,
            'checker_cmd': './check %s --tier %s' % (prop, a.tier),
            'trusted_base': getattr(mod, 'TRUSTED_BASE', []),
            'by_backend': by_backend, 'solver_time_s': round(solver_time, 3),
            'functions_under_contract': sorted(units.values(), key=lambda u: u['function']),
            'known_finding_obligations': kf_obs,
            'samples': samples,
            'undecided': undecided, 'changed_units_vs_baseline': changed_units + new_units,
            'bounded_standin': {'label': 'bounded (never counted as proved)', 'cases': bounded.get('cases', 0),
                                'failures': len(bounded.get('failures', [])), 'bound': bounded.get('bound', ''),
                                'skipped': bounded.get('skipped', False)},
            'assume_scan': assume_scan,
            'stale_findings': stale,
            'explanation': getattr(mod, 'EXPLANATION', ''),
            'evaluations': n_ob + bounded.get('cases', 0), 'distinct_nontrivial': max(2, n_ob),
            'rule': 'one obligation = one (function, contract clause, input case, path) VC generated from the current source',
        },
        'assumptions': getattr(mod, 'ASSUMPTIONS', []),
        'wall_s': round(wall, 2), 'violations': len(violations),
    }
    with open(os.path.join(evdir, '%s.json' % prop), 'w') as f:
        json.dump(ev, f, indent=1)

    if a.update_baseline:
        if violations or errors or undecided:
            print('not updating baseline: run is not clean')
        else:
            os.makedirs(os.path.join(ROOT, 'baseline'), exist_ok=True)
            with open(os.path.join(ROOT, 'baseline', '%s.json' % prop), 'w') as f:
                json.dump({'units': {k: u['ast_sha'] for k, u in units.items()}, 'n_obligations': n_ob, 'package': pkg,
                           'obligations': {o['id']: {'fp': o.get('fp'), 'status': o['status']} for o in obligations}}, f, indent=1, sort_keys=True)
            print('baseline updated: %d obligations, %d units' % (n_ob, len(units)))

    # one line per listed finding (the obligations / inputs it covers are in the evidence file)
    seen_kf = {}
    for k in known_lines:
        head = k.split(' [obligation')[0]
        seen_kf.setdefault(head, []).append(k)
    for head, ks in seen_kf.items():
        print(head + (' [%d obligations / failing inputs]' % len(ks) if len(ks) > 1 else ''))
    print('%s tier=%s obligations=%d discharged=%d known-finding-obligations=%d bounded-cases=%d wall=%.1fs'
          % (prop, a.tier, n_ob, proved, len(kf_obs), bounded.get('cases', 0), wall))
    if violations:
        for v in violations:
            print(v)
        return 1
    if errors:
        for e in errors:
            print('CHECKER-ERROR: ' + e)
        return 3
    if undecided:
        for u in undecided:
            print('UNDECIDED: ' + u)
        return 2
    return 0


def scan_assumes():
    n = 0
    for d in ('contracts', 'spec', 'props'):
        p = os.path.join(ROOT, d)
        for dp, _, fs in os.walk(p):
            for fn in fs:
                if fn.endswith('.py'):
                    with open(os.path.join(dp, fn)) as f:
                        for line in f:
                            if re.search(r'\b(assume|axiom|trusted)\b', line) and not line.strip().startswith('#'):
                                n += 1
    return {'tokens_assume_axiom_trusted_in_contracts_spec_props': n,
            'note': 'every assume()/axiom is a ledger entry (well-formedness of symbolic inputs = requires; library models = A-*)'}


if __name__ == '__main__':
    sys.exit(main())
