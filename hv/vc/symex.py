"""E1 `pyvc`: symbolic execution of the real source (ast) into verification conditions.

One *path* is one run of `Interp` under a decision prefix; `explore` enumerates all feasible
paths (no bound: loops over symbolic data are cut by invariants from the sidecar contracts,
loops over concrete data run natively).  Obligations are checked where they arise, against the
path condition, by hv.vc.smt.check.
"""
import ast
import time

import z3

from . import smt
from .values import (LazyDict, unmap, Sym, SInt, SBool, SVal, SKey, SSeq, SView, SMap, SObj, ClassRef, Closure, BoundMethod,
                     Builtin, AbstractCallable, PyExc, OutOfSubset, exc_isinstance)


class Infeasible(Exception):
    pass


class ReturnSig(Exception):
    def __init__(self, value):
        self.value = value


class BreakSig(Exception):
    pass


class ContinueSig(Exception):
    pass


class PathEnd(Exception):
    """Raised to stop a path after a loop-body obligation (the path is subsumed by the invariant)."""


class Obligation(object):
    def __init__(self, name, status, backend, time_s, fp, model=None, reason='', terms=None, kind='post'):
        self.name = name
        self.status = status          # 'proved' | 'refuted' | 'unknown'
        self.backend = backend
        self.time_s = time_s
        self.fp = fp
        self.model = model            # dict name->str
        self.reason = reason
        self.kind = kind
        self.witness = None

    def to_json(self):
        return {'name': self.name, 'status': self.status, 'backend': self.backend,
                'time_s': round(self.time_s, 4), 'fp': self.fp, 'model': self.model, 'reason': self.reason,
                'kind': self.kind, 'witness': self.witness}


class Ctx(object):
    """State of one path."""

    def __init__(self, decisions, task):
        self.pc = []
        self.decisions = list(decisions)
        self.pos = 0
        self.trace = []
        self.spawned = []
        self.task = task
        self.counter = {}
        self.obligations = []
        self.watch = {}            # name -> z3 term, reported from models
        self.witness_fn = None     # z3 model -> JSON-able concrete input for the replay harness
        self.small_hints = []
        self.notes = []      # extra constraints tried first when extracting a counterexample (small sizes)
        self.facts_used = []

    def fresh(self, base, sort):
        n = self.counter.get(base, 0)
        self.counter[base] = n + 1
        name = '%s!%d' % (base, n) if n else base
        return z3.Const(name, sort)

    def assume(self, f):
        if isinstance(f, bool):
            if not f:
                raise Infeasible()
            return
        self.pc.append(f)

    def feasible(self, extra):
        v = smt.check(self.pc + [extra], timeout_ms=20000, want_model=False, try_cvc5=False, single=True, rlimit=4000000)
        return v.status != 'unsat'

    def branch(self, cond):
        """cond: z3 Bool or python bool. Returns python bool for this path."""
        if isinstance(cond, bool):
            return cond
        cond = z3.simplify(cond)
        if z3.is_true(cond):
            return True
        if z3.is_false(cond):
            return False
        if self.pos < len(self.decisions):
            d = self.decisions[self.pos]
            self.pos += 1
            self.trace.append(d)
            self.pc.append(cond if d else z3.Not(cond))
            return d
        ft = self.feasible(cond)
        ff = self.feasible(z3.Not(cond))
        if ft and ff:
            self.spawned.append(self.trace + [False])
            d = True
        elif ft:
            d = True
        elif ff:
            d = False
        else:
            raise Infeasible()
        self.pos += 1
        self.decisions.append(d)
        self.trace.append(d)
        self.pc.append(cond if d else z3.Not(cond))
        return d

    def oblige(self, name, goal, kind='post', hyps=()):
        """Check pc /\\ hyps => goal."""
        if isinstance(goal, bool):
            goal = z3.BoolVal(goal)
        q = self.pc + list(hyps) + [z3.Not(goal)]
        fp = smt.fingerprint(q)
        v = smt.check(q)
        if v.status == 'unsat':
            ob = Obligation(name, 'proved', v.backend, v.time_s, fp, kind=kind)
        elif v.status == 'sat':
            ob = Obligation(name, 'refuted', v.backend, v.time_s, fp,
                            model=smt.model_to_dict(v.model, self.watch), reason=v.reason, kind=kind)
            if self.witness_fn is not None and v.model is not None:
                model = v.model
                if self.small_hints:
                    v2 = smt.check(q + list(self.small_hints), timeout_ms=5000, try_cvc5=False, single=True)
                    if v2.status == 'sat' and v2.model is not None:
                        model = v2.model       # a small counterexample is easier to replay
                try:
                    ob.witness = self.witness_fn(model)
                except Exception as e:      # concretisation failure is not a verdict
                    ob.reason += ' | witness concretisation failed: %r' % (e,)
        else:
            ob = Obligation(name, 'unknown', v.backend, v.time_s, fp, reason=v.reason, kind=kind)
        self.obligations.append(ob)
        return ob


class Frame(object):
    def __init__(self, closure, env):
        self.closure = closure
        self.env = env
        self.loop_ordinal = 0


class Interp(object):
    def __init__(self, ctx, world):
        self.ctx = ctx
        self.world = world          # hv.vc.world.World: modules, builtins, contracts, hooks
        self.frames = []
        self.depth = 0

    # ------------------------------------------------------------------ helpers
    def fresh_int(self, base='i'):
        return SInt(self.ctx.fresh(base, z3.IntSort()))

    def truth(self, v):
        """Python truthiness -> python bool (forking if symbolic)."""
        t = self.truth_term(v)
        return self.ctx.branch(t)

    def truth_term(self, v):
        v = unmap(v)
        if isinstance(v, SBool):
            return v.term
        if isinstance(v, SInt):
            return v.term != 0
        if isinstance(v, SSeq):
            return v.length > 0
        if isinstance(v, SMap):
            if getattr(v, 'is_set', False):
                k = z3.Const('k!nonempty', v.ksort)
                return z3.Exists([k], z3.Select(v.dom, k))
            return v.size > 0
        if isinstance(v, SObj):
            c, m = v.cls.find_method('__bool__')
            if m is not None:
                return self.truth_term(self.call_method(v, '__bool__', []))
            c, m = v.cls.find_method('__len__')
            if m is not None:
                r = self.call_method(v, '__len__', [])
                return self.truth_term(r) if isinstance(r, Sym) else bool(r)
            return True
        if isinstance(v, Sym) or type(v).__name__ in ('MatchObj', 'Poison', 'Conv', 'ParsedDT', 'HashKey'):
            h = self.world.hooks.get('truth')
            if h is not None:
                return h(self, v)
            raise OutOfSubset('truthiness of %r' % (v,))
        if isinstance(v, (Closure, BoundMethod, Builtin, AbstractCallable, ClassRef)):
            return True
        return bool(v)

    def as_term(self, v, sort=None):
        """Python/symbolic scalar -> z3 term."""
        if isinstance(v, (SInt, SBool, SVal, SKey)):
            return v.term
        if isinstance(v, bool):
            return z3.BoolVal(v)
        if isinstance(v, int):
            return z3.IntVal(v)
        h = self.world.hooks.get('as_term')
        if h is not None:
            t = h(self, v, sort)
            if t is not None:
                return t
        raise OutOfSubset('cannot make a term of %r' % (v,))

    def wrap(self, term):
        s = term.sort()
        if s == z3.IntSort():
            t = z3.simplify(term)
            if z3.is_int_value(t):
                return t.as_long()
            return SInt(term)
        if s == z3.BoolSort():
            t = z3.simplify(term)
            if z3.is_true(t):
                return True
            if z3.is_false(t):
                return False
            return SBool(term)
        if s == smt.VAL:
            h = self.world.hooks.get('wrap_val')
            if h is not None:
                return h(self, term)
            return SVal(term)
        if s == smt.KEY:
            return SKey(term)
        h = self.world.hooks.get('wrap')
        if h is not None:
            return h(self, term)
        raise OutOfSubset('cannot wrap sort %s' % s)

    def raise_(self, cls, *args):
        raise PyExc(cls, args)

    # ------------------------------------------------------------------ calls
    def call(self, fn, args, kwargs=None):
        kwargs = kwargs or {}
        for a in list(args) + list(kwargs.values()):
            if type(a).__name__ == 'Poison':
                raise a.exc
        if isinstance(fn, Builtin):
            return fn.fn(self, args, kwargs)
        if isinstance(fn, AbstractCallable):
            return fn.apply(self, args, kwargs)
        if isinstance(fn, BoundMethod):
            return self.call(fn.closure, [fn.selfv] + list(args), kwargs)
        if isinstance(fn, Closure):
            return self.call_closure(fn, args, kwargs)
        if isinstance(fn, ClassRef):
            return self.instantiate(fn, args, kwargs)
        from .ops import NativeMethod
        if isinstance(fn, NativeMethod) or (callable(fn) and self.world.native_ok(fn, args, kwargs)):
            return self.world.native_call(self, fn, args, kwargs)
        h = self.world.hooks.get('native_call_sym')
        if h is not None and callable(fn):
            r = h(self, fn, args, kwargs)
            if r is not NotImplemented:
                return r
        raise OutOfSubset('call of %r' % (fn,))

    def instantiate(self, cls, args, kwargs):
        h = self.world.class_ctor.get(cls.name)
        if h is not None:
            return h(self, cls, args, kwargs)
        obj = SObj(cls, {})
        c, m = cls.find_method('__init__')
        if m is not None:
            self.call_closure(self.world.method_closure(c, m), [obj] + list(args), kwargs)
        return obj

    def call_method(self, obj, name, args, kwargs=None):
        return self.call(self.getattr(obj, name), args, kwargs)

    def call_closure(self, clo, args, kwargs, inline=False):
        qual = self.world.qualname(clo)
        con = None if inline else self.world.contracts.get(qual)
        if con is not None and not (self.world.under_verification == qual and self.depth == 0):
            return con(self, args, kwargs)
        node = clo.node
        a = node.args
        params = [p.arg for p in a.posonlyargs] + [p.arg for p in a.args]
        env = {}
        args = list(args)
        if len(args) > len(params) and a.vararg is None:
            self.raise_('TypeError', 'too many positional arguments to %s' % clo.name)
        for p, v in zip(params, args):
            env[p] = v
        if a.vararg is not None:
            env[a.vararg.arg] = tuple(args[len(params):])
        kw = dict(kwargs)
        ndef = len(a.defaults)
        for i, p in enumerate(params):
            if p in env:
                if p in kw:
                    self.raise_('TypeError', 'multiple values for %s' % p)
                continue
            if p in kw:
                env[p] = kw.pop(p)
                continue
            di = i - (len(params) - ndef)
            if di >= 0:
                env[p] = self.eval_in(a.defaults[di], clo)
            else:
                self.raise_('TypeError', 'missing argument %s' % p)
        for p, d in zip(a.kwonlyargs, a.kw_defaults):
            if p.arg in kw:
                env[p.arg] = kw.pop(p.arg)
            elif d is not None:
                env[p.arg] = self.eval_in(d, clo)
            else:
                self.raise_('TypeError', 'missing kw-only argument %s' % p.arg)
        if a.kwarg is not None:
            env[a.kwarg.arg] = kw
        elif kw:
            self.raise_('TypeError', 'unexpected keyword argument(s) %s' % sorted(kw))
        if self.depth > 40:
            raise OutOfSubset('call depth exceeded (recursion needs a contract)')
        fr = Frame(clo, env)
        self.frames.append(fr)
        self.depth += 1
        try:
            if isinstance(node, ast.Lambda):
                return self.eval(node.body)
            try:
                self.exec_block(node.body)
            except ReturnSig as r:
                return r.value
            return None
        finally:
            self.depth -= 1
            self.frames.pop()

    def eval_in(self, node, clo):
        fr = Frame(clo, {})
        self.frames.append(fr)
        try:
            return self.eval(node)
        finally:
            self.frames.pop()

    # ------------------------------------------------------------------ names
    def lookup(self, name):
        fr = self.frames[-1]
        if name in fr.env:
            return fr.env[name]
        env = fr.closure.env
        while env is not None:
            if name in env[0]:
                return env[0][name]
            env = env[1]
        if fr.closure.cls is not None and name.startswith('__') and not name.endswith('__'):
            ca = self.world.class_attr(self, fr.closure.cls, name)     # class-scope name (default-argument expressions)
            if ca is not NotImplemented:
                return ca
        return self.world.global_lookup(self, fr.closure.module, name)

    def store_name(self, name, value):
        fr = self.frames[-1]
        g = getattr(fr, 'globals_decl', None)
        if g and name in g:
            self.world.global_store(self, fr.closure.module, name, value)
        else:
            fr.env[name] = value

    # ------------------------------------------------------------------ statements
    def exec_block(self, stmts):
        for st in stmts:
            self.exec(st)

    def exec(self, st):
        m = getattr(self, 'x_' + type(st).__name__, None)
        if m is None:
            raise OutOfSubset('statement %s' % type(st).__name__)
        return m(st)

    def x_Expr(self, st):
        if isinstance(st.value, ast.Constant):
            return      # docstring
        self.eval(st.value)

    def x_Pass(self, st):
        pass

    def x_Global(self, st):
        fr = self.frames[-1]
        fr.globals_decl = set(getattr(fr, 'globals_decl', ())) | set(st.names)

    def x_Assign(self, st):
        v = self.eval(st.value)
        for t in st.targets:
            self.assign(t, v)

    def x_AugAssign(self, st):
        cur = self.eval(_load(st.target))
        rhs = self.eval(st.value)
        v = self.world.ops.binop(self, type(st.op).__name__, cur, rhs, inplace=True)
        self.assign(st.target, v)

    def x_Return(self, st):
        raise ReturnSig(self.eval(st.value) if st.value is not None else None)

    def x_If(self, st):
        if self.truth(self.eval(st.test)):
            self.exec_block(st.body)
        else:
            self.exec_block(st.orelse)

    def x_Raise(self, st):
        if st.exc is None:
            cur = getattr(self, 'current_exc', None)
            if cur is None:
                self.raise_('RuntimeError', 'no active exception')
            raise cur
        e = st.exc
        if isinstance(e, ast.Call):
            cname = ast.unparse(e.func)
            args = [self.eval(a) for a in e.args]
        else:
            cname = ast.unparse(e)
            args = []
        cname = self.world.exc_name(self, self.frames[-1].closure.module, cname)
        raise PyExc(cname, tuple(args))

    def x_Assert(self, st):
        if not self.truth(self.eval(st.test)):
            self.raise_('AssertionError')

    def x_Delete(self, st):
        for t in st.targets:
            if isinstance(t, ast.Subscript):
                self.world.ops.delitem(self, self.eval(t.value), self.eval_index(t.slice))
            elif isinstance(t, ast.Name):
                self.frames[-1].env.pop(t.id, None)
            else:
                raise OutOfSubset('del target')

    def x_Try(self, st):
        if st.finalbody:
            raise OutOfSubset('try/finally')
        try:
            self.exec_block(st.body)
        except PyExc as e:
            for h in st.handlers:
                if self.handler_matches(h, e):
                    if h.name:
                        self.frames[-1].env[h.name] = e
                    prev = getattr(self, 'current_exc', None)
                    self.current_exc = e
                    try:
                        self.exec_block(h.body)
                    finally:
                        self.current_exc = prev
                    return
            raise
        else:
            self.exec_block(st.orelse)

    def handler_matches(self, h, e):
        if h.type is None:
            return True
        types = h.type.elts if isinstance(h.type, ast.Tuple) else [h.type]
        for t in types:
            n = self.world.exc_name(self, self.frames[-1].closure.module, ast.unparse(t))
            if exc_isinstance(e.cls, n):
                return True
        return False

    def x_FunctionDef(self, st):
        fr = self.frames[-1]
        self.frames[-1].env[st.name] = Closure(st, (fr.env, fr.closure.env), fr.closure.module, st.name)

    def x_Import(self, st):
        raise OutOfSubset('import inside function')

    def x_ImportFrom(self, st):
        fr = self.frames[-1]
        for a in st.names:
            fr.env[a.asname or a.name] = self.world.resolve_import(self, fr.closure.module, ('.' * st.level) + (st.module or ''), a.name)

    def x_Break(self, st):
        raise BreakSig()

    def x_Continue(self, st):
        raise ContinueSig()

    def x_For(self, st):
        fr = self.frames[-1]
        ordinal = fr.loop_ordinal
        fr.loop_ordinal += 1
        it = self.eval(st.iter)
        seq = self.world.ops.iter_view(self, it)
        if isinstance(seq, list):
            broke = False
            for item in seq:
                self.assign(st.target, item)
                try:
                    self.exec_block(st.body)
                except BreakSig:
                    broke = True
                    break
                except ContinueSig:
                    continue
            if not broke:
                self.exec_block(st.orelse)
            return
        if seq is None:
            raise OutOfSubset('iteration over %r' % (it,))
        spec = self.world.loop_spec(self, fr.closure, ordinal)
        if spec is None:
            raise OutOfSubset('loop %d of %s over symbolic data has no invariant' % (ordinal, fr.closure.name))
        if st.orelse:
            raise OutOfSubset('for/else over symbolic data')
        # R-loop: invariant holds at 0; arbitrary iteration preserves it; after the loop Inv(n).
        n = seq.length
        if getattr(spec, 'enter', None):
            spec.enter(self, fr.env)
        self.ctx.oblige('%s/loop%d/inv.init' % (self.world.qualname(fr.closure), ordinal), spec.inv(self, fr.env, z3.IntVal(0), seq), kind='loop')
        which = self.ctx.branch(self.ctx.fresh('loop%d_iter' % ordinal, z3.BoolSort()))
        spec.havoc(self, fr.env)
        if which:
            i = self.ctx.fresh('k%d' % ordinal, z3.IntSort())
            self.ctx.assume(z3.And(i >= 0, i < n))
            self.ctx.assume(spec.inv(self, fr.env, i, seq))
            if getattr(spec, 'unfold', None):
                self.ctx.assume(spec.unfold(self, fr.env, i))
            self.assign(st.target, self.world.ops.seq_elem(self, seq, i))
            try:
                self.exec_block(st.body)
            except ContinueSig:
                pass
            except BreakSig:
                return
            self.ctx.oblige('%s/loop%d/inv.step' % (self.world.qualname(fr.closure), ordinal), spec.inv(self, fr.env, i + 1, seq), kind='loop')
            raise PathEnd()
        else:
            self.ctx.assume(n >= 0)
            self.ctx.assume(spec.inv(self, fr.env, n, seq))

    def x_While(self, st):
        fr = self.frames[-1]
        ordinal = fr.loop_ordinal
        fr.loop_ordinal += 1
        spec = self.world.loop_spec(self, fr.closure, ordinal)
        if spec is None:
            # concrete loop: run natively, with a generous fuse
            fuse = 0
            while self.truth(self.eval(st.test)):
                fuse += 1
                if fuse > 10000:
                    raise OutOfSubset('while loop without invariant did not terminate concretely')
                try:
                    self.exec_block(st.body)
                except BreakSig:
                    return
                except ContinueSig:
                    continue
            self.exec_block(st.orelse)
            return
        q = self.world.qualname(fr.closure)
        if getattr(spec, 'enter', None):
            spec.enter(self, fr.env)
        self.ctx.oblige('%s/loop%d/inv.init' % (q, ordinal), spec.inv(self, fr.env, None, None), kind='loop')
        which = self.ctx.branch(self.ctx.fresh('loop%d_iter' % ordinal, z3.BoolSort()))
        spec.havoc(self, fr.env)
        self.ctx.assume(spec.inv(self, fr.env, None, None))
        if which:
            if not self.truth(self.eval(st.test)):
                raise Infeasible()
            v0 = spec.variant(self, fr.env) if hasattr(spec, 'variant') and spec.variant else None
            try:
                self.exec_block(st.body)
            except ContinueSig:
                pass
            except BreakSig:
                return
            self.ctx.oblige('%s/loop%d/inv.step' % (q, ordinal), spec.inv(self, fr.env, None, None), kind='loop')
            if v0 is not None:
                v1 = spec.variant(self, fr.env)
                self.ctx.oblige('%s/loop%d/variant' % (q, ordinal), z3.And(v0 >= 0, v1 < v0), kind='termination')
            raise PathEnd()
        else:
            if self.truth(self.eval(st.test)):
                raise Infeasible()

    # ------------------------------------------------------------------ assignment
    def assign(self, target, v):
        if isinstance(target, ast.Name):
            self.store_name(target.id, v)
        elif isinstance(target, ast.Attribute):
            obj = self.eval(target.value)
            self.world.ops.setattr(self, obj, target.attr, v)
        elif isinstance(target, ast.Subscript):
            obj = self.eval(target.value)
            self.world.ops.setitem(self, obj, self.eval_index(target.slice), v)
        elif isinstance(target, (ast.Tuple, ast.List)):
            items = self.world.ops.unpack(self, v, len(target.elts))
            for t, x in zip(target.elts, items):
                self.assign(t, x)
        else:
            raise OutOfSubset('assignment target %s' % type(target).__name__)

    # ------------------------------------------------------------------ expressions
    def eval(self, node):
        m = getattr(self, 'e_' + type(node).__name__, None)
        if m is None:
            raise OutOfSubset('expression %s' % type(node).__name__)
        return m(node)

    def eval_index(self, node):
        if isinstance(node, ast.Slice):
            return slice(self.eval(node.lower) if node.lower else None,
                         self.eval(node.upper) if node.upper else None,
                         self.eval(node.step) if node.step else None)
        return self.eval(node)

    def e_Constant(self, n):
        return n.value

    def e_Name(self, n):
        return self.lookup(n.id)

    def e_Attribute(self, n):
        return self.getattr(self.eval(n.value), n.attr)

    def getattr(self, obj, name):
        return self.world.ops.getattr(self, obj, name)

    def e_Subscript(self, n):
        return self.world.ops.getitem(self, self.eval(n.value), self.eval_index(n.slice))

    def e_Tuple(self, n):
        return tuple(self._elts(n.elts))

    def e_List(self, n):
        return list(self._elts(n.elts))

    def _elts(self, elts):
        out = []
        for e in elts:
            if isinstance(e, ast.Starred):
                v = self.world.ops.iter_view(self, self.eval(e.value))
                if not isinstance(v, list):
                    raise OutOfSubset('starred symbolic sequence')
                out.extend(v)
            else:
                out.append(self.eval(e))
        return out

    def e_Set(self, n):
        return set(self._elts(n.elts))

    def e_Dict(self, n):
        d = LazyDict()
        for k, v in zip(n.keys, n.values):
            if k is None:
                raise OutOfSubset('dict unpacking')
            d[self.eval(k)] = self.eval(v)
        return d

    def e_Lambda(self, n):
        fr = self.frames[-1]
        return Closure(n, (fr.env, fr.closure.env), fr.closure.module, '<lambda>')

    def e_IfExp(self, n):
        if self.truth(self.eval(n.test)):
            return self.eval(n.body)
        return self.eval(n.orelse)

    def e_BoolOp(self, n):
        is_and = isinstance(n.op, ast.And)
        v = None
        for e in n.values:
            v = self.eval(e)
            t = self.truth(v)
            if is_and and not t:
                return v
            if (not is_and) and t:
                return v
        return v

    def e_UnaryOp(self, n):
        v = self.eval(n.operand)
        if isinstance(n.op, ast.Not):
            t = self.truth_term(v)
            return (not t) if isinstance(t, bool) else self.wrap(z3.Not(t))
        return self.world.ops.unop(self, type(n.op).__name__, v)

    def e_BinOp(self, n):
        return self.world.ops.binop(self, type(n.op).__name__, self.eval(n.left), self.eval(n.right))

    def e_Compare(self, n):
        left = self.eval(n.left)
        res = True
        for op, c in zip(n.ops, n.comparators):
            right = self.eval(c)
            r = self.world.ops.compare(self, type(op).__name__, left, right)
            if len(n.ops) == 1:
                return r
            if not self.truth(r):
                return r
            res = r
            left = right
        return res

    def e_Call(self, n):
        if isinstance(n.func, ast.Name) and n.func.id == 'super':
            return self.eval_super(n)
        fn = self.eval(n.func)
        args = self._elts(n.args)
        kwargs = {}
        for kw in n.keywords:
            if kw.arg is None:
                d = self.eval(kw.value)
                if not isinstance(d, dict):
                    raise OutOfSubset('**symbolic')
                kwargs.update(d)
            else:
                kwargs[kw.arg] = self.eval(kw.value)
        return self.call(fn, args, kwargs)

    def eval_super(self, n):
        fr = self.frames[-1]
        cls = fr.closure.cls
        if cls is None:
            raise OutOfSubset('super() outside a method')
        selfv = fr.env[fr.closure.node.args.args[0].arg]
        return self.world.ops.super_proxy(self, cls, selfv)

    def e_ListComp(self, n):
        return self.world.ops.comprehension(self, n, 'list')

    def e_GeneratorExp(self, n):
        return self.world.ops.comprehension(self, n, 'list')

    def e_DictComp(self, n):
        return self.world.ops.comprehension(self, n, 'dict')

    def e_JoinedStr(self, n):
        raise OutOfSubset('f-string')


def _load(target):
    t = ast.parse(ast.unparse(target), mode='eval').body
    return t


# ---------------------------------------------------------------------- exploration driver
class PathResult(object):
    def __init__(self, kind, value, ctx, interp, note=''):
        self.kind = kind      # 'return' | 'raise' | 'end' (subsumed loop-body path) | 'oos'
        self.value = value
        self.ctx = ctx
        self.interp = interp
        self.note = note


def explore(world, run_path, task_name, max_paths=4000):
    """run_path(interp) -> value (executes the function under verification on one path; may oblige
    postconditions itself through the `finish` callback it returns).  Returns list of PathResult."""
    work = [[]]
    results = []
    t0 = time.time()
    while work:
        dec = work.pop()
        ctx = Ctx(dec, task_name)
        interp = Interp(ctx, world)
        world.begin_path(interp)
        try:
            try:
                v = run_path(interp)
                results.append(PathResult('return', v, ctx, interp))
            except PyExc as e:
                results.append(PathResult('raise', e, ctx, interp))
            except PathEnd:
                results.append(PathResult('end', None, ctx, interp))
            except Infeasible:
                pass
        except OutOfSubset as e:
            results.append(PathResult('oos', None, ctx, interp, note=str(e)))
        except (z3.Z3Exception, TypeError, AttributeError, KeyError, IndexError, ValueError, AssertionError) as e:
            import traceback
            results.append(PathResult('oos', None, ctx, interp, note='engine could not model this path (%s: %s) at %s' % (
                type(e).__name__, str(e)[:200], traceback.format_exc().strip().splitlines()[-3].strip()[:160])))
        work.extend(ctx.spawned)
        if len(results) > max_paths:
            results.append(PathResult('oos', None, ctx, interp, note='path cap %d exceeded' % max_paths))
            break
    return results
