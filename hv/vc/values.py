"""Symbolic values of the E1 interpreter.

Concrete Python values (int, bool, str, None, tuple, ...) are represented by themselves.
Symbolic values wrap z3 terms.  Containers and instances are *Python-side mutable cells*
holding z3 terms, so Python aliasing is modelled by Python aliasing of the wrappers; every
path re-executes from the start, so no cell is ever shared between paths.
"""
import z3

from .smt import VAL, KEY


class Sym(object):
    pass


class SInt(Sym):
    def __init__(self, term):
        self.term = term

    def __repr__(self):
        return 'SInt(%s)' % self.term


class SBool(Sym):
    def __init__(self, term):
        self.term = term

    def __repr__(self):
        return 'SBool(%s)' % self.term


class SVal(Sym):
    """Opaque Python object (sort Val)."""

    def __init__(self, term):
        self.term = term

    def __repr__(self):
        return 'SVal(%s)' % self.term


class SKey(Sym):
    """Opaque hashable with value equality (sort Key): abstract strings / dict keys."""

    def __init__(self, term):
        self.term = term

    def __repr__(self):
        return 'SKey(%s)' % self.term


class SSeq(Sym):
    """list / tuple model: length + array Int->elem.  `mutable` distinguishes list from tuple."""

    def __init__(self, length, arr, esort, mutable=True, kind='list'):
        self.length = length
        self.arr = arr
        self.esort = esort
        self.mutable = mutable
        self.kind = kind

    def copy(self, mutable=None, kind=None):
        return SSeq(self.length, self.arr, self.esort,
                    self.mutable if mutable is None else mutable, kind or self.kind)

    def __repr__(self):
        return 'SSeq(len=%s)' % (self.length,)


class SView(Sym):
    """A read-only symbolic iterable: length term + elem(i) -> value (zip / enumerate / keys views)."""

    def __init__(self, length, elem):
        self.length = length
        self.elem = elem


class SMap(Sym):
    """dict model: dom: Array K Bool, val: Array K V, size: Int (size==0 <-> empty)."""

    def __init__(self, dom, val, size, ksort, vsort):
        self.dom = dom
        self.val = val
        self.size = size
        self.ksort = ksort
        self.vsort = vsort

    def __repr__(self):
        return 'SMap(size=%s)' % (self.size,)


class SSet(SMap):
    """set model: an SMap whose values are not used (A-bi-set: add/discard/copy/in/bool)."""
    is_set = True

    def __init__(self, dom, size, ksort):
        SMap.__init__(self, dom, z3.K(ksort, z3.BoolVal(True)), size, ksort, z3.BoolSort())

    def __repr__(self):
        return 'SSet(size=%s)' % (self.size,)


class LazyDict(dict):
    """`{}` in the interpreted program: a concrete dict until a symbolic key is stored into it while empty;
    from then on it is the symbolic map `sym` (same Python object, so aliases see the change)."""
    sym = None

    def __hash__(self):
        return id(self)


def unmap(x):
    if isinstance(x, LazyDict) and x.sym is not None:
        return x.sym
    return x


class OpaqueText(Sym):
    """a string whose text is not modelled (log / error messages built from abstract strings)"""


class SObj(Sym):
    """Instance of a class from the extracted source; fields is a plain dict name -> value."""

    def __init__(self, cls, fields=None):
        self.cls = cls          # ClassRef
        self.fields = fields if fields is not None else {}

    def __repr__(self):
        return 'SObj(%s)' % self.cls.name


class ClassRef(object):
    """A class of the extracted source (or an abstract builtin class for isinstance)."""

    def __init__(self, name, info=None, bases=(), module=None):
        self.name = name
        self.info = info        # frontend ClassInfo or None
        self.bases = list(bases)    # ClassRef list
        self.module = module

    def mro(self):
        out = [self]
        for b in self.bases:
            for c in b.mro():
                if c not in out:
                    out.append(c)
        return out

    def find_method(self, name):
        for c in self.mro():
            if c.info is not None and name in c.info.methods:
                return c, c.info.methods[name]
        return None, None

    def issubclass(self, other):
        return other in self.mro()

    def __repr__(self):
        return 'ClassRef(%s)' % self.name


class Closure(object):
    """A def / lambda of the extracted source together with its defining environment."""

    def __init__(self, node, env, module, name=None, cls=None):
        self.node = node
        self.env = env
        self.module = module
        self.name = name or getattr(node, 'name', '<lambda>')
        self.cls = cls


class BoundMethod(object):
    def __init__(self, selfv, closure):
        self.selfv = selfv
        self.closure = closure


class Builtin(object):
    """A modelled builtin / library function: fn(interp, args, kwargs) -> value."""

    def __init__(self, name, fn):
        self.name = name
        self.fn = fn

    def __repr__(self):
        return 'Builtin(%s)' % self.name


class KeysList(list):
    """a materialised keys() / items() view: iterates like the list, compares like a set (collections.abc.Set.__eq__ / dict_keys.__eq__)"""


class ValuesList(list):
    """a materialised values() view: iterates like the list, compares by identity (views define no __eq__)"""


class AbstractCallable(object):
    """A callable known only by contract: apply(interp, args, kwargs) -> value (may raise)."""

    def __init__(self, name, apply):
        self.name = name
        self.apply = apply


class PyExc(Exception):
    """A Python exception raised by the interpreted program."""

    def __init__(self, cls, args=(), note=''):
        Exception.__init__(self, cls)
        self.cls = cls       # class name string, e.g. 'ValueError'
        self.args_ = args
        self.note = note


class OutOfSubset(Exception):
    """The code uses something the engine does not model: never a verdict (exit 3)."""


# exception hierarchy (builtins + the dependency classes the ledger lists)
EXC_BASES = {
    'BaseException': None,
    'Exception': 'BaseException',
    'ArithmeticError': 'Exception', 'ZeroDivisionError': 'ArithmeticError', 'OverflowError': 'ArithmeticError',
    'AssertionError': 'Exception', 'AttributeError': 'Exception',
    'LookupError': 'Exception', 'IndexError': 'LookupError', 'KeyError': 'LookupError',
    'NotImplementedError': 'RuntimeError', 'RuntimeError': 'Exception',
    'StopIteration': 'Exception',
    'TypeError': 'Exception', 'ValueError': 'Exception',
    'UnicodeError': 'ValueError', 'UnicodeDecodeError': 'UnicodeError',
    'ImportError': 'Exception', 'NameError': 'Exception',
    # dependencies (ledger A-bi / A-tz / A-pp)
    'ZincParseException': 'ValueError',
    'ParseException': 'Exception', 'pp.ParseException': 'Exception',
    'iso8601.ParseError': 'ValueError', 'binascii.Error': 'ValueError', 'json.JSONDecodeError': 'ValueError',
    'pytz.InvalidTimeError': 'Exception',
    'pytz.AmbiguousTimeError': 'pytz.InvalidTimeError', 'pytz.NonExistentTimeError': 'pytz.InvalidTimeError',
    'pytz.UnknownTimeZoneError': 'KeyError',
}


def exc_isinstance(cls, handler):
    c = cls
    while c is not None:
        if c == handler:
            return True
        c = EXC_BASES.get(c)
    return False
