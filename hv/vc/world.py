"""The program environment of E1: extracted modules, globals, classes, builtins, contracts, hooks."""
import ast
import re as _re

import z3

from ..frontend import extract
from . import smt
from .ops import Ops, NativeMethod, has_sym, NotImpl
from .values import (Sym, SInt, SBool, SVal, SKey, SSeq, SView, SMap, SObj, ClassRef, Closure, BoundMethod,
                     Builtin, AbstractCallable, PyExc, OutOfSubset, EXC_BASES, LazyDict, unmap)


class Partial(object):
    def __init__(self, fn, args, kwargs):
        self.fn, self.args, self.kwargs = fn, list(args), dict(kwargs)


def _partial(it, args, kw):
    p = Partial(args[0], args[1:], kw)

    def apply(it2, a, k):
        kk = dict(p.kwargs)
        kk.update(k)
        return it2.call(p.fn, p.args + list(a), kk)
    ac = AbstractCallable('partial', apply)
    ac.partial = p
    return ac


class LoopSpec(object):
    """Sidecar loop contract: inv(it, env, i, seq) -> z3 Bool; havoc(it, env) re-binds the variables the
    body modifies to fresh symbols; variant(it, env) -> z3 Int (while loops)."""

    def __init__(self, inv, havoc=None, variant=None, unfold=None, enter=None):
        self.enter = enter        # enter(it, env): snapshot ghost state when the loop is reached
        self.inv = inv
        self.havoc = havoc or (lambda it, env: None)
        self.variant = variant
        self.unfold = unfold      # unfold(it, env, i) -> ground instance of a recursive spec definition at iteration i


class World(object):
    class Namespace(object):
        """A stub module / namespace: attribute -> value (or callable producing it)."""

        def __init__(self, name, attrs=None, fallback=None):
            self.name = name
            self.attrs = attrs or {}
            self.fallback = fallback

        def get(self, it, attr):
            if attr in self.attrs:
                return self.attrs[attr]
            if self.fallback is not None:
                try:
                    return getattr(self.fallback, attr)
                except AttributeError:
                    pass
            it.raise_('AttributeError', 'module %s has no attribute %s' % (self.name, attr))

    def __init__(self):
        self.ops = Ops(self)
        self.hooks = {}
        self.contracts = {}          # qualname -> fn(it, args, kwargs) -> value
        self.loop_specs = {}         # (qualname, ordinal) -> LoopSpec
        self.class_ctor = {}         # class name -> fn(it, cls, args, kwargs)
        self.global_overrides = {}   # (module name, name) -> value | callable(it)->value
        self.under_verification = None
        self._classes = {}
        self._key_consts = {}
        self.units_used = {}
        self.builtins = self._make_builtins()
        self.externals = self._make_externals()
        self.path_globals = {}
        self.globals_written = set()
        self.globals_read = set()    # module-level variables (assigned names) read on any path: frame conditions

    # ------------------------------------------------------------------ per path
    def begin_path(self, it):
        self.path_globals = {}
        self._key_consts_path = {}
        for f in self.hooks.get('begin_path', []) if isinstance(self.hooks.get('begin_path'), list) else []:
            f(it)

    # ------------------------------------------------------------------ interning of concrete strings as Keys
    def key_const(self, it, s):
        if s not in self._key_consts:
            self._key_consts[s] = z3.Const('key_%s' % _re.sub(r'\W', '_', s)[:20] + '_%d' % len(self._key_consts), smt.KEY)
        k = self._key_consts[s]
        if s not in self._key_consts_path:
            for o, ko in self._key_consts_path.items():
                it.ctx.assume(k != ko)
            self._key_consts_path[s] = k
        return k

    # ------------------------------------------------------------------ names
    def qualname(self, clo):
        if clo.cls is not None:
            return '%s.%s.%s' % (clo.module.name, clo.cls.name, clo.name)
        return '%s.%s' % (clo.module.name, clo.name)

    def method_closure(self, cls, node):
        self.note_unit(cls.module, '%s.%s' % (cls.name, node.name), node)
        return Closure(node, None, cls.module, node.name, cls=cls)

    def note_unit(self, module, qual, node):
        key = '%s.%s' % (module.name, qual)
        if key not in self.units_used:
            self.units_used[key] = extract.Unit(key, node, module.path, module.src)

    def function(self, modname, qual):
        """Closure for 'func' or 'Class.method' of an extracted module."""
        m = extract.module(modname)
        if '.' in qual:
            cn, mn = qual.split('.', 1)
            cls = self.class_ref(m, cn)
            c, node = cls.find_method(mn)
            if node is None:
                raise KeyError(qual)
            return self.method_closure(c, node)
        node = m.functions[qual]
        self.note_unit(m, qual, node)
        return Closure(node, None, m, qual)

    def class_ref(self, module, name):
        key = (module.name, name)
        if key in self._classes:
            return self._classes[key]
        info = module.classes[name]
        cr = ClassRef(name, info, [], module)
        self._classes[key] = cr
        for b in info.bases:
            br = self.resolve_base(module, b)
            if br is not None:
                cr.bases.append(br)
        return cr

    ABC_BASES = {'col.MutableMapping': 'MutableMapping', 'col.MutableSequence': 'MutableSequence',
                 'collections.abc.MutableMapping': 'MutableMapping'}

    def resolve_base(self, module, expr):
        if expr == 'object':
            return None
        if expr in self.ABC_BASES or expr in ('MutableMapping', 'MutableSequence', 'Mapping', 'Sequence', 'Collection',
                                               'Reversible', 'Sized', 'Iterable', 'Container'):
            abc = extract.module('stdlib._collections_abc')
            n = self.ABC_BASES.get(expr, expr)
            if n in abc.classes:
                return self.class_ref(abc, n)
            return None
        if expr in module.classes:
            return self.class_ref(module, expr)
        if expr in module.imports:
            mod, attr = module.imports[expr]
            tm = self._rel_module(module, mod)
            if tm is not None and attr in tm.classes:
                return self.class_ref(tm, attr)
        if expr in EXC_BASES or expr in ('six.text_type', 'str'):
            return ClassRef(expr.replace('six.text_type', 'str'))
        if expr.startswith('six.with_metaclass'):
            return None
        return ClassRef(expr)

    def _rel_module(self, module, mod):
        if mod.startswith('.'):
            pkg = module.name.rsplit('.', 1)[0]
            rest = mod.lstrip('.')
            name = pkg + ('.' + rest if rest else '')
            try:
                return extract.module(name)
            except (OSError, IOError):
                try:
                    return extract.module(name + '.__init__')
                except (OSError, IOError):
                    return None
        return None

    def resolve_import(self, it, module, mod, attr):
        tm = self._rel_module(module, mod)
        if tm is not None:
            if attr is None:
                raise OutOfSubset('import of package module object')
            return self.global_lookup(it, tm, attr)
        base = mod.split('.')[0]
        if attr is None:
            if mod in self.externals:
                return self.externals[mod]
            raise OutOfSubset('external module %s' % mod)
        if mod in self.externals:
            return self.externals[mod].get(it, attr)
        raise OutOfSubset('external import %s.%s' % (mod, attr))

    def global_lookup(self, it, module, name):
        key = (module.name, name)
        if name in module.assigns:
            self.globals_read.add(key)
        if key in self.global_overrides:
            v = self.global_overrides[key]
            return v(it) if callable(v) and not isinstance(v, (Closure, Builtin, AbstractCallable, ClassRef)) else v
        if key in self.path_globals:
            return self.path_globals[key]
        if name in module.functions:
            node = module.functions[name]
            self.note_unit(module, name, node)
            return Closure(node, None, module, name)
        if name in module.classes:
            return self.class_ref(module, name)
        if name in module.assigns:
            node = module.assigns[name][-1]
            clo = Closure(ast.Lambda(args=ast.arguments(posonlyargs=[], args=[], kwonlyargs=[], kw_defaults=[], defaults=[]),
                                     body=node), None, module, '<module %s>' % name)
            saved_depth = it.depth
            it.depth = 1        # module-level initialisers never use the top-level contract bypass
            try:
                v = it.eval_in(node, clo)
            finally:
                it.depth = saved_depth
            self.path_globals[key] = v
            return v
        if name in module.imports:
            mod, attr = module.imports[name]
            v = self.resolve_import(it, module, mod, attr)
            return v
        for sm in getattr(module, 'star_imports', []):
            tm = self._rel_module(module, sm)
            if tm is not None and (name in tm.functions or name in tm.classes or name in tm.assigns or name in tm.imports):
                return self.global_lookup(it, tm, name)
        if name in self.builtins:
            return self.builtins[name]
        if name in EXC_BASES:
            return ClassRef(name)
        it.raise_('NameError', name)

    def global_store(self, it, module, name, value):
        self.globals_written.add((module.name, name))
        self.path_globals[(module.name, name)] = value

    def exc_name(self, it, module, expr):
        if expr in EXC_BASES:
            return expr
        if expr in module.classes:
            return expr
        # e.g. pp.ParseException, pytz.UnknownTimeZoneError
        tail = expr.split('.')[-1]
        for k in EXC_BASES:
            if k.split('.')[-1] == tail:
                return k
        return expr

    def class_attr(self, it, cls, name):
        for c in cls.mro():
            if c.info is None:
                continue
            for st in c.info.node.body:
                if isinstance(st, ast.Assign) and any(isinstance(t, ast.Name) and t.id == name for t in st.targets):
                    key = ('<class %s>' % c.name, name)
                    if key not in self.path_globals:
                        clo = Closure(st.value, None, c.module, '<class attr>')
                        self.path_globals[key] = it.eval_in(st.value, clo)
                    return self.path_globals[key]
        return NotImpl

    def loop_spec(self, it, clo, ordinal):
        return self.loop_specs.get((self.qualname(clo), ordinal))

    # ------------------------------------------------------------------ native calls
    NATIVE_FUNCS = None

    def native_ok(self, fn, args, kwargs):
        if isinstance(fn, NativeMethod):
            return True
        return not has_sym(list(args)) and not has_sym(kwargs)

    def native_call(self, it, fn, args, kwargs):
        if isinstance(fn, NativeMethod):
            return self.native_method(it, fn, args, kwargs)
        try:
            return fn(*args, **kwargs)
        except (ValueError, TypeError, KeyError, IndexError, AttributeError, ZeroDivisionError, OverflowError) as e:
            it.raise_(type(e).__name__, str(e))

    def native_method(self, it, nm, args, kwargs):
        obj, name = nm.obj, nm.name
        sym_elems = has_sym(obj) or has_sym(list(args)) or has_sym(kwargs)
        if isinstance(obj, list) and name in ('index', 'remove', 'count') and sym_elems:
            x = args[0]
            if name == 'count':
                raise OutOfSubset('list.count with symbolic elements')
            for i, e in enumerate(obj):
                if it.truth(self.ops.compare(it, 'Eq', e, x)):
                    if name == 'index':
                        return i
                    del obj[i]
                    return None
            it.raise_('ValueError', 'x not in list')
        if isinstance(obj, list) and name == 'sort' and sym_elems:
            if args or set(kwargs) - {'reverse'}:
                raise OutOfSubset('list.sort(key=...) with symbolic elements')
            # insertion sort through the program's own __lt__ (A-bi-sort: list.sort orders by <, stable)
            rev = bool(kwargs.get('reverse', False))
            out = []
            for x in (reversed(obj) if rev else obj):
                pos = len(out)
                for i, y in enumerate(out):
                    if it.truth(self.ops.compare(it, 'Lt', x, y)):
                        pos = i
                        break
                out.insert(pos, x)
            if rev:
                out.reverse()
            obj[:] = out
            return None
        if isinstance(obj, dict) and name in ('get', 'pop', 'setdefault') and args and isinstance(args[0], Sym):
            for k in list(obj):
                if it.truth(self.ops.compare(it, 'Eq', k, args[0])):
                    if name == 'pop':
                        return obj.pop(k)
                    return obj[k]
            if name == 'setdefault':
                raise OutOfSubset('symbolic key stored into concrete dict')
            if len(args) > 1:
                return args[1]
            if name == 'pop':
                it.raise_('KeyError', args[0])
            return None
        if isinstance(obj, dict) and name in ('keys', 'values', 'items'):
            if name == 'keys' and not has_sym(list(obj.keys())):
                return obj.keys()
            from hv.vc.values import KeysList, ValuesList
            return (ValuesList if name == 'values' else KeysList)(getattr(obj, name)())
        if isinstance(obj, dict) and name == 'update' and args:
            src = args[0]
            if isinstance(src, dict):
                obj.update(src)
                return None
            for kv in self.ops.iter_view(it, src):
                k, v = self.ops.unpack(it, kv, 2)
                self.ops.setitem(it, obj, k, v)
            return None
        if isinstance(obj, str) and sym_elems:
            h = self.hooks.get('str_method')
            if h is not None:
                r = h(it, obj, name, args, kwargs)
                if r is not NotImpl:
                    return r
            if name == 'join':
                return '<joined>'
            raise OutOfSubset('str.%s with symbolic argument' % name)
        try:
            return getattr(obj, name)(*args, **kwargs)
        except (ValueError, TypeError, KeyError, IndexError, AttributeError) as e:
            it.raise_(type(e).__name__, str(e))

    # ------------------------------------------------------------------ isinstance
    PY_TYPES = {'int': int, 'str': str, 'bool': bool, 'float': float, 'list': list, 'dict': dict, 'tuple': tuple,
                'set': set, 'bytes': bytes, 'type(None)': type(None), 'slice': slice, 'complex': complex}

    def isinstance_(self, it, v, cls):
        """-> python bool or z3 Bool"""
        if isinstance(cls, tuple):
            rs = [self.isinstance_(it, v, c) for c in cls]
            if all(isinstance(r, bool) for r in rs):
                return any(rs)
            return z3.Or(*[z3.BoolVal(r) if isinstance(r, bool) else r for r in rs])
        if isinstance(cls, Builtin):
            cls = ClassRef(cls.name)
        h = self.hooks.get('isinstance')
        if h is not None:
            r = h(it, v, cls)
            if r is not NotImpl:
                return r
        cname = cls.name if isinstance(cls, ClassRef) else getattr(cls, '__name__', None)
        if isinstance(v, SObj):
            if isinstance(cls, ClassRef):
                return any(c is cls or c.name == cls.name for c in v.cls.mro())
            if cls is object:
                return True
            return False
        if isinstance(v, SInt):
            return cname in ('int', 'Number', 'Integral', 'Real', 'Rational', 'Complex', 'object')
        if isinstance(v, SBool):
            return cname in ('bool', 'int', 'Number', 'Integral', 'Real', 'Rational', 'Complex', 'object')
        if isinstance(v, SKey):
            return cname in ('str', 'object')
        if isinstance(v, SSeq):
            return cname in (v.kind, 'object') or (cname in ('Sequence', 'MutableSequence') and v.kind == 'list')
        if isinstance(v, SMap):
            return cname in ('dict', 'object', 'Mapping', 'MutableMapping')
        if isinstance(v, SVal):
            raise OutOfSubset('isinstance of an opaque value without a kind model')
        if isinstance(v, (Closure, BoundMethod, Builtin, AbstractCallable, ClassRef)):
            return False
        if isinstance(cls, ClassRef):
            if cls.info is not None:
                return False
            t = self.PY_TYPES.get(cls.name)
            if t is None:
                import numbers
                t = getattr(numbers, cls.name, None)
            if t is None:
                raise OutOfSubset('isinstance against unknown class %s' % cls.name)
            return isinstance(v, t)
        try:
            return isinstance(v, cls)
        except TypeError:
            raise OutOfSubset('isinstance(%r, %r)' % (v, cls))

    # ------------------------------------------------------------------ builtins
    def _make_builtins(self):
        w = self
        B = {}

        def reg(name):
            def deco(f):
                B[name] = Builtin(name, f)
                return f
            return deco

        @reg('isinstance')
        def _isinstance(it, args, kw):
            r = w.isinstance_(it, args[0], args[1])
            return r if isinstance(r, bool) else it.wrap(r)

        @reg('len')
        def _len(it, args, kw):
            v = unmap(args[0])
            if isinstance(v, (SSeq, SView)):
                return it.wrap(v.length)
            if isinstance(v, SMap):
                return it.wrap(v.size)
            if isinstance(v, SObj):
                return it.call_method(v, '__len__', [])
            if isinstance(v, Sym):
                h = w.hooks.get('len')
                if h is not None:
                    return h(it, v)
                raise OutOfSubset('len of %r' % (v,))
            try:
                return len(v)
            except TypeError as e:
                it.raise_('TypeError', str(e))

        @reg('print')
        def _print(it, args, kw):
            return None

        @reg('bool')
        def _bool(it, args, kw):
            t = it.truth_term(args[0]) if args else False
            return t if isinstance(t, bool) else it.wrap(t)

        @reg('int')
        def _int(it, args, kw):
            v = args[0] if args else 0
            if isinstance(v, SInt):
                return v
            if isinstance(v, SBool):
                return it.wrap(z3.If(v.term, 1, 0))
            if isinstance(v, SObj):
                return it.call_method(v, '__int__', [])
            if isinstance(v, Sym):
                h = w.hooks.get('int')
                if h is not None:
                    return h(it, args, kw)
                raise OutOfSubset('int() of %r' % (v,))
            if has_sym(list(args)[1:]):
                raise OutOfSubset('int() with symbolic base')
            try:
                return int(*args, **kw)
            except (ValueError, TypeError) as e:
                it.raise_(type(e).__name__, str(e))

        @reg('str')
        def _str(it, args, kw):
            v = args[0] if args else ''
            if isinstance(v, SObj):
                c, m = v.cls.find_method('__str__')
                if m is not None:
                    return it.call_method(v, '__str__', [])
                c, m = v.cls.find_method('__repr__')
                if m is not None:
                    return it.call_method(v, '__repr__', [])
                return '<%s object>' % v.cls.name
            if isinstance(v, Sym):
                h = w.hooks.get('str')
                if h is not None:
                    return h(it, v)
                raise OutOfSubset('str() of %r' % (v,))
            if has_sym(v):
                return '<str of container>'
            return str(v)

        @reg('repr')
        def _repr(it, args, kw):
            v = args[0]
            if isinstance(v, SObj):
                c, m = v.cls.find_method('__repr__')
                if m is not None:
                    return it.call_method(v, '__repr__', [])
            if isinstance(v, Sym) or has_sym(v):
                h = w.hooks.get('repr')
                if h is not None:
                    return h(it, v)
                return '<repr>'
            return repr(v)

        @reg('tuple')
        def _tuple(it, args, kw):
            if not args:
                return ()
            v = w.ops.iter_view(it, args[0])
            if isinstance(v, list):
                return tuple(v)
            if isinstance(v, SSeq):
                return v.copy(mutable=False, kind='tuple')
            raise OutOfSubset('tuple() of %r' % (args[0],))

        @reg('list')
        def _list(it, args, kw):
            if not args:
                return []
            v = w.ops.iter_view(it, args[0])
            if isinstance(v, list):
                return list(v)
            if isinstance(v, SSeq):
                return v.copy(mutable=True, kind='list')
            if isinstance(v, SView):
                h = w.hooks.get('list_of_view')
                if h is not None:
                    return h(it, v)
            raise OutOfSubset('list() of %r' % (args[0],))

        @reg('dict')
        def _dict(it, args, kw):
            d = LazyDict()
            if args:
                src = args[0]
                if isinstance(src, dict):
                    d.update(src)
                else:
                    v = w.ops.iter_view(it, src)
                    if not isinstance(v, list):
                        h = w.hooks.get('dict_from_pairs')
                        if h is not None and not kw:
                            return h(it, v)
                        raise OutOfSubset('dict() of symbolic iterable')
                    for kv in v:
                        k, x = w.ops.unpack(it, kv, 2)
                        d[k] = x
            d.update(kw)
            return d

        @reg('set')
        def _set(it, args, kw):
            if not args:
                return set()
            v = w.ops.iter_view(it, args[0])
            if not isinstance(v, list):
                raise OutOfSubset('set() of symbolic iterable')
            h = w.hooks.get('make_set')
            if h is not None:
                return h(it, v)
            if any(isinstance(x, Sym) and not isinstance(x, SObj) for x in v):
                raise OutOfSubset('set of symbolic scalars')
            return set(v)

        @reg('range')
        def _range(it, args, kw):
            if not has_sym(list(args)):
                return range(*args)
            if len(args) == 1:
                lo, hi = 0, args[0]
            elif len(args) == 2:
                lo, hi = args
            else:
                raise OutOfSubset('range with step on symbolic bounds')
            lo_t, hi_t = it.as_term(lo), it.as_term(hi)
            n = z3.If(hi_t - lo_t < 0, 0, hi_t - lo_t)
            return SView(z3.simplify(n), lambda it2, i: it2.wrap(lo_t + i))

        @reg('zip')
        def _zip(it, args, kw):
            views = [w.ops.iter_view(it, a) for a in args]
            if all(isinstance(v, list) for v in views):
                return [tuple(t) for t in zip(*views)]
            if any(v is None for v in views):
                raise OutOfSubset('zip of non-iterable')
            lens = [z3.IntVal(len(v)) if isinstance(v, list) else v.length for v in views]
            n = lens[0]
            for l in lens[1:]:
                n = z3.If(l < n, l, n)

            def elem(it2, i):
                out = []
                for v in views:
                    if isinstance(v, list):
                        out.append(w.ops.getitem(it2, v, it2.wrap(i)))
                    else:
                        out.append(w.ops.seq_elem(it2, v, i))
                return tuple(out)
            return SView(z3.simplify(n), elem)

        @reg('enumerate')
        def _enumerate(it, args, kw):
            start = args[1] if len(args) > 1 else kw.get('start', 0)
            v = w.ops.iter_view(it, args[0])
            if isinstance(v, list):
                return [(i + start, x) for i, x in enumerate(v)]
            if v is None:
                raise OutOfSubset('enumerate of non-iterable')
            return SView(v.length, lambda it2, i: (it2.wrap(i + start), w.ops.seq_elem(it2, v, i)))

        @reg('map')
        def _map(it, args, kw):
            f = args[0]
            views = [w.ops.iter_view(it, a) for a in args[1:]]
            if all(isinstance(v, list) for v in views):
                return [it.call(f, list(t)) for t in zip(*views)]
            if len(views) == 1 and views[0] is not None:
                v = views[0]
                return SView(v.length, lambda it2, i: it2.call(f, [w.ops.seq_elem(it2, v, i)]))
            raise OutOfSubset('map over symbolic iterables')

        @reg('iter')
        def _iter(it, args, kw):
            return args[0]

        @reg('max')
        def _max(it, args, kw):
            return _minmax(it, args, True)

        @reg('min')
        def _min(it, args, kw):
            return _minmax(it, args, False)

        def _minmax(it, args, is_max):
            if len(args) == 1:
                args = w.ops.iter_view(it, args[0])
                if not isinstance(args, list):
                    raise OutOfSubset('max/min of symbolic iterable')
            if not has_sym(list(args)):
                return max(args) if is_max else min(args)
            ts = [it.as_term(a) for a in args]
            r = ts[0]
            for t in ts[1:]:
                r = z3.If(t > r, t, r) if is_max else z3.If(t < r, t, r)
            return it.wrap(r)

        @reg('abs')
        def _abs(it, args, kw):
            v = args[0]
            if isinstance(v, SObj):
                return it.call_method(v, '__abs__', [])
            if isinstance(v, SInt):
                return it.wrap(z3.If(v.term < 0, -v.term, v.term))
            if isinstance(v, Sym):
                h = w.hooks.get('abs')
                if h is not None:
                    return h(it, v)
                raise OutOfSubset('abs of %r' % (v,))
            return abs(v)

        @reg('hash')
        def _hash(it, args, kw):
            if isinstance(args[0], SObj):
                c, m = args[0].cls.find_method('__hash__')
                if m is not None:
                    return it.call_method(args[0], '__hash__', [])
            h = w.hooks.get('hash')
            if h is None:
                raise OutOfSubset('hash() without a model')
            return h(it, args[0])

        @reg('id')
        def _id(it, args, kw):
            h = w.hooks.get('id')
            if h is None:
                raise OutOfSubset('id() without a model')
            return h(it, args[0])

        @reg('sorted')
        def _sorted(it, args, kw):
            v = w.ops.iter_view(it, args[0])
            if isinstance(v, list) and not has_sym(v) and not kw:
                return sorted(v)
            h = w.hooks.get('sorted')
            if h is not None:
                return h(it, v, kw)
            raise OutOfSubset('sorted of symbolic values')

        @reg('getattr')
        def _getattr(it, args, kw):
            try:
                return it.getattr(args[0], args[1])
            except PyExc as e:
                if e.cls == 'AttributeError' and len(args) > 2:
                    return args[2]
                raise

        @reg('hasattr')
        def _hasattr(it, args, kw):
            try:
                it.getattr(args[0], args[1])
                return True
            except PyExc as e:
                if e.cls == 'AttributeError':
                    return False
                raise

        @reg('callable')
        def _callable(it, args, kw):
            return isinstance(args[0], (Closure, BoundMethod, Builtin, AbstractCallable, ClassRef)) or callable(args[0])

        @reg('next')
        def _next(it, args, kw):
            raise OutOfSubset('next()')

        for nm, py in (('float', float), ('complex', complex), ('divmod', divmod), ('pow', pow), ('oct', oct), ('hex', hex),
                       ('ord', ord), ('chr', chr), ('round', round), ('sum', sum), ('all', all), ('any', any)):
            def mk(nm, py):
                def f(it, args, kw):
                    if has_sym(list(args)) or has_sym(kw):
                        h = w.hooks.get('builtin_' + nm)
                        if h is not None:
                            return h(it, args, kw)
                        raise OutOfSubset('%s() of symbolic value' % nm)
                    try:
                        return py(*args, **kw)
                    except (ValueError, TypeError, ZeroDivisionError, OverflowError) as e:
                        it.raise_(type(e).__name__, str(e))
                return f
            B[nm] = Builtin(nm, mk(nm, py))
        for cn in ('object', 'slice', 'bytes', 'bytearray', 'type'):
            B[cn] = ClassRef(cn)
        for cn in ('int', 'str', 'bool', 'float', 'list', 'dict', 'tuple', 'set', 'complex'):
            # usable both as constructor (Builtin) and in isinstance: keep ctor under name, class under '<cls>'
            pass
        B['True'], B['False'], B['None'] = True, False, None
        B['NotImplemented'] = NotImplemented
        return B

    def _make_externals(self):
        import datetime
        import numbers
        import functools
        import copy
        import json
        import sys
        NS = World.Namespace
        noop = Builtin('noop', lambda it, a, k: None)
        six = NS('six', {'PY2': False, 'PY3': True, 'text_type': ClassRef('str'), 'string_types': (ClassRef('str'),),
                         'integer_types': (ClassRef('int'),), 'binary_type': ClassRef('bytes'),
                         'unichr': self.builtins['chr']})
        ext = {
            'six': six,
            'warnings': NS('warnings', {'warn': noop}),
            'logging': NS('logging', {'getLogger': Builtin('getLogger', lambda it, a, k: NS('LOG', {
                'debug': noop, 'info': noop, 'warning': noop, 'error': noop, 'exception': noop}))}),
            'numbers': NS('numbers', {n: ClassRef(n) for n in ('Number', 'Integral', 'Real', 'Complex', 'Rational')}),
            're': NS('re', {}, fallback=_re),
            'sys': NS('sys', {'version_info': sys.version_info, 'exc_info': Builtin('exc_info', lambda it, a, k: (None, getattr(it, 'current_exc', None), None))}),
            'functools': NS('functools', {'partial': Builtin('functools.partial', _partial)}, fallback=functools),
            'datetime': NS('datetime', {n: ClassRef('datetime.' + n) for n in ('datetime', 'date', 'time', 'timedelta')}),
            'copy': NS('copy', {}),
            'operator': NS('operator', {}, fallback=__import__('operator')),
            'itertools': NS('itertools', {}, fallback=__import__('itertools')),
            'json': NS('json', {}),
        }
        return ext

    # isinstance against builtin class names used as plain names in source (int, str, list, dict ...)
    def builtin_class_or_ctor(self, name):
        return self.builtins.get(name)
