"""Shape-typed symbolic strings for E1, decided by E2.

A Shape is a concatenation of literal pieces and *fields*; a field ranges over a regular language and carries a
denotation (the payload value it spells).  Every string test the interpreted code performs (==, startswith,
regex match, `in`) is decided for the whole language at once by hv.lang.automata; when the answer is not uniform
the path forks and the shape is refined by a whole-string constraint.  Regex groups are returned as sub-shapes
when every accepting run of the pattern places the group exactly on part boundaries of the shape (alignment
check over marked automata; stronger than needed - it ignores match priorities - and a failure comes with a
witness string that is replayed against CPython's `re`).
"""
import re

import z3

from ..lang import automata as A, sre2nfa as S
from ..lang.charset import CS
from .values import Sym, SInt, SBool, SVal, SKey, Builtin, AbstractCallable, PyExc, OutOfSubset
from .ops import NativeMethod

NotImpl = NotImplemented


class Lit(object):
    def __init__(self, text):
        self.text = text

    def nfa(self):
        return A.lit(self.text)

    def __repr__(self):
        return 'Lit(%r)' % self.text


class Field(object):
    """name: unique; lang: NFA; kind: what the text is (drives the conversion lemmas); den: denotation (any object/term)"""

    def __init__(self, name, lang, kind='text', den=None, fixed_len=None):
        self.name, self.lang, self.kind, self.den, self.fixed_len = name, lang, kind, den, fixed_len

    def nfa(self):
        return self.lang

    def __repr__(self):
        return 'Field(%s:%s)' % (self.name, self.kind)


class CharField(Field):
    """one symbolic character ranging over a set of code points; den = its code point (z3 Int or int)"""

    def __init__(self, name, cs, den):
        Field.__init__(self, name, A.cset(cs), 'char', den, fixed_len=1)
        self.cs = cs

    def with_cs(self, cs):
        return CharField(self.name, cs, self.den)


class Shape(Sym):
    def __init__(self, parts, cons=(), neg=()):
        ps = []
        for p in parts:
            if isinstance(p, Lit) and not p.text:
                continue
            if isinstance(p, Lit) and ps and isinstance(ps[-1], Lit):
                ps[-1] = Lit(ps[-1].text + p.text)
            else:
                ps.append(p)
        self.parts = tuple(ps)
        self.cons = tuple(cons)       # NFAs the whole string belongs to
        self.neg = tuple(neg)         # NFAs the whole string does not belong to

    def base(self):
        return A.concat(*[p.nfa() for p in self.parts]) if self.parts else A.epsilon()

    def marked(self):
        """base language with a boundary mark #i before part i (and #n at the end)"""
        items = []
        for i, p in enumerate(self.parts):
            items += [A.mark('#%d' % i), p.nfa()]
        items.append(A.mark('#%d' % len(self.parts)))
        return A.concat(*items)

    def concrete(self):
        if all(isinstance(p, Lit) for p in self.parts):
            return ''.join(p.text for p in self.parts)
        return None

    def refine(self, nfa, positive):
        return Shape(self.parts, self.cons + ((nfa,) if positive else ()), self.neg + (() if positive else (nfa,)))

    def __repr__(self):
        return 'Shape(%s)' % ' '.join(repr(p) for p in self.parts)


def to_shape(x):
    if isinstance(x, Shape):
        return x
    if isinstance(x, str):
        return Shape([Lit(x)])
    return None


class Lang(object):
    """decision procedures on a constrained shape language"""

    @staticmethod
    def witness_in(shape, nfa, positive=True):
        """a string of the shape that is (not) in nfa, or None"""
        alpha_autos = [shape.base()] + list(shape.cons) + list(shape.neg) + [nfa]
        alpha = A.Alphabet(alpha_autos)
        ds = [A.determinize(shape.base(), alpha)] + [A.determinize(c, alpha) for c in shape.cons] + \
             [A.complement(A.determinize(c, alpha)) for c in shape.neg]
        d = A.determinize(nfa, alpha)
        ds.append(d if positive else A.complement(d))
        w = A.product_witness(ds, lambda f: all(f))
        return None if w is None else ''.join(w)

    @staticmethod
    def any_member(shape):
        return Lang.witness_in(shape, A.sigma_star(), True)


class MatchObj(object):
    def __init__(self, groups, whole):
        self._groups = groups     # list of Shape | None
        self.whole = whole


class SStrPlugin(object):
    """installs string semantics for Shapes into a World"""

    def __init__(self, world):
        self.world = world
        self.float_den = {}
        h = world.hooks
        self._prev = {k: h.get(k) for k in ('binop', 'compare', 'val_getattr', 'len', 'str', 'truth', 'val_getitem', 'str_method', 'str_contains')}
        h['binop'] = self.binop
        h['compare'] = self.compare
        h['val_getattr'] = self.getattr
        h['len'] = self.len
        h['val_getitem'] = self.getitem
        h['str_method'] = self.str_method
        h['native_call_sym'] = self.native_call_sym
        h['truth'] = self.truth
        h['str_contains'] = self.str_contains
        self._prev['val_contains'] = h.get('val_contains')
        h['val_contains'] = self.val_contains
        self.conversions = {}      # (builtin name, field kind) -> fn(it, field) -> value
        self.fmt = {}              # conversion char -> fn(it, value) -> Field | str

    # ---------------------------------------------------------------- decisions
    def decide(self, it, shape, nfa, what):
        """is the shape's string in nfa?  python bool; forks (refining) when not uniform"""
        w_in = Lang.witness_in(shape, nfa, True)
        w_out = Lang.witness_in(shape, nfa, False)
        if w_in is None and w_out is None:
            from .symex import Infeasible
            raise Infeasible()
        if w_out is None:
            return True, shape
        if w_in is None:
            return False, shape
        flag = it.ctx.fresh('str_%s' % what, z3.BoolSort())
        d = it.ctx.branch(flag)
        it.ctx.notes.append((what, d, w_in if d else w_out)) if hasattr(it.ctx, 'notes') else None
        return d, shape.refine(nfa, d)

    def rebind(self, it, old, new):
        """after a refinement, make the refined shape visible wherever the old object is bound in the current frame"""
        if new is old:
            return
        fr = it.frames[-1]
        for k, v in list(fr.env.items()):
            if v is old:
                fr.env[k] = new

    # ---------------------------------------------------------------- operators
    def binop(self, it, op, a, b):
        if op == 'Mod' and isinstance(a, str):
            return self.format(it, a, b)
        if op == 'Add' and (isinstance(a, Shape) or isinstance(b, Shape)):
            sa, sb = to_shape(a), to_shape(b)
            if sa is None or sb is None:
                it.raise_('TypeError', 'can only concatenate str')
            return Shape(sa.parts + sb.parts)
        p = self._prev.get('binop')
        return p(it, op, a, b) if p else NotImpl

    def format(self, it, fmt, args):
        if not isinstance(args, tuple):
            args = (args,)
        args = list(args)
        parts = []
        pos = 0
        for m in re.finditer(r'%(?:\(\w+\))?([#0\- +]*\d*(?:\.\d+)?)([sdfrx%])', fmt):
            parts.append(Lit(fmt[pos:m.start()]))
            pos = m.end()
            conv = m.group(2)
            if conv == '%':
                parts.append(Lit('%'))
                continue
            if not args:
                it.raise_('TypeError', 'not enough arguments for format string')
            v = args.pop(0)
            spec = m.group(1) + conv
            f = self.fmt.get(spec) or self.fmt.get(conv)
            if isinstance(v, Shape) and conv == 's' and not m.group(1):
                parts += list(v.parts)
                continue
            if isinstance(v, (str, int, float)) and not isinstance(v, bool) and not m.group(1) and conv in 'sd':
                parts.append(Lit(('%' + conv) % v))
                continue
            if f is None:
                raise OutOfSubset('format %%%s of %r' % (spec, v))
            r = f(it, v)
            parts += list(to_shape(r).parts) if isinstance(r, (Shape, str)) else [r]
        parts.append(Lit(fmt[pos:]))
        if args:
            it.raise_('TypeError', 'not all arguments converted during string formatting')
        return Shape(parts)

    def compare(self, it, op, a, b):
        if (isinstance(a, Shape) or isinstance(b, Shape)) and op in ('Eq', 'NotEq'):
            sa, sb = to_shape(a), to_shape(b)
            if sa is None or sb is None:
                return op == 'NotEq'
            if sb.concrete() is not None:
                sh, text = sa, sb.concrete()
            elif sa.concrete() is not None:
                sh, text = sb, sa.concrete()
            else:
                if sa is sb:
                    return op == 'Eq'
                raise OutOfSubset('equality of two symbolic strings')
            d, new = self.decide(it, sh, A.lit(text), 'eq_%s' % text[:6])
            self.rebind(it, sh, new)
            return d if op == 'Eq' else not d
        p = self._prev.get('compare')
        return p(it, op, a, b) if p else NotImpl

    def truth(self, it, v):
        if isinstance(v, Shape):
            d, new = self.decide(it, v, A.epsilon(), 'empty')
            self.rebind(it, v, new)
            return not d
        if isinstance(v, MatchObj):
            return True
        p = self._prev.get('truth')
        if p:
            return p(it, v)
        raise OutOfSubset('truth of %r' % (v,))

    def len(self, it, v):
        if isinstance(v, Shape):
            if v.concrete() is not None:
                return len(v.concrete())
            raise OutOfSubset('len of a symbolic string')
        p = self._prev.get('len')
        if p:
            return p(it, v)
        raise OutOfSubset('len')

    def val_contains(self, it, container, x):
        if isinstance(container, Shape) and isinstance(x, str):
            d, new = self.decide(it, container, A.concat(A.sigma_star(), A.lit(x), A.sigma_star()), 'contains_%s' % x[:4])
            self.rebind(it, container, new)
            return d
        p = self._prev.get('val_contains')
        if p:
            return p(it, container, x)
        raise OutOfSubset('in on %r' % (container,))

    def str_contains(self, it, container, x):
        # `c in "literal"` for a one-character symbolic string
        if isinstance(x, Shape) and len(x.parts) == 1 and isinstance(x.parts[0], CharField):
            lang = A.cset(CS.of(*container)) if container else A.empty()
            d, new = self.decide(it, x, lang, 'char_in_%s' % _short(container))
            if new.cons or new.neg:
                p = x.parts[0]
                q = p.with_cs((p.cs & CS.of(*container)) if d else (p.cs - CS.of(*container)))
                self.rebind(it, x, Shape([q]))
            return d
        if isinstance(x, Shape) and x.concrete() is not None:
            return x.concrete() in container
        raise OutOfSubset('symbolic in str')

    # ---------------------------------------------------------------- methods
    def getattr(self, it, obj, name):
        if isinstance(obj, Poison):
            raise obj.exc
        if isinstance(obj, Shape):
            return AbstractCallable('str.' + name, lambda it2, args, kw: self.method(it2, obj, name, args, kw))
        if isinstance(obj, CharMatch):
            if name == 'group':
                return AbstractCallable('group', lambda it2, a, k: obj.shape)
            raise OutOfSubset('match.%s' % name)
        if isinstance(obj, MatchObj):
            if name == 'groups':
                return AbstractCallable('groups', lambda it2, a, k: tuple(obj._groups[1:]))
            if name == 'group':
                return AbstractCallable('group', lambda it2, a, k: obj._groups[a[0] if a else 0])
            raise OutOfSubset('match.%s' % name)
        p = self._prev.get('val_getattr')
        return p(it, obj, name) if p else NotImpl

    def method(self, it, sh, name, args, kw):
        if name == 'startswith':
            pre = args[0]
            if not isinstance(pre, str):
                raise OutOfSubset('startswith(non-literal)')
            d, new = self.decide(it, sh, A.concat(A.lit(pre), A.sigma_star()), 'startswith_%s' % pre[:6])
            self.rebind(it, sh, new)
            return d
        if name in ('upper', 'lower'):
            # only on case-insensitive-safe texts: every field must be closed under the mapping
            ok = all(isinstance(p, Lit) or p.kind in ('iso_datetime', 'digits') for p in sh.parts)
            if not ok:
                raise OutOfSubset('str.%s on a free text' % name)
            return Shape([Lit(getattr(p.text, name)()) if isinstance(p, Lit) else p for p in sh.parts], sh.cons, sh.neg)
        if name == 'split':
            return self.split(it, sh, args, kw)
        if name == 'replace':
            return self.replace(it, sh, args)
        if name == 'ljust':
            n = _fixed_length(sh)
            if n is None or not isinstance(args[0], int) or (len(args) > 1 and not isinstance(args[1], str)):
                raise OutOfSubset('ljust on a string of unknown length')
            pad = args[1] if len(args) > 1 else ' '
            return Shape(list(sh.parts) + [Lit(pad * max(0, args[0] - n))], sh.cons, sh.neg) if args[0] > n else sh
        if name == 'decode':
            return sh
        if name == 'strip':
            raise OutOfSubset('strip on symbolic string')
        raise OutOfSubset('str.%s on a symbolic string' % name)

    def split(self, it, sh, args, kw):
        sep = args[0]
        maxsplit = args[1] if len(args) > 1 else kw.get('maxsplit', -1)
        if not isinstance(sep, str) or len(sep) != 1:
            raise OutOfSubset('split on non single-char literal')
        # the separator may only occur in literal parts; fields must exclude it (decided by E2)
        cs = CS.of(sep)
        has_sep = A.concat(A.sigma_star(), A.cset(cs), A.sigma_star())
        pieces = [[]]
        nsplit = 0
        for p in sh.parts:
            if isinstance(p, Lit):
                segs = p.text.split(sep)
                for i, seg in enumerate(segs):
                    if i > 0:
                        if maxsplit >= 0 and nsplit >= maxsplit:
                            pieces[-1].append(Lit(sep + seg))
                            continue
                        nsplit += 1
                        pieces.append([])
                    pieces[-1].append(Lit(seg))
            else:
                w = A.intersect_witness(p.nfa(), has_sep)
                if w is not None and not (maxsplit >= 0 and nsplit >= maxsplit):
                    # number of pieces depends on the payload: fork on "this field contains the separator"
                    d, new = self.decide(it, Shape([p]), has_sep, 'field_%s_contains_%s' % (p.name, sep))
                    if d:
                        it.ctx.split_witness = (p.name, w)
                        raise SplitAmbiguous(p, sep, w)
                    p = Field(p.name, _intersect_complement(p.lang, has_sep), p.kind, p.den)
                pieces[-1].append(p)
        return [Shape(ps) for ps in pieces]

    def replace(self, it, sh, args):
        orig, esc = args[0], args[1]
        if not (isinstance(orig, str) and len(orig) == 1 and isinstance(esc, str)):
            raise OutOfSubset('str.replace with a non single-character pattern on a symbolic string')
        out = []
        has = A.concat(A.sigma_star(), A.lit(orig), A.sigma_star())
        for p in sh.parts:
            if isinstance(p, Lit):
                out.append(Lit(p.text.replace(orig, esc)))
            elif isinstance(p, CharField):
                d, new = self.decide(it, Shape([p]), A.lit(orig), 'char_is_%r' % orig)
                if d:
                    out.append(Lit(esc))
                else:
                    out.append(p.with_cs(p.cs - CS.of(orig)) if (new.cons or new.neg) else p)
            else:
                if A.intersect_witness(p.nfa(), has) is not None:
                    raise OutOfSubset('str.replace(%r) over field %s whose text may contain it' % (orig, p.name))
                out.append(p)
        return Shape(out, sh.cons, sh.neg)

    def getitem(self, it, obj, key):
        if isinstance(obj, Shape):
            r = self._getitem_fixed(obj, key)
            if r is not None:
                return r
            if isinstance(key, slice) and key.step is None and key.stop is None and isinstance(key.start, int) and key.start >= 0:
                n = key.start
                parts = list(obj.parts)
                while n > 0:
                    if not parts or not isinstance(parts[0], Lit) or len(parts[0].text) < n:
                        if parts and isinstance(parts[0], Lit):
                            n -= len(parts[0].text)
                            parts.pop(0)
                            continue
                        raise OutOfSubset('slice cuts into a field')
                    parts[0] = Lit(parts[0].text[n:])
                    n = 0
                return Shape(parts)
            if isinstance(key, slice) and key.step is None and key.start in (None, 0) and isinstance(key.stop, int) and key.stop >= 0:
                # s[:n] on parts of known length: cut at a part boundary
                out, n = [], key.stop
                for p in obj.parts:
                    ln = len(p.text) if isinstance(p, Lit) else p.fixed_len
                    if ln is None:
                        raise OutOfSubset('s[:%d] of a string of unknown length' % key.stop)
                    if n >= ln:
                        out.append(p)
                        n -= ln
                    elif n == 0:
                        break
                    elif isinstance(p, Lit):
                        out.append(Lit(p.text[:n]))
                        n = 0
                        break
                    else:
                        raise OutOfSubset('s[:%d] cuts into a field' % key.stop)
                return Shape(out)
            if isinstance(key, slice) and key.step is None and isinstance(key.start, int) and isinstance(key.stop, int) and 0 <= key.start <= key.stop:
                # s[a:b]: decided when it lies inside a leading literal, otherwise by language
                c = obj.parts[0].text if obj.parts and isinstance(obj.parts[0], Lit) else ''
                if len(c) >= key.stop:
                    return c[key.start:key.stop]
                return self.slice_by_language(it, obj, key.start, key.stop)
            if isinstance(key, int) and key >= 0:
                c = obj.parts[0].text if obj.parts and isinstance(obj.parts[0], Lit) else ''
                if len(c) > key:
                    return c[key]
                return self.slice_by_language(it, obj, key, key + 1, index=True)
            if isinstance(key, int) and key == -1:
                c = obj.parts[-1].text if obj.parts and isinstance(obj.parts[-1], Lit) else ''
                if c:
                    return c[-1]
                return self.slice_by_language(it, obj, -1, None, index=True)
            raise OutOfSubset('subscript %r of a symbolic string' % (key,))
        p = self._prev.get('val_getitem')
        if p:
            return p(it, obj, key)
        raise OutOfSubset('subscript of %r' % (obj,))

    @staticmethod
    def _getitem_fixed(obj, key):
        """s[i] / s[a:b] / s[a:] when every part before the cut has a known length and no field is cut"""
        def plen(p):
            return len(p.text) if isinstance(p, Lit) else p.fixed_len
        if isinstance(key, int) and not isinstance(key, bool) and key >= 0:
            a, b, idx = key, key + 1, True
        elif isinstance(key, slice) and key.step is None and (key.start is None or (isinstance(key.start, int) and key.start >= 0)) \
                and (key.stop is None or (isinstance(key.stop, int) and key.stop >= 0)):
            a, b, idx = key.start or 0, key.stop, False
        else:
            return None
        out = []
        pos = 0
        for p in obj.parts:
            if b is not None and pos >= b:
                break
            n = plen(p)
            if pos is None:
                out.append(p)
                continue
            if n is None:
                if pos >= a and b is None:
                    out.append(p)       # the open tail: everything from here on
                    pos = None
                    continue
                return None
            lo, hi = max(a, pos), (pos + n if b is None else min(b, pos + n))
            if lo < hi:
                if lo == pos and hi == pos + n:
                    out.append(p)
                elif isinstance(p, Lit):
                    out.append(Lit(p.text[lo - pos:hi - pos]))
                else:
                    return None
            pos += n
        if pos is not None and ((b is not None and pos < b) or pos < a):
            return None         # may run past the end of the known part: leave to the general rules
        if idx:
            if len(out) != 1:
                return None
            if isinstance(out[0], Lit):
                return out[0].text
            return Shape(out)
        r = Shape(out)
        c = r.concrete()
        return c if c is not None else r

    def slice_by_language(self, it, sh, a, b, index=False):
        """the (short) substring s[a:b] as a 1-char symbolic result: returns a CharChoice the comparisons can decide"""
        return CharAt(self, sh, a, index)

    def str_method(self, it, obj, name, args, kw):
        if name == 'join':
            items = it.world.ops.iter_view(it, args[0])
            if not isinstance(items, list):
                raise OutOfSubset('join over a symbolic-length sequence')
            parts = []
            for i, x in enumerate(items):
                if i:
                    parts.append(Lit(obj))
                sx = to_shape(x)
                if sx is None:
                    it.raise_('TypeError', 'sequence item: expected str instance')
                parts += list(sx.parts)
            return Shape(parts)
        if name == 'format':
            raise OutOfSubset('str.format')
        return NotImpl

    # ---------------------------------------------------------------- regex objects and conversions
    def native_call_sym(self, it, fn, args, kw):
        owner = getattr(fn, '__self__', None)
        nm = getattr(fn, '__name__', '')
        if isinstance(owner, re.Pattern) and nm in ('match', 'fullmatch') and args and isinstance(args[0], (Shape, str)):
            return self.re_match(it, owner, to_shape(args[0]), nm)
        if isinstance(owner, re.Pattern) and nm == 'sub':
            return self.re_sub(it, owner, args[0], to_shape(args[1]))
        return NotImpl

    def re_sub(self, it, pat, repl, sh):
        """pattern.sub(callback, s) for a single-character class pattern: a per-character map (ledger A-re-sub)"""
        if not _single_char_pattern(pat):
            raise OutOfSubset('regex.sub with a pattern that is not a single-character class')
        cls_lang = S.body(pat.pattern, pat.flags)
        out = []
        for p in sh.parts:
            if isinstance(p, Lit):
                for ch in p.text:
                    m = pat.match(ch)
                    if m is None:
                        out.append(Lit(ch))
                    else:
                        r = it.call(repl, [m]) if not isinstance(repl, str) else repl
                        out += list(to_shape(r).parts)
            elif isinstance(p, CharField):
                inside, new = self.decide(it, Shape([p]), cls_lang, 'char_in_class')
                q = p
                if new.cons or new.neg:
                    from ..lang.charset import CS as _CS
                    clsset = _class_of(pat)
                    q = p.with_cs((p.cs & clsset) if inside else (p.cs - clsset))
                if inside:
                    r = it.call(repl, [CharMatch(Shape([q]))]) if not isinstance(repl, str) else repl
                    out += list(to_shape(r).parts)
                else:
                    out.append(q)
            else:
                raise OutOfSubset('regex.sub over a multi-character field (use the per-character transducer)')
        return Shape(out)

    def re_match(self, it, pat, sh, how):
        lang = S.match_language(pat.pattern, pat.flags) if how == 'match' else S.body(pat.pattern, pat.flags)
        d, new = self.decide(it, sh, lang, 're_%s' % _short(pat.pattern))
        self.rebind(it, sh, new)
        if not d:
            return None
        return MatchObj(self.groups(it, pat, new, how), new)

    def groups(self, it, pat, sh, how):
        n = pat.groups
        out = [sh]
        gm = tuple(range(1, n + 1))
        marked = S.match_language(pat.pattern, pat.flags, marks=gm) if how == 'match' else S.body(pat.pattern, pat.flags, marks=gm)
        fixed = []
        for g in gm:
            try:
                self._last_span = None
                try:
                    feas = self._feasible_spans(it, pat, sh, marked, g, n, ())
                except Misaligned:
                    feas = None
                if (feas is None or len(feas) > 1) and fixed:
                    # the groups of ONE match come from one run: read this group off the runs that place the earlier groups
                    # where they were found (only needed when the group alone is ambiguous: the joint product is costly)
                    feas = self._feasible_spans(it, pat, sh, marked, g, n, tuple(fixed))
                elif feas is None:
                    feas = self._feasible_spans(it, pat, sh, marked, g, n, ())
                out.append(self._choose_span(it, sh, g, feas))
                if self._last_span is not None:
                    fixed.append((g, self._last_span[0], self._last_span[1]))
            except Misaligned as e:
                out.append(Poison(e))       # only an error if the program uses this group
        return out

    def _choose_span(self, it, sh, g, feasible):
        # several placements (an optional group present or absent depending on the payload): fork
        for k, f in enumerate(feasible[:-1]):
            if it.ctx.branch(it.ctx.fresh('group%d_case%d' % (g, k), z3.BoolSort())):
                self._last_span = f
                return None if f is None else Shape(sh.parts[f[0]:f[1]])
        f = feasible[-1]
        self._last_span = f
        return None if f is None else Shape(sh.parts[f[0]:f[1]])

    def group_value(self, it, pat, sh, marked, g, n, fixed=()):
        return self._choose_span(it, sh, g, self._feasible_spans(it, pat, sh, marked, g, n, fixed))

    def _feasible_spans(self, it, pat, sh, marked, g, n, fixed=()):
        """the sub-shape group g captures, if every run places it on part boundaries (else OutOfSubset with a witness);
        `fixed`: (group, i, j) spans already determined for earlier groups of the same match"""
        fgroups = [f[0] for f in fixed]
        fmarks = [m for k in fgroups for m in ('<%d' % k, '>%d' % k)]
        others = set()
        for k in range(1, n + 1):
            if k != g and k not in fgroups:
                others |= {'<%d' % k, '>%d' % k}
        rg = A.erase_marks(marked, others)                       # group g's marks (and those of the fixed groups) remain
        bmarks = ['#%d' % i for i in range(len(sh.parts) + 1)]
        shape_m = sh.marked()
        gmarks = ['<%d' % g, '>%d' % g]
        # joint language over Sigma + {<g, >g} + boundary marks: both automata read the same text
        left = A.allow_marks(rg, bmarks)
        right = A.allow_marks(shape_m, gmarks + fmarks)
        cons = [A.allow_marks(c, bmarks + gmarks + fmarks) for c in sh.cons]
        negs = [A.allow_marks(c, bmarks + gmarks + fmarks) for c in sh.neg]
        for (fg, fi, fj) in fixed:
            extra = [m for m in gmarks + fmarks if m not in ('<%d' % fg, '>%d' % fg)]
            cons.append(A.allow_marks(_span_language(bmarks, fg, fi, fj), extra))
        order = _order_language(bmarks, g)
        alpha = A.Alphabet([left, right] + cons + negs)
        joint = [A.determinize(left, alpha), A.determinize(right, alpha)] + \
                [A.determinize(c, alpha) for c in cons] + [A.complement(A.determinize(c, alpha)) for c in negs]
        outcomes = _track_spans(alpha, joint, g, len(sh.parts))
        bad = [o for o in outcomes if o[0] == 'bad']
        inside = [o for o in outcomes if o[0] == 'inside']
        spans = sorted({(o[1], o[2]) for o in outcomes if o[0] == 'span'})
        absent = any(o[0] == 'absent' for o in outcomes)
        if spans and len({i for i, _ in spans}) == 1:
            top = (spans[0][0], max(j for _, j in spans))
        else:
            top = None
        if (inside or len(spans) > 1) and not bad and top is not None and not absent and _greedy_tail(pat, g) \
                and all(o[1] == top[0] and o[2] < top[1] for o in inside):
            spans = [top]
            outcomes = [o for o in outcomes if not (o[0] == 'span' and (o[1], o[2]) != top)]
            # every misplaced run opens with the field and closes earlier than the field ends: CPython's greedy matching
            # prefers the longest capture, provided an aligned run exists for every string of the shape (coverage)
            sel = A.allow_marks(_span_language(bmarks, g, spans[0][0], spans[0][1]), fmarks)
            al2 = A.Alphabet([left, right, sel] + cons + negs)
            prod = [A.determinize(x, al2) for x in [left, right, sel] + cons] + [A.complement(A.determinize(c, al2)) for c in negs]
            covered = _project_product(al2, prod)
            okc, wc = A.included(_shape_language(sh), covered)
            if okc:
                inside = []
            else:
                raise Misaligned(pat, g, wc, 'no run captures the whole field for %r' % (wc,))
        if bad or inside:
            w_bad = (bad[0][1] if bad else inside[0][3])
            text = ''.join(c for c in w_bad if len(c) == 1)
            raise Misaligned(pat, g, text, ''.join(w_bad))
        feasible = []
        for o in outcomes:
            if o[0] == 'absent' and None not in feasible:
                feasible.append(None)
            elif o[0] == 'span' and (o[1], o[2]) not in feasible:
                feasible.append((o[1], o[2]))
        if not feasible:
            from .symex import Infeasible
            raise Infeasible()
        return feasible

    def convert(self, it, name, args):
        """float()/int() of a shape: conversion lemmas by field kind (ledger A-fl, A-bi)"""
        x = args[0]
        if isinstance(x, Poison):
            raise x.exc
        sh = to_shape(x)
        if sh is None:
            return NotImpl
        if sh.concrete() is not None:
            try:
                return {'float': float, 'int': int}[name](sh.concrete(), *args[1:])
            except ValueError as e:
                it.raise_('ValueError', str(e))
        if len(sh.parts) == 1 and isinstance(sh.parts[0], Field):
            f = self.conversions.get((name, sh.parts[0].kind))
            if f is not None:
                return f(it, sh.parts[0], sh)
        f = self.conversions.get((name, '*'))
        if f is not None:
            return f(it, sh)
        raise OutOfSubset('%s() of %r' % (name, sh))


class CharMatch(object):
    """match object of a single-character class pattern on a symbolic character"""

    def __init__(self, shape):
        self.shape = shape


def _single_char_pattern(pat):
    from ..lang.sre2nfa import sre_c, parse
    t = list(parse(pat.pattern, pat.flags))
    while len(t) == 1 and t[0][0] is sre_c.SUBPATTERN:
        t = list(t[0][1][3])
    return len(t) == 1 and t[0][0] in (sre_c.IN, sre_c.LITERAL, sre_c.NOT_LITERAL, sre_c.ANY)


def _class_of(pat):
    from ..lang.sre2nfa import sre_c, parse, _in_set
    t = list(parse(pat.pattern, pat.flags))
    while len(t) == 1 and t[0][0] is sre_c.SUBPATTERN:
        t = list(t[0][1][3])
    op, av = t[0]
    if op is sre_c.IN:
        return _in_set(av, pat.flags)
    if op is sre_c.LITERAL:
        return CS.rng(av, av)
    if op is sre_c.NOT_LITERAL:
        return ~CS.rng(av, av)
    return ~CS.of('\n')


class Poison(object):
    """a regex group that does not coincide with fields of the input: using it raises the recorded finding"""

    def __init__(self, exc):
        self.exc = exc


def _fixed_length(sh):
    n = 0
    for p in sh.parts:
        ln = len(p.text) if isinstance(p, Lit) else p.fixed_len
        if ln is None:
            return None
        n += ln
    return n


class SplitAmbiguous(OutOfSubset):
    def __init__(self, field, sep, witness):
        OutOfSubset.__init__(self, 'split(%r): field %s may contain the separator, e.g. %r' % (sep, field.name, witness))
        self.field, self.sep, self.witness = field, sep, witness


class CharAt(Sym):
    """s[i] (or s[a:b] of length one) of a symbolic string: comparisons are decided on the shape language"""

    def __init__(self, plugin, shape, pos, index):
        self.plugin, self.shape, self.pos, self.index = plugin, shape, pos, index


def _short(p):
    return re.sub(r'\W+', '_', p)[:16]


def _intersect_complement(lang, bad):
    """lang minus bad, as an NFA (via DFA)"""
    alpha = A.Alphabet([lang, bad])
    d1, d2 = A.determinize(lang, alpha), A.complement(A.determinize(bad, alpha))
    return _dfa_product_nfa(alpha, d1, d2)


def _dfa_product_nfa(alpha, d1, d2):
    out = A.NFA()
    ids = {}
    work = [(d1.start, d2.start)]
    ids[work[0]] = out.new()
    out.start = ids[work[0]]
    while work:
        st = work.pop()
        if st[0] in d1.finals and st[1] in d2.finals:
            out.finals.add(ids[st])
        bysucc = {}
        for sym in range(len(alpha.classes)):
            nx = (d1.delta[st[0]][sym], d2.delta[st[1]][sym])
            bysucc.setdefault(nx, []).append(sym)
        for nx, syms in bysucc.items():
            if nx not in ids:
                ids[nx] = out.new()
                work.append(nx)
            cs = CS()
            for s in syms:
                cs = cs | alpha.classes[s]
            out.add(ids[st], cs, ids[nx])
    return out


def _track_spans(alpha, dfas, g, nparts):
    """one BFS over the product of `dfas` with a tracker of where the marks of group g fall relative to boundary marks.
    -> list of outcomes: ('absent',) | ('span', i, j) | ('bad', witness symbols)"""
    import collections
    nch = len(alpha.classes)
    lo, hi = nch + alpha.marks.index('<%d' % g) if '<%d' % g in alpha.marks else -1, nch + alpha.marks.index('>%d' % g) if '>%d' % g in alpha.marks else -1
    bidx = {}
    for m in alpha.marks:
        if m.startswith('#'):
            bidx[nch + alpha.marks.index(m)] = int(m[1:])

    # tracker state: (phase, i, lastb, smin, smax, slo, shi); phase in pre / in / done / inside / bad.  A maximal run of consecutive
    # marks is one text position ("segment"); the group edge is aligned if its segment contains a boundary mark.
    def resolve(t):
        phase, i, lastb, smin, smax, slo, shi = t
        if phase == 'bad':
            return t
        if slo and shi:
            if phase != 'pre' or smin is None:
                return ('bad', None, None, None, None, False, False)
            return ('done', smin, smax, None, None, False, False)
        if slo:
            if phase != 'pre' or smax is None:
                return ('bad', None, None, None, None, False, False)
            return ('in', smax, smax, None, None, False, False)
        if shi:
            if phase != 'in':
                return ('bad', None, None, None, None, False, False)
            if smin is None:
                return ('inside', i, lastb, None, None, False, False)
            return ('done', i, smin, None, None, False, False)
        if phase == 'in' and smax is not None:
            return ('in', i, max(lastb, smax), None, None, False, False)
        return (phase, i, lastb, None, None, False, False)

    def step(t, sym):
        phase, i, lastb, smin, smax, slo, shi = t
        if phase == 'bad':
            return t
        if sym in bidx:
            b = bidx[sym]
            return (phase, i, lastb, b if smin is None else min(smin, b), b if smax is None else max(smax, b), slo, shi)
        if sym == lo:
            if slo or shi or phase != 'pre':
                return ('bad', None, None, None, None, False, False)
            return (phase, i, lastb, smin, smax, True, shi)
        if sym == hi:
            if shi or not (phase == 'in' or slo):
                return ('bad', None, None, None, None, False, False)
            return (phase, i, lastb, smin, smax, slo, True)
        if sym >= nch:
            return t            # a mark of another group: not a text position of its own
        return resolve(t)       # a character: the segment ends
    start = (tuple(d.start for d in dfas), ('pre', None, None, None, None, False, False))
    prev = {start: None}
    q = collections.deque([start])
    out = {}
    nsym = alpha.nsym
    while q:
        st = q.popleft()
        ps, t = st
        if all(s in d.finals for s, d in zip(ps, dfas)):
            key = None
            r = resolve(t)
            if r[0] in ('bad', 'in'):
                key = ('bad',)
            elif r[0] == 'inside':
                key = ('inside', r[1], r[2])
            elif r[0] == 'pre':
                key = ('absent',)
            elif r[0] == 'done':
                key = ('span', r[1], r[2])
            if key is not None and key not in out:
                path = []
                cur = st
                while prev[cur] is not None:
                    cur, sym = prev[cur]
                    path.append(alpha.show(sym))
                path.reverse()
                out[key] = path
        for sym in range(nsym):
            nt = step(t, sym)
            nps = tuple(d.delta[s][sym] for s, d in zip(ps, dfas))
            nx = (nps, nt)
            if nx not in prev:
                prev[nx] = (st, sym)
                q.append(nx)
    res = []
    for key, path in out.items():
        if key[0] == 'bad':
            res.append(('bad', path))
        elif key[0] == 'inside':
            res.append(('inside', key[1], key[2], path))
        else:
            res.append(key)
    return res


def _greedy_tail(pat, g):
    """group g's body ends with a greedy repeat (so among runs that open at the same place CPython prefers the longest capture)"""
    from ..lang.sre2nfa import sre_c, parse

    def find(tree):
        for op, av in tree:
            if op is sre_c.SUBPATTERN:
                if av[0] == g:
                    items = list(av[3])
                    return bool(items) and items[-1][0] is sre_c.MAX_REPEAT
                r = find(av[3])
                if r is not None:
                    return r
            elif op is sre_c.BRANCH:
                for alt in av[1]:
                    r = find(alt)
                    if r is not None:
                        return r
            elif op in (sre_c.MAX_REPEAT, sre_c.MIN_REPEAT):
                r = find(av[2])
                if r is not None:
                    return r
        return None
    return bool(find(parse(pat.pattern, pat.flags)))


def _project_product(alpha, dfas):
    """NFA (over characters only) of the strings accepted by the product of `dfas` with every mark erased"""
    out = A.NFA()
    start = tuple(d.start for d in dfas)
    ids = {start: out.new()}
    out.start = ids[start]
    work = [start]
    nch = len(alpha.classes)
    while work:
        st = work.pop()
        if all(s in d.finals for s, d in zip(st, dfas)):
            out.finals.add(ids[st])
        bysucc = {}
        for sym in range(alpha.nsym):
            nx = tuple(d.delta[s][sym] for s, d in zip(st, dfas))
            bysucc.setdefault((nx, sym >= nch), []).append(sym)
        for (nx, ismark), syms in bysucc.items():
            if nx not in ids:
                ids[nx] = out.new()
                work.append(nx)
            if ismark:
                out.add(ids[st], None, ids[nx])
            else:
                cs = CS()
                for sy in syms:
                    cs = cs | alpha.classes[sy]
                out.add(ids[st], cs, ids[nx])
    return out


def _shape_language(sh):
    if not sh.cons and not sh.neg:
        return sh.base()
    autos = [sh.base()] + list(sh.cons)
    alpha = A.Alphabet(autos + list(sh.neg))
    ds = [A.determinize(a, alpha) for a in autos] + [A.complement(A.determinize(n, alpha)) for n in sh.neg]
    return _project_product(alpha, ds)


class Misaligned(OutOfSubset):
    def __init__(self, pat, g, text, marked):
        OutOfSubset.__init__(self, 'group %d of %s does not coincide with the fields of the input for %r (%s)' % (g, _short(pat.pattern), text, marked))
        self.text = text
        self.group = g


def _anysym(a, q, d, bmarks, g, exclude=()):
    a.add(q, CS.full(), d)
    for m in list(bmarks) + ['<%d' % g, '>%d' % g]:
        if m not in exclude:
            a.add(q, m, d)


def _no_marks(bmarks, g):
    a = A.NFA()
    s = a.new()
    a.start = s
    a.finals = {s}
    _anysym(a, s, s, bmarks, g, exclude=('<%d' % g, '>%d' % g))
    return a


def _order_language(bmarks, g):
    """canonical interleaving of marks at one text position: `>g` before boundary marks before `<g`"""
    lo, hi = '<%d' % g, '>%d' % g
    a = A.NFA()
    q0, qlt, qb = a.new(), a.new(), a.new()
    a.start = q0
    a.finals = {q0, qlt, qb}
    for q in (q0, qlt, qb):
        a.add(q, CS.full(), q0)
        a.add(q, lo, qlt)
    for m in bmarks:
        a.add(q0, m, qb)
        a.add(qb, m, qb)           # qlt --#--> dead
    a.add(q0, hi, q0)
    a.add(qlt, hi, q0)             # qb --hi--> dead
    return a


def _aligned_language(bmarks, g):
    """`<g` immediately after a boundary mark, `>g` immediately before one"""
    lo, hi = '<%d' % g, '>%d' % g
    a = A.NFA()
    qo, qb, qc = a.new(), a.new(), a.new()
    a.start = qo
    a.finals = {qo, qb}
    a.add(qo, CS.full(), qo)
    a.add(qb, CS.full(), qo)
    for m in bmarks:
        a.add(qo, m, qb)
        a.add(qb, m, qb)
        a.add(qc, m, qb)
    a.add(qb, lo, qo)
    a.add(qo, hi, qc)
    a.add(qb, hi, qc)
    return a


def _span_language(bmarks, g, i, j):
    lo, hi = '<%d' % g, '>%d' % g
    a = A.NFA()
    q = [a.new() for _ in range(7)]
    a.start = q[0]
    a.finals = {q[6]}
    _anysym(a, q[0], q[0], bmarks, g)
    a.add(q[0], '#%d' % i, q[1])
    a.add(q[1], lo, q[2])
    _anysym(a, q[2], q[2], bmarks, g, exclude=(lo, hi))
    a.add(q[2], hi, q[4])
    a.add(q[4], '#%d' % j, q[5])
    a.add(q[5], None, q[6])
    _anysym(a, q[6], q[6], bmarks, g)
    return a
