"""Helpers for property scripts: run a function of the real source on symbolic inputs, collect
obligations, turn unexpected outcomes into named obligations."""
import z3

from . import smt
from .symex import explore, Obligation
from .values import PyExc
from .world import World, LoopSpec


class Task(object):
    def __init__(self, name):
        self.name = name
        self.obligations = []
        self.world = None
        self.worlds = []

    def explore(self, world, run, case, allow_raise=None):
        """run(it) executes one path and states its obligations with it.ctx.oblige.
        allow_raise: None -> any escaping exception is an obligation failure 'raises.none';
                     callable(it, exc) -> handles an escaping PyExc (states obligations)."""
        self.world = world
        if world not in self.worlds:
            self.worlds.append(world)
        res = explore(world, run, '%s/%s' % (self.name, case))
        n_paths = 0
        for i, p in enumerate(res):
            n_paths += 1
            for o in p.ctx.obligations:
                o.name = '%s/%s' % (case, o.name)
                self._add(o)
            if p.kind == 'oos':
                self._add(Obligation('%s/in-subset' % case, 'unknown', 'hv', 0.0, 'oos', reason='out of subset: ' + p.note, kind='subset'))
            elif p.kind == 'raise':
                e = p.value
                if allow_raise is not None:
                    before = len(p.ctx.obligations)
                    allow_raise(p.interp, e)
                    for o in p.ctx.obligations[before:]:
                        o.name = '%s/%s' % (case, o.name)
                        self._add(o)
                else:
                    # an exception the contract does not allow: refuted iff the path is feasible
                    o = p.ctx.oblige('raises.none(%s)' % e.cls, z3.BoolVal(False), kind='raises')
                    o.name = '%s/%s' % (case, o.name)
                    o.reason = (o.reason + ' escaping %s%r' % (e.cls, tuple(str(a)[:60] for a in e.args_)))[:400]
                    self._add(o)
        if n_paths == 0:
            self._add(Obligation('%s/reachable' % case, 'unknown', 'hv', 0.0, 'vacuous', reason='no feasible path: vacuous case', kind='vacuity'))
        return res

    def _add(self, o):
        # the same (case, clause) can arise on several paths: number them
        base = o.name
        names = {x.name for x in self.obligations}
        k = 1
        while o.name in names:
            k += 1
            o.name = '%s#%d' % (base, k)
        self.obligations.append(o)

    def lemma(self, name, hyps, goal, witness=None):
        """A pure spec lemma (no code): hyps => goal."""
        q = list(hyps) + [z3.Not(goal)]
        fp = smt.fingerprint(q)
        v = smt.check(q)
        st = {'unsat': 'proved', 'sat': 'refuted'}.get(v.status, 'unknown')
        o = Obligation(name, st, v.backend, v.time_s, fp, reason=v.reason, kind='lemma')
        if st == 'refuted' and v.model is not None:
            o.model = {str(d): str(v.model[d]) for d in v.model.decls()[:12]}
        self._add(o)
        return o

    def cover(self, name, facts):
        """Vacuity guard: the hypotheses must be satisfiable."""
        v = smt.check(list(facts), want_model=False)
        st = 'proved' if v.status == 'sat' else ('refuted' if v.status == 'unsat' else 'unknown')
        self._add(Obligation(name, st, v.backend, v.time_s, smt.fingerprint(list(facts)), reason='cover: hypotheses must be satisfiable', kind='vacuity'))

    def result(self):
        ws = list(self.worlds)
        if self.world is not None and self.world not in ws:
            ws.append(self.world)
        seen = {}
        for w in ws:
            for u in w.units_used.values():
                seen[u.qualname] = u.describe()
        units = list(seen.values())
        return {'task': self.name, 'obligations': [o.to_json() for o in self.obligations], 'units': units}
